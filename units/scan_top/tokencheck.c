/* UNIT
{
 "id": "TOKEN.tokencheck",
 "file": "token.c", "function": "tokencheck", "also_functions": ["tokendesc", "error"],
 "properties": {"C11": "contract", "C19": "all"},
 "mode": "harness", "noreturn_macros": false, "replay": false,
 "variants": {"semi-ident": ["-DV_WANT=TSEMICOLON", "-DV_KIND=TIDENT", "-DV_LONG=0"], "ident-other": ["-DV_WANT=TIDENT", "-DV_KIND=TOTHER", "-DV_LONG=0"], "newline-longstring": ["-DV_WANT=TNEWLINE", "-DV_KIND=TSTRINGLIT", "-DV_LONG=1"], "rparen-eof": ["-DV_WANT=TRPAREN", "-DV_KIND=TEOF", "-DV_LONG=0"], "match": ["-DV_WANT=TIDENT", "-DV_KIND=TIDENT", "-DV_LONG=0"]},
 "kind": "bounded", "unwind": 76, "unwindset": ["v_stream_put.0:201", "starts_with.0:41"], "unwind_failure": "violation",
 "bound": "five (expected kind, current kind) pairs fixed per variant; token spellings of 3 symbolic characters or of exactly 70 characters (4 symbolic) (longer than the 64-byte description buffers); file name \"f.c\"; line 100..999, column 10..99 (fixed digit counts keep the text positions constant); message text fixed",
 "stubs": ["base.c"],
 "cbmc_flags": ["--drop-unused-functions"],
 "timeout": 300,
 "expects": ["assertion_verif"],
 "assumes": ["fprintf/vfprintf/snprintf/putc/exit are the ISO C 7.21.6 model of out_model.h (text goes to a ghost stderr buffer; snprintf's size argument is checked against the object it writes to)",
             "the expected kind is one the call sites pass (identifier, number, string literal, new-line, keyword or punctuator kinds); the current token is any kind, with a spelling iff the scanner collects one for that kind (SCAN.scan.single)",
             "harness mode"]
}
*/
#include "token_common.h"

static struct token g_tok;
static int g_want;
static char g_prefix[64];
static size_t g_prefixn;

/* C11 (property statement): "Every diagnostic starts with file:line:col: error:" naming the location of the token;
   C19: "exits only 0, 1 or 2": a diagnosed error is status 1 */
void
at_exit_check(int status)
{
	__CPROVER_assert(status == 1, "C19: a diagnosed error ends the compiler with status 1");
	__CPROVER_assert(g_tok.kind != g_want, "a diagnostic is produced only when the token is not the expected one");
	__CPROVER_assert(g_outn == 0, "nothing goes to stdout");
	__CPROVER_assert(g_errn > g_prefixn && g_errn < OUT_CAP, "the message fits one line of bounded length (64-byte descriptions)");
	__CPROVER_assert(starts_with(g_err, 0, g_prefix), "C11: the diagnostic starts with file:line:col: error: of the offending token");
	__CPROVER_assert(g_err[g_errn - 1] == '\n' && g_err[g_errn - 2] != '\n', "the diagnostic is one complete line");
	/* it names the expected token: keyword/punctuator spelling in quotes, or the class name */
	if (g_want >= TALIGNAS)
		__CPROVER_assert(g_err[g_prefixn + 9] == '\'' && starts_with(g_err, g_prefixn + 10, tokstr[g_want]), "the diagnostic names the expected token");
	if (g_want == TIDENT)
		__CPROVER_assert(starts_with(g_err, g_prefixn + 9, "identifier "), "the diagnostic names the expected token class");
#ifdef VERIF_CANARY
	__CPROVER_assert(!(g_errn != 0 && g_tok.loc.line == 123), "CANARY");
#endif
}

void
harness(void)
{
	IN(int, in_kind);
	IN(int, in_want);
	IN(u64, in_chars);
	IN(size_t, in_len);
	IN(bool, in_long);
	IN(size_t, in_line);
	IN(size_t, in_col);
	char *r;

	__CPROVER_assume(in_kind == V_KIND && in_want == V_WANT && in_long == V_LONG);
	in_kind = V_KIND; in_want = V_WANT; in_long = V_LONG;       /* constants for the symbolic execution */
	__CPROVER_assume(in_len == 3 && in_line >= 100 && in_line < 1000 && in_col >= 10 && in_col < 100);
	in_len = 3;
	g_tok.kind = in_kind;
	g_tok.lit = spelled(in_kind) ? mk_spelling(in_chars, in_long ? LITCAP : in_len) : 0;
	__CPROVER_assume(in_kind != TOTHER || g_tok.lit[0] != 0);      /* a stray character token spells that character */
	g_tok.loc.file = "f.c"; g_tok.loc.line = in_line; g_tok.loc.col = in_col;
	g_tok.space = false; g_tok.hide = false;
	g_want = in_want;
	g_errn = g_outn = 0; g_exited = 0; g_snprintf_calls = 0; g_err[0] = 0;
	g_prefixn = (size_t)v_snprintf(g_prefix, sizeof(g_prefix), "%s:%zu:%zu: error: ", "f.c", in_line, in_col);
	g_snprintf_calls = 0;

	r = tokencheck(&g_tok, in_want, "after X");

	__CPROVER_assert(g_tok.kind == in_want, "tokencheck() returns only when the token has the expected kind");
	__CPROVER_assert(r == g_tok.lit, "... and returns its spelling");
	__CPROVER_assert(g_errn == 0 && g_outn == 0 && g_snprintf_calls == 0, "... silently");
#if defined(VERIF_CANARY)
	__CPROVER_assert(in_col != 77, "CANARY");
#endif
}
