/*
 * scanseq_common.h -- SCAN.scan.single / SCAN.scan.pop: the REAL scan(), scanfrom(), scanopen(), scanclose(), bufget(),
 * bufadd() between stand-ins (CONVENTIONS section 8): scankind() is a token SCRIPT (what it may do to the scanner is
 * taken from its contract in SCAN.loc / SCAN.ident: it stores the scanner location in *loc, may set s->sawspace, may
 * set s->usebuf and append a spelling with bufadd, returns the kind); nextchar() (called by scanopen() to prime a
 * freshly opened file) is a counter.  The scanner stack is built the way main() builds it:
 *     scanfrom(argv[argc], NULL) for the files last to first, then scanopen().
 *
 * V_FILES = 1: one input file.   V_FILES = 2: `cproc-qbe a.c b.c` -- at the end of a.c scan() must go on with b.c.
 *
 * What is checked for every scan(&t) call (script of 4 calls, kinds and flags symbolic):
 *   t.kind   the kind scankind returned, except that the end of a file that is not the last one is not a token
 *   t.loc    what scankind stored for that token (C11), file name of the file it came from
 *   t.space  true iff white space or a comment preceded the token IN THIS CALL (6.10.3p? "space" is per token:
 *            nothing left over from the previous token or from the previous file)
 *   t.lit    a NUL-terminated copy of the collected spelling in storage of its own (an earlier token's text stays
 *            intact), NULL when no spelling was collected;  t.hide false
 *   the scanner is left ready for the next token (usebuf false, buffer empty)
 *   C19: the end of the LAST file is delivered as TEOF on every later call and nothing is read after it; no access
 *        to a scanner object after scanclose() has freed it; every value copied into the token is initialised.
 */
#define GS_LMAX 6
#define GS_KMAX 1
#define GS_NO_TABLES
#define GS_ABS_ONLY
#include "../scan/scan_common.h"

extern int g_no_error;

#define NCALL 4
#define NSTEP 5     /* 4 calls, one file end crossed */
struct step { int kind; bool space; int nlit; unsigned char c0, c1; size_t line, col; };
static struct step script[NSTEP];
static unsigned g_sk_calls, g_nextchar_calls, g_eof_reads;
static struct scanner *g_sk_last;
static bool g_cur_eof[2];        /* file i has delivered its end */
static struct scanner *g_file_s[2];
static const char *const g_names[2] = {"a.c", "b.c"};

static int
which_file(struct scanner *s)
{
	return s == g_file_s[0] ? 0 : 1;
}

/* scankind stand-in: call number g_sk_calls of the run; at the end of a file it keeps answering TEOF */
int
stub_scankind(struct scanner *s, struct location *loc)
{
	struct step *st;
	int f;

	__CPROVER_assert(s == g_file_s[0] || s == g_file_s[1], "scankind is called on a live scanner of the stack");
	f = which_file(s);
	*loc = s->loc;
	g_sk_last = s;
	if (g_cur_eof[f]) {
		++g_eof_reads;
		return TEOF;
	}
	__CPROVER_assert(g_sk_calls < NSTEP, "script long enough");
	st = &script[g_sk_calls++];
	loc->line = st->line;
	loc->col = st->col;
	if (st->space)
		s->sawspace = true;
	if (st->kind == TEOF) {
		g_cur_eof[f] = true;
		return TEOF;
	}
	if (st->nlit > 0) {
		s->usebuf = true;
		bufadd(&s->buf, st->c0);
		if (st->nlit > 1)
			bufadd(&s->buf, st->c1);
	}
	return st->kind;
}

void
stub_nextchar(struct scanner *s)
{
	++g_nextchar_calls;
	s->chr = 'x';
	++s->loc.col;
}

#define STEP_IN(i) \
	IN(int, in_kind##i); IN(bool, in_space##i); IN(int, in_nlit##i); IN(u8, in_a##i); IN(u8, in_b##i); \
	IN(size_t, in_line##i); IN(size_t, in_col##i); \
	__CPROVER_assume(in_kind##i == TEOF || in_kind##i == TIDENT || in_kind##i == TNUMBER || in_kind##i == TOTHER || \
	                 in_kind##i == TNEWLINE || in_kind##i == TADD); \
	__CPROVER_assume(in_nlit##i >= 0 && in_nlit##i <= 2 && in_a##i != 0 && in_b##i != 0); \
	/* scankind's contract: a spelling is collected exactly for identifiers, numbers, literals and stray characters */ \
	__CPROVER_assume((in_nlit##i > 0) == (in_kind##i == TIDENT || in_kind##i == TNUMBER || in_kind##i == TOTHER)); \
	script[i].kind = in_kind##i; script[i].space = in_space##i; script[i].nlit = in_nlit##i; \
	script[i].c0 = in_a##i; script[i].c1 = in_b##i; script[i].line = in_line##i; script[i].col = in_col##i

static struct token g_t[NCALL];
static unsigned g_pos;     /* next script step */
static int g_filei;        /* file the next token comes from */
static bool g_done;        /* the end of the last file has been delivered */

/* call number c of scan(), and what must come out of it */
static void
check_call(int c)
{
	struct token *t = &g_t[c];
	struct step *st;

	scan(t);
	if (g_done) {
		__CPROVER_assert(t->kind == TEOF && t->lit == 0, "C19: after the end of the last file every call delivers TEOF again");
		return;
	}
	/* the end of a file that is not the last one is not a token: the next file's first token follows */
	if (script[g_pos].kind == TEOF && g_filei < V_FILES - 1) {
		++g_pos;
		++g_filei;
	}
	st = &script[g_pos++];
	__CPROVER_assert(g_sk_calls == g_pos, "scankind() is called once per token (and once more per file end crossed)");
	__CPROVER_assert(t->kind == st->kind, "scan() delivers the kind scankind() determined");
	__CPROVER_assert(t->loc.line == st->line && t->loc.col == st->col, "C11: the token location is the one scankind() recorded for its first character");
	__CPROVER_assert(t->loc.file == g_names[g_filei], "C11: ... in the file the token comes from");
	__CPROVER_assert(t->space == st->space, "space: true iff white space or a comment preceded the token in this call (nothing inherited from the previous token or file)");
	__CPROVER_assert(t->hide == false, "a scanned token is eligible for macro expansion");
	__CPROVER_assert(!scanner->usebuf && scanner->buf.len == 0, "the scanner is ready for the next token (no spelling carried over)");
	if (st->kind == TEOF) {
		g_done = true;
		__CPROVER_assert(t->lit == 0, "TEOF carries no spelling");
		return;
	}
	if (st->nlit == 0) {
		__CPROVER_assert(t->lit == 0, "no spelling collected: lit is NULL");
	} else {
		__CPROVER_assert(t->lit != 0, "a collected spelling is handed over");
		__CPROVER_assume(t->lit != 0);
		__CPROVER_assert(t->lit[0] == (char)st->c0 && (st->nlit == 1 ? t->lit[1] == 0 : (t->lit[1] == (char)st->c1 && t->lit[2] == 0)),
		                 "lit is the NUL-terminated spelling");
	}
}

void
harness(void)
{
	STEP_IN(0);
	STEP_IN(1);
	STEP_IN(2);
	STEP_IN(3);
	STEP_IN(4);

#if V_FILES == 2
	/* shape fixed (the scanner pointer then stays a constant per call): a.c = one spelled token, b.c = one spelled token;
	   space flags, spellings and locations stay symbolic */
	script[0].kind = TIDENT; script[0].nlit = 1;
	script[1].kind = TEOF;   script[1].nlit = 0;
	script[2].kind = TNUMBER; script[2].nlit = 2;
	script[3].kind = TEOF;   script[3].nlit = 0;
#endif
	g_no_error = 1;
	g_pos = 0; g_filei = 0; g_done = false;
	g_sk_calls = 0; g_nextchar_calls = 0; g_eof_reads = 0;
	g_cur_eof[0] = g_cur_eof[1] = false;
	ghost_in_reset(0);
	/* main(): while (argc--) scanfrom(argv[argc], NULL); scanopen(); */
	scanner = 0;
#if V_FILES == 2
	scanfrom(g_names[1], 0);
	g_file_s[1] = scanner;
#endif
	scanfrom(g_names[0], 0);
	g_file_s[0] = scanner;
#if V_FILES == 1
	g_file_s[1] = 0;
#endif
	scanopen();
	__CPROVER_assert(g_nextchar_calls == 1 && scanner->file == ghost_file(), "scanopen() opens and primes the first file");

	check_call(0);
	check_call(1);
#if V_FILES == 1
	check_call(2);
	check_call(3);
#endif
	/* (two files: only the call before and the call across the file boundary -- dynamic objects are not constant-
	   propagated, every further call doubles the candidate scanner objects: 0.5 M -> 2.7 M -> 9 M variables) */

	/* an earlier token's text is not clobbered by later calls (bufget hands out a copy) */
	if (script[0].kind != TEOF && script[0].nlit > 0 && g_t[0].lit != 0)
		__CPROVER_assert(g_t[0].lit[0] == (char)script[0].c0, "an earlier token's spelling stays intact");
	/* C19: after the end of the last file nothing more is opened or primed */
	__CPROVER_assert(g_nextchar_calls <= V_FILES, "each file is primed once: no read after the end of the last file");
#ifdef VERIF_CANARY
	__CPROVER_assert(!(script[0].kind == TIDENT && script[1].kind == TEOF && script[2].kind == TNUMBER && script[2].space && !script[0].space && script[3].kind == TEOF), "CANARY");
#endif
}
