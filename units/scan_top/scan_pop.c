/* UNIT
{
 "id": "SCAN.scan.pop",
 "file": "scan.c", "function": "scan", "also_functions": ["scanfrom", "scanopen", "scanclose", "bufget", "bufadd"],
 "properties": {"C13": "contract", "C11": "contract", "C12": "contract", "C19": "safety"},
 "mode": "harness",
 "replace_calls": {"scankind": "stub_scankind", "nextchar": "stub_nextchar"},
 "kind": "bounded", "unwind": 3, "unwind_failure": "violation",
 "bound": "two input files (cproc-qbe a.c b.c), the scanner stack built by the real scanfrom() as main() does; a.c holds one identifier, b.c one number (kinds fixed; space flags, spellings, locations symbolic); 2 scan() calls: the token of a.c, then the call that crosses the file boundary and delivers the token of b.c",
 "unwindset": ["scan.0:3", "memcpy.0:4"],
 "cflags": ["-DV_FILES=2", "-DG_IN_MAX=40"],
 "stubs": ["base.c", "ghost_stdio.c"],
 "cbmc_flags": ["--drop-unused-functions"],
 "timeout": 200,
 "expects": ["assertion_verif"],
 "assumes": ["scankind() is a token-script stand-in that behaves as its contract (SCAN.loc, SCAN.ident, SCAN.number, SCAN.stringlit.text) allows: stores *loc, may set sawspace/usebuf, appends the spelling with the real bufadd()",
             "nextchar() (priming read of scanopen()) is a counter; fopen is the ghost stream's",
             "xmalloc/xreallocarray do not fail (stubs/base.c)",
             "EXPECTED TO FAIL on the pinned tree (two findings): scan() reads scanner->next after scanclose() has freed the scanner (use after free at every file boundary), and scanfrom() never initialises sawspace, so the first token of the second file gets an indeterminate space flag",
             "harness mode"]
}
*/
#include "scanseq_common.h"
