/* UNIT
{
 "id": "TOKEN.tokenprint",
 "file": "token.c", "function": "tokenprint",
 "properties": {"C12": "contract", "C13": "contract", "C19": "safety"},
 "mode": "harness", "noreturn_macros": false, "replay": false,
 "variants": {"ident": ["-DV_KIND=TIDENT"], "string": ["-DV_KIND=TSTRINGLIT"], "punct": ["-DV_KIND=TSHLASSIGN"], "keyword": ["-DV_KIND=TWHILE"],
              "newline": ["-DV_KIND=TNEWLINE"], "eof": ["-DV_KIND=TEOF"]},
 "kind": "bounded", "unwind": 20, "unwind_failure": "violation",
 "bound": "one token per variant kind; spellings of 3 symbolic characters; space flag symbolic",
 "cflags": ["-DLITCAP=8"],
 "stubs": ["base.c"],
 "cbmc_flags": ["--drop-unused-functions"],
 "timeout": 200,
 "expects": ["assertion_verif"],
 "assumes": ["fputc/fputs are the output model of out_model.h (ghost stdout text)",
             "stray-character tokens are TOKEN.tokenprint.other's (finding): a stray character (TOTHER, C11 6.4p1 'each non-white-space character that cannot be one of the above' IS a preprocessing token) cannot be printed by -E: tokenprint() has no case for it, tokstr[TOTHER] is NULL -> fatal('cannot print token 3'), exit status 1",
             "harness mode"]
}
*/
#include "token_common.h"

void at_exit_check(int status) { (void)status; }

void
harness(void)
{
	static struct token t;
	IN(u64, in_chars);
	IN(bool, in_space);
	size_t at;

	t.kind = V_KIND;
	t.lit = spelled(V_KIND) ? mk_spelling(in_chars, 3) : 0;
	__CPROVER_assume(t.lit == 0 || t.lit[0] != ' ');
	t.space = in_space; t.hide = false;
	t.loc.file = "f.c"; t.loc.line = 1; t.loc.col = 1;
	__CPROVER_assume(stdout != stderr);     /* two distinct streams (extern objects of the C library) */
	g_errn = g_outn = 0; g_out[0] = 0;
	/* every token kind the scanner can deliver is printable text for -E (5.1.1.2 phases 1-4 output): reaching fatal() is a failed obligation */
	g_no_error = 1;

	tokenprint(&t);

	at = in_space ? 1 : 0;
	__CPROVER_assert(g_errn == 0, "printing a token writes nothing to stderr");
	/* C12/C13: the -E text separates two tokens by a space iff white space separated them in the source (6.10.3.2p2
	   stringizing and token boundaries depend on it) */
	__CPROVER_assert(IMP(in_space, g_outn >= 1 && g_out[0] == ' '), "a token preceded by white space is printed after one space");
	if (V_KIND == TEOF) {
		__CPROVER_assert(g_outn == at, "the end of file prints nothing more");
	} else if (V_KIND == TNEWLINE) {
		__CPROVER_assert(g_outn == at + 1 && g_out[at] == '\n', "a new-line token is printed as a new-line");
	} else if (spelled(V_KIND)) {
		__CPROVER_assert(g_outn == at + 3 && g_out[at] == t.lit[0] && g_out[at + 1] == t.lit[1] && g_out[at + 2] == t.lit[2],
		                 "identifiers, numbers, literals and stray characters are printed verbatim");
	} else {
		__CPROVER_assert(g_outn == at + strlen(tokstr[V_KIND]) && starts_with(g_out, at, tokstr[V_KIND]), "keywords and punctuators are printed by their spelling");
	}
	__CPROVER_assert(IMP(!in_space, g_outn == 0 || g_out[0] != ' '), "no space is invented in front of a token");
#ifdef VERIF_CANARY
	__CPROVER_assert(!in_space, "CANARY");
#endif
}
