/* UNIT
{
 "id": "SCAN.scan.single",
 "file": "scan.c", "function": "scan", "also_functions": ["scanfrom", "scanopen", "bufget", "bufadd"],
 "properties": {"C13": "contract", "C11": "contract", "C12": "contract", "C19": "safety"},
 "mode": "harness",
 "replace_calls": {"scankind": "stub_scankind", "nextchar": "stub_nextchar"},
 "kind": "proof-const-unwind", "unwind": 3, "unwind_failure": "violation",
 "bound": "one input file; 4 successive scan() calls over a symbolic script of 5 scankind() results (kinds EOF/identifier/number/other/new-line/punctuator, space flag, spelling of 0-2 bytes, location all symbolic); scan()'s own loop runs at most twice per call",
 "unwindset": ["scan.0:3", "memcpy.0:4"],
 "cflags": ["-DV_FILES=1", "-DG_IN_MAX=40"],
 "stubs": ["base.c", "ghost_stdio.c"],
 "cbmc_flags": ["--drop-unused-functions"],
 "timeout": 200,
 "expects": ["assertion_verif"],
 "assumes": ["scankind() is a token-script stand-in that behaves as its contract (SCAN.loc, SCAN.ident, SCAN.number, SCAN.stringlit.text) allows: stores *loc, may set sawspace/usebuf, appends the spelling with the real bufadd()",
             "nextchar() (priming read of scanopen()) is a counter; fopen is the ghost stream's",
             "xmalloc/xreallocarray do not fail (stubs/base.c)",
             "harness mode"]
}
*/
#include "scanseq_common.h"
