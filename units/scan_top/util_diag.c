/* UNIT
{
 "id": "UTIL.diag",
 "file": "util.c", "function": "fatal", "also_functions": ["vwarn", "warn", "progname"],
 "properties": {"C11": "contract", "C19": "all"},
 "mode": "harness", "noreturn_macros": false, "replay": false,
 "variants": {"warn.plain": ["-DV_FATAL=0", "-DV_HASARG=0", "-DV_COLON=0", "-DV_WN=3"], "warn.arg.colon": ["-DV_FATAL=0", "-DV_HASARG=1", "-DV_COLON=1", "-DV_WN=2"], "fatal.plain": ["-DV_FATAL=1", "-DV_HASARG=0", "-DV_COLON=0", "-DV_WN=1"], "fatal.arg": ["-DV_FATAL=1", "-DV_HASARG=1", "-DV_COLON=0", "-DV_WN=3"], "fatal.colon": ["-DV_FATAL=1", "-DV_HASARG=0", "-DV_COLON=1", "-DV_WN=2"]},
 "canary_variant": "warn.arg.colon",
 "kind": "bounded", "unwind": 12, "unwindset": ["v_stream_put.0:41", "starts_with.0:41", "strlen.0:12", "strrchr.0:12"], "unwind_failure": "violation",
 "bound": "messages `<word>`, `<word> %s` and their `:`-terminated forms, word and argument of 1..3 symbolic characters; program names `x`, `d/x`",
 "stubs": ["base.c"],
 "cbmc_flags": ["--drop-unused-functions"],
 "timeout": 300,
 "expects": ["assertion_verif"],
 "assumes": ["fprintf/vfprintf/fputc/perror/exit are the ISO C 7.21.6 model of out_model.h (text goes to a ghost stderr buffer; perror writes `<strerror>` and a new-line)", "harness mode"]
}
*/
/*
 * util.c's diagnostic channel, used by main.c/qbe.c/driver.c for everything that is not tied to a source location:
 * the line is `<program name>: <formatted message>` and ends with a new-line; a format ending in ':' gets a blank and the
 * system error text (perror) before the new-line.  fatal() then ends the process with status 1 (C19: "exits only 0, 1 or 2";
 * 1 is "diagnosed error"), warn() returns.  Nothing goes to stdout (the IL stream, C03).
 * progname(arg, def): the last path component of argv[0], or the default when argv[0] is absent.
 */
#include <assert.h>
#include <errno.h>
#include <stdarg.h>
#include <stdbool.h>
#include <stdint.h>
#include <stdio.h>
#include <stdlib.h>
#include <string.h>
#define OUT_CAP 40
#include "out_model.h"
#include "util.c"
#include "verif.h"

extern int g_no_error;
static char g_word[4], g_arg[4]; static bool g_colon, g_hasarg; static size_t g_wn, g_an;

static bool
starts_with(const char *text, size_t at, const char *s)
{
	size_t i;
	for (i = 0; i < 40 && s[i]; i++)
		if (at + i >= OUT_CAP || text[at + i] != s[i])
			return false;
	return true;
}

static void
check_text(void)
{
	size_t at = 0;
	__CPROVER_assert(g_outn == 0, "nothing goes to stdout");
	__CPROVER_assert(starts_with(g_err, 0, "x: "), "the line starts with the program name, a colon and a blank");
	at = 3;
	__CPROVER_assert(starts_with(g_err, at, g_word), "then the message text"); at += g_wn;
	if (g_hasarg) { __CPROVER_assert(g_err[at] == ' ' && starts_with(g_err, at + 1, g_arg), "with its arguments formatted in"); at += 1 + g_an; }
	if (g_colon) { __CPROVER_assert(starts_with(g_err, at, ": <strerror>\n"), "a format ending in ':' is followed by a blank and the system error text"); at += 13; }
	else { __CPROVER_assert(g_err[at] == '\n', "otherwise the line ends here"); at += 1; }
	__CPROVER_assert(g_errn == at, "and nothing follows the new-line");
}

void
at_exit_check(int status)
{
	__CPROVER_assert(V_FATAL, "warn() does not end the process");
	__CPROVER_assert(status == 1, "fatal() ends the process with status 1");
	check_text();
}

void
harness(void)
{
	static char fmt[16], prog[] = "d/x";
	IN(u64, in_w); IN(u64, in_a); IN(bool, in_path);
	size_t in_wn = V_WN, in_an = 2; bool in_colon = V_COLON, in_hasarg = V_HASARG;     /* the SHAPE of the message is fixed per run; its characters are symbolic */
	size_t i, n = 0;

	for (i = 0; i < 3; i++) {
		char c = (char)(in_w >> (8 * i)), d = (char)(in_a >> (8 * i));
		__CPROVER_assume(c >= 'a' && c <= 'z' && d >= 'a' && d <= 'z');
		g_word[i] = i < in_wn ? c : 0; g_arg[i] = i < in_an ? d : 0;
	}
	g_word[3] = g_arg[3] = 0; g_wn = in_wn; g_an = in_an; g_colon = in_colon; g_hasarg = in_hasarg;
	fmt[0] = g_word[0];
#if V_WN >= 2
	fmt[1] = g_word[1];
#endif
#if V_WN >= 3
	fmt[2] = g_word[2];
#endif
	n = V_WN;
#if V_HASARG
	fmt[V_WN] = ' '; fmt[V_WN + 1] = '%'; fmt[V_WN + 2] = 's'; n = V_WN + 3;
#endif
#if V_COLON
	fmt[V_WN + 3 * V_HASARG] = ':'; n = V_WN + 3 * V_HASARG + 1;
#endif
	fmt[V_WN + 3 * V_HASARG + V_COLON] = 0; (void)n;
	g_errn = g_outn = 0; g_exited = 0;

	argv0 = progname(in_path ? prog : prog + 2, "cproc");
	__CPROVER_assert(argv0[0] == 'x' && argv0[1] == 0, "the program name is the last path component of argv[0]");
	__CPROVER_assert(progname((char *)0, "cproc")[0] == 'c', "or the default when argv[0] is absent");
#if V_FATAL
	if (in_hasarg) fatal(fmt, g_arg); else fatal(fmt);
	__CPROVER_assert(0, "fatal() does not return");
#else
	if (in_hasarg) warn(fmt, g_arg); else warn(fmt);
	__CPROVER_assert(!g_exited, "warn() returns");
	check_text();
#endif
#ifdef VERIF_CANARY
	__CPROVER_assert(0, "CANARY");
#endif
}
