/* UNIT
{
 "id": "SCAN.charconst.text",
 "file": "scan.c", "function": "charconst", "also_functions": ["escape", "bufadd"],
 "properties": {"C13": "contract", "C14": "contract", "C11": "contract", "C19": "safety"},
 "mode": "harness", "noreturn_macros": false,
 "replace_calls": {"nextchar": "nextchar_abs"},
 "kind": "bounded", "unwind": 9, "unwind_failure": "violation",
 "bound": "files of at most 6 logical characters (all byte values) from the opening quote on, each preceded by 0 or 1 backslash-newline pair; encoding prefix of 0, 1 or 2 characters already collected; literal loop unwound 7 times, hexadecimal-digit loop of escape() 4 times (more cannot happen inside the window: unwinding assertions); line and column of the opening quote < 65536",
 "unwindset": ["charconst.0:7", "escape.0:4", "lit_setup.0:12", "strchr.0:14", "gs_build.0:50", "gs_build.1:50", "gs_build.2:50", "gs_abs_tables.0:14"],
 "cflags": ["-DG_IN_MAX=40", "-DVERIF_OWN_XMALLOC"],
 "stubs": ["base.c", "ghost_stdio.c"],
 "cbmc_flags": ["--drop-unused-functions"],
 "timeout": 300,
 "expects": ["assertion_verif"],
 "assumes": ["nextchar is taken by its logical stand-in nextchar_abs (SCAN.nextchar + SCAN.nextchar.abs prove the real one refines it)",
             "error() does not return; its call is routed to rec_error(), which checks the location argument (C11) first",
             "entry state as scankind() hands over (SCAN.ident): scanner on the opening quote, prefix collected",
             "the spelling buffer is an allocated buffer of 16 bytes > prefix + window (real initial capacity: 256; bufadd depends only on len < cap); growth is asserted unreachable (growth itself: SCAN.bufadd)",
             "inputs with a backslash followed by a NUL byte (SCAN.escape.nul) or containing a universal character name (SCAN.escape.ucn) are excluded here: findings stated in those units",
             "the LOCATION of the diagnostic for a new-line inside the literal is SCAN.stringlit.nlloc's (finding); that it is diagnosed is stated here",
             "an EMPTY character constant '' is returned as a token here: 6.4.4.4 requires a c-char-sequence, but C11 6.4p3 makes the unmatched quote undefined at the preprocessing-token level; the constraint is diagnosed in translation phase 7 (expr.c:primaryexpr, confirmed on the binary: status 1)",
             "harness mode; frame stated by POST clauses"]
}
*/
#define LIT_FN charconst
#define LIT_Q '\''
#define LIT_KIND TCHARCONST
#define LIT_SELECT (!g_lit.has_ucn)
/* u8'\'\\'  with a splice in front of the closing quote */
#define LIT_CANARY (g_L[1] == '\\' && g_L[2] == '\'' && g_L[3] == '\\' && g_L[4] == '\\' && g_L[5] == '\'' && g_k[5] == 1 && g_P == 2)
#include "lit_common.h"

void
harness(void)
{
	struct scanner *s;
	IN(u64, in_c0);
	IN(u64, in_c1);
	IN(size_t, in_m);
	IN(u64, in_splices);
	IN(size_t, in_line);
	IN(size_t, in_col);
	IN(bool, in_saw);
	IN(size_t, in_pfx);
	ING(size_t, g_j);

	__CPROVER_assume(in_m <= GS_LMAX && g_j < GS_LMAX && in_pfx <= 2);
	__CPROVER_assume(in_line < 65536 && in_col >= 1 && in_col < 65536);
	s = lit_setup(in_c0, in_c1, in_m, in_splices, in_line, in_col, in_saw, in_pfx);
	__CPROVER_assume(gs_canonical());
	/* a literal that C11 6.4.4.4 defines must not be diagnosed; anything else must be (first POST clause) */
	g_no_error = !g_lit.bad;
	HCALLR(int, PRE, POST, LIT_FN(s));
}
