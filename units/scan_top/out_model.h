/*
 * out_model.h -- model of the ISO C 7.21.6 formatted-output functions as far as token.c / util.c use them, writing to
 * ghost text buffers, so that the TEXT of a diagnostic and the exit status become observable (C11, C19) and every
 * snprintf() call is checked against the size of the object it writes to (C19 "bounded formatting").
 * Nothing here is cproc code.  Include AFTER the system headers and BEFORE the real translation unit.
 *
 *   fprintf/vfprintf/fputc/putc/fputs/perror   append to g_err (stream stderr) or g_out (stdout)
 *   snprintf(buf, len, ...)  7.21.6.5: writes at most len-1 characters and a NUL; ASSERTS that buf has room for len bytes
 *   exit(status)             records the status, runs at_exit_check(), ends the path
 * Conversions modelled: %s %d %zu %04x %c %% (all that token.c's and util.c's format strings use); anything else is
 * a failed obligation.  A %s argument must be a non-null pointer (7.21.6.1p8).
 */
#ifndef OUT_MODEL_H
#define OUT_MODEL_H

#include <stdarg.h>
#include <stdio.h>
#include <stdlib.h>
#include <string.h>
#include <stddef.h>

#ifndef OUT_X_ARG
#define OUT_X_ARG(ap) va_arg(ap, unsigned)
#endif
#ifndef OUT_CAP
#define OUT_CAP 256
#endif
char g_err[OUT_CAP], g_out[OUT_CAP];
size_t g_errn, g_outn;          /* characters written so far (text beyond OUT_CAP-1 is dropped, the count goes on) */
int g_exited, g_exit_status;
unsigned g_snprintf_calls;

void at_exit_check(int status);  /* provided by the unit: clauses evaluated when exit() is reached */
void verif_noreturn(void);

#pragma CPROVER check push
#pragma CPROVER check disable "signed-overflow"
#pragma CPROVER check disable "unsigned-overflow"
#pragma CPROVER check disable "conversion"
#pragma CPROVER check disable "pointer-overflow"

/* 7.21.6.1: format into dst[0..cap) (at most cap-1 characters and a NUL); returns the number of characters the
   complete conversion has */
static size_t
v_format(char *dst, size_t cap, const char *fmt, va_list ap)
{
	size_t n = 0;
	char tmp[24];
	int k;

#define V_PUT(ch) do { if (n + 1 < cap) dst[n] = (ch); ++n; } while (0)
	__CPROVER_assert(fmt != 0, "format string is not null");
	for (; *fmt; ++fmt) {
		if (*fmt != '%') {
			V_PUT(*fmt);
			continue;
		}
		++fmt;
		if (*fmt == '%') {
			V_PUT('%');
		} else if (*fmt == 's') {
			const char *a = va_arg(ap, const char *);

			__CPROVER_assert(a != 0, "7.21.6.1p8: the argument of %s is a pointer to a string, not null");
			__CPROVER_assume(a != 0);
			for (; *a; ++a)
				V_PUT(*a);
		} else if (*fmt == 'c') {
			int c = va_arg(ap, int);

			V_PUT((char)c);
		} else if (*fmt == 'd' || (*fmt == 'z' && fmt[1] == 'u')) {
			unsigned long long v;

			if (*fmt == 'd') {
				int d = va_arg(ap, int);

				if (d < 0) {
					V_PUT('-');
					v = -(unsigned long long)d;
				} else {
					v = d;
				}
			} else {
				v = va_arg(ap, size_t);
				++fmt;
			}
			k = 0;
			do {
				tmp[k++] = '0' + (char)(v % 10);
				v /= 10;
			} while (v && k < 20);
			while (k > 0)
				V_PUT(tmp[--k]);
		} else if (fmt[0] == '0' && fmt[1] == '4' && fmt[2] == 'x') {
#ifdef VERIF_REPLAY
			unsigned v = va_arg(ap, unsigned);
#else
			/* CBMC 6.11 stores a variadic argument with its unpromoted type: token.c passes *(unsigned char *)lit */
			unsigned v = OUT_X_ARG(ap);
#endif

			fmt += 2;
			k = 0;
			do {
				tmp[k++] = "0123456789abcdef"[v & 15];
				v >>= 4;
			} while ((v || k < 4) && k < 8);
			while (k > 0)
				V_PUT(tmp[--k]);
		} else {
			__CPROVER_assert(0, "output model: conversion specification not modelled");
		}
	}
	if (cap > 0)
		dst[n < cap ? n : cap - 1] = 0;
	return n;
#undef V_PUT
}

static void
v_stream_put(FILE *f, const char *text, size_t n)
{
	size_t i;
	char *buf;
	size_t *pn;

	__CPROVER_assert(f == stderr || f == stdout, "output goes to stderr or stdout");
	buf = f == stderr ? g_err : g_out;
	pn = f == stderr ? &g_errn : &g_outn;
	for (i = 0; i < n; i++) {
		if (*pn + 1 < OUT_CAP) {
			buf[*pn] = text[i];
			buf[*pn + 1] = 0;
		}
		++*pn;
	}
}

static int
v_vfprintf(FILE *f, const char *fmt, va_list ap)
{
	char line[OUT_CAP];
	size_t n = v_format(line, sizeof(line), fmt, ap);

	v_stream_put(f, line, n < sizeof(line) ? n : sizeof(line) - 1);
	return (int)n;
}

static int
v_fprintf(FILE *f, const char *fmt, ...)
{
	va_list ap;
	int r;

	va_start(ap, fmt);
	r = v_vfprintf(f, fmt, ap);
	va_end(ap);
	return r;
}

static int
v_snprintf(char *buf, size_t len, const char *fmt, ...)
{
	va_list ap;
	size_t n;

	++g_snprintf_calls;
	__CPROVER_assert(buf != 0 && len <= __CPROVER_OBJECT_SIZE(buf) - __CPROVER_POINTER_OFFSET(buf),
	                 "C19 bounded formatting: snprintf's size argument does not exceed the buffer it writes to");
	va_start(ap, fmt);
	n = v_format(buf, len, fmt, ap);
	va_end(ap);
	return (int)n;
}

static int v_fputc(int c, FILE *f) { char ch = (char)c; v_stream_put(f, &ch, 1); return (unsigned char)c; }
static int v_fputs(const char *s, FILE *f) { __CPROVER_assert(s != 0, "fputs: string is not null"); v_stream_put(f, s, strlen(s)); return 0; }
/* 7.21.10.4: perror(NULL) writes the error message string and a new-line */
static void v_perror(const char *s) { (void)s; v_stream_put(stderr, "<strerror>\n", 11); }

static void
v_exit(int status)
{
	g_exited = 1;
	g_exit_status = status;
	at_exit_check(status);
	__CPROVER_assume(0);
}

#pragma CPROVER check pop

#undef putc
#undef fputc
#define fprintf(...)      v_fprintf(__VA_ARGS__)
#define vfprintf(f, m, a) v_vfprintf(f, m, a)
#define snprintf(...)     v_snprintf(__VA_ARGS__)
#define fputc(c, f)       v_fputc(c, f)
#define putc(c, f)        v_fputc(c, f)
#define fputs(s, f)       v_fputs(s, f)
#define perror(s)         v_perror(s)
#define exit(st)          v_exit(st)

#endif
