/* UNIT
{
 "id": "DECL.stringdecl.key",
 "file": "decl.c", "function": "stringdecl", "also_functions": ["mkdecl"],
 "properties": {"C16": "contract", "C19": "safety"},
 "mode": "dfcc", "enforce": "stringdecl/stringdecl_contract",
 "replace_contracts": {"mapkey": "mapkey_contract"},
 "kind": "proof",
 "unwind": 12,
 "timeout": 120,
 "expects": ["postcondition", "precondition", "assertion_verif"],
 "assumes": ["the string pool (map.c) is taken by contract/stub: mapkey builds a key over (s, n); mapput returns the slot of the key, which holds NULL or the declaration stored earlier under a key with the same n bytes (that is MAP.putget.bnd's claim)",
             "qbe.c mkglobal/emitdata and init.c mkinit replaced by recording stubs",
             "element count <= 2^20, element width in {1,2,4} (char / char16_t / char32_t,wchar_t: what stringconcat produces)"]
}
*/
/*
 * C16 "distinct string literals never share storage contents".
 *
 * stringdecl() interns the datum of a string literal in a map keyed by the literal's bytes; two literals get the same
 * datum iff their keys are equal.  A literal is  expr->u.string.size  ELEMENTS (expr.c: e->type = mkarraytype(t,
 * QUALNONE, e->u.string.size)) of width expr->type->base->size bytes (stringconcat: 1, sizeof(uint_least16_t),
 * sizeof(uint_least32_t)), i.e. expr->type->size bytes of data, and exactly those bytes are emitted (qbe.c emitdata).
 * Hence the property requires: the key handed to the pool covers ALL  size * width  bytes - otherwise two literals
 * that differ only beyond the key share one datum.  That is the precondition of the pool operations below; it is
 * asserted at the real call sites inside stringdecl().
 */
#include "decl.c"
#include "verif.h"

/* ghosts */
struct expr *g_expr;
const void *g_data;           /* expr->u.string.data                                                   */
size_t g_nbytes;              /* number of bytes of the literal = element count * element width        */
struct decl *g_pooled;        /* what the pool holds for these bytes: NULL or the earlier declaration  */
void *g_slot;                 /* the pool slot mapput returns a pointer to                             */
unsigned g_emit_n, g_init_n, g_glob_n, g_put_n, g_mapinit_n;
struct decl *g_emit_d, *g_glob_d;
struct init *g_emit_init;
struct init g_init;
unsigned long long g_init_start, g_init_end;
struct expr *g_init_expr;
struct value *g_value;        /* what mkglobal returns (opaque)                                        */
static char t_valuemem[8];

/* ---- pool operations, by contract / asserting stub */
#define PRE_MAPKEY(X) \
	X(k != 0) \
	X(s == g_data) \
	/* C16: the key covers every byte of the literal */ \
	X(n == g_nbytes)
#define POST_MAPKEY(X) \
	X(k->str == s) \
	X(k->len == n)
void mapkey_contract(struct mapkey *k, const void *s, size_t n)
REQUIRES(PRE_MAPKEY)
__CPROVER_assigns(k->str, k->len, k->hash)
ENSURES(POST_MAPKEY);

void
mapinit(struct map *h, size_t cap)
{
	__CPROVER_assert(cap != 0 && (cap & (cap - 1)) == 0, "mapinit: capacity is a power of two (asserted by the real mapinit)");
	++g_mapinit_n;
	h->len = 0;
	h->cap = cap;
}

void **
mapput(struct map *h, struct mapkey *k)
{
	__CPROVER_assert(h != 0 && k != 0, "mapput: valid arguments");
	__CPROVER_assert(h->len != 0 || g_mapinit_n == 1, "mapput: the pool has been initialised");
	__CPROVER_assert(k->str == g_data, "mapput: the key is the literal's data");
	__CPROVER_assert(k->len == g_nbytes, "mapput: C16 the key covers every byte of the literal (size * element width)");
	++g_put_n;
	if (h->len == 0)
		h->len = 1;
	g_slot = g_pooled;
	return &g_slot;
}

/* ---- recording stubs for the back end */
struct value *
mkglobal(struct decl *d)
{
	++g_glob_n;
	g_glob_d = d;
	return g_value;
}

struct init *
mkinit(unsigned long long start, unsigned long long end, struct bitfield bits, struct expr *expr)
{
	++g_init_n;
	g_init_start = start; g_init_end = end; g_init_expr = expr;
	(void)bits;
	return &g_init;
}

void
emitdata(struct decl *d, struct init *init)
{
	++g_emit_n;
	g_emit_d = d; g_emit_init = init;
}

#define WIDTH (expr->type->base->size)
#define PRE(X) \
	X(expr != 0 && expr == g_expr) \
	/* both call sites (eval.c eval, qbe.c funcexpr) pass an EXPRSTRING built by expr.c primaryexpr */ \
	X(expr->kind == EXPRSTRING) \
	X(expr->type != 0 && expr->type->kind == TYPEARRAY && expr->type->base != 0) \
	X(WIDTH == 1 || WIDTH == 2 || WIDTH == 4) \
	X(expr->u.string.size >= 1 && expr->u.string.size <= (1u << 20)) \
	X(expr->type->size == expr->u.string.size * WIDTH) \
	X(expr->u.string.data != 0 && g_data == expr->u.string.data) \
	X(g_nbytes == expr->u.string.size * WIDTH) \
	X(g_emit_n == 0 && g_init_n == 0 && g_glob_n == 0 && g_put_n == 0 && g_mapinit_n == 0)

#define POST(X) \
	X(RET != 0) \
	/* the pool was consulted exactly once (with a key covering all bytes: preconditions above) */ \
	X(g_put_n == 1) \
	/* a byte-identical literal seen before: its datum is shared, nothing is emitted */ \
	X(IMP(g_pooled != 0, RET == g_pooled && g_emit_n == 0 && g_glob_n == 0)) \
	/* otherwise exactly one new datum, of the literal's type, covering the whole literal, registered in the pool */ \
	X(IMP(g_pooled == 0, g_emit_n == 1 && g_emit_d == RET && g_emit_init == &g_init)) \
	X(IMP(g_pooled == 0, g_init_n == 1 && g_init_start == 0 && g_init_end == g_nbytes && g_init_expr == g_expr)) \
	X(IMP(g_pooled == 0, RET->kind == DECLOBJECT && RET->type == g_expr->type && RET->linkage == LINKNONE && RET->qual == QUALNONE)) \
	X(IMP(g_pooled == 0, g_glob_n == 1 && g_glob_d == RET && RET->value == g_value)) \
	X(g_slot == RET) \
	CANARY(X, !(g_nbytes == 12 && g_pooled == 0))

struct decl *stringdecl_contract(struct expr *expr)
REQUIRES(PRE)
__CPROVER_assigns(g_emit_n, g_init_n, g_glob_n, g_put_n, g_mapinit_n, g_emit_d, g_glob_d, g_emit_init, g_init_start, g_init_end, g_init_expr, g_slot)
ENSURES(POST);

void
harness(void)
{
	static struct type t_arr, t_elem;
	static struct expr t_expr;
	static struct decl t_old;
	static char t_data[16];
	struct expr *expr = &t_expr;

	IN(size_t, in_size);        /* element count (including the terminating null element) */
	IN(unsigned, in_width);
	IN(bool, in_pooled);

	__CPROVER_assume(in_width == 1 || in_width == 2 || in_width == 4);
	__CPROVER_assume(in_size >= 1 && in_size <= (1u << 20));
	t_elem.kind = in_width == 1 ? TYPECHAR : in_width == 2 ? TYPESHORT : TYPEINT;
	t_elem.prop = PROPSCALAR|PROPARITH|PROPREAL|PROPINT;
	t_elem.size = in_width;
	t_elem.align = in_width;
	t_arr.kind = TYPEARRAY;
	t_arr.base = &t_elem;
	t_arr.align = in_width;
	t_arr.size = in_size * in_width;
	t_expr.kind = EXPRSTRING;
	t_expr.type = &t_arr;
	t_expr.u.string.size = in_size;
	t_expr.u.string.data = t_data;
	g_expr = expr;
	g_data = t_data;
	g_nbytes = in_size * in_width;
	g_pooled = in_pooled ? &t_old : 0;
	g_value = (struct value *)t_valuemem;
	CALLR(struct decl *, PRE, POST, stringdecl(expr));
}
