/*
 * Shared by the ATTR.parseattr.* units: attr.c:parseattr() run for real on a scripted token stream.
 * Outside the claim, replaced by stubs:
 *   next()          pp.c: tok := next script entry (kind + spelling); at the end of the script, and after TEOF, the
 *                   token stays TEOF forever, as the real scanner does at end of input
 *   consume()/expect()   pp.c: re-stated on top of next() (expect() diagnoses a mismatch)
 *   intconstexpr()  expr.c: returns the ghost g_val (the value of the alignment constant expression), consumes nothing;
 *                   the script does not contain the expression's tokens
 */
#include "attr.c"
#include "verif.h"

extern int g_no_error;

#define NSCRIPT 10
struct { int kind; char *lit; } g_script[NSCRIPT];
unsigned g_len;              /* script length */
unsigned g_pos;              /* next script entry */
unsigned g_eof_next;         /* next() calls made while already at end of input */
unsigned long long g_val;
unsigned g_ice_n;

void
next(void)
{
	if (tok.kind == TEOF) {
		++g_eof_next;
		/* C19: a token-skipping loop must stop at end of input */
		__CPROVER_assert(g_eof_next < 3, "next() is called again and again at end of input: the loop does not terminate");
		__CPROVER_assume(g_eof_next < 3);
		return;
	}
	if (g_pos < g_len && g_pos < NSCRIPT) {
		tok.kind = g_script[g_pos].kind;
		tok.lit = g_script[g_pos].lit;
		++g_pos;
	} else {
		tok.kind = TEOF;
		tok.lit = 0;
	}
}

bool
consume(int kind)
{
	if (tok.kind != kind)
		return 0;
	next();
	return 1;
}

char *
expect(enum tokenkind kind, const char *msg)
{
	char *lit = tok.lit;

	(void)msg;
	if (tok.kind != kind)
		verif_noreturn();
	next();
	return lit;
}

unsigned long long
intconstexpr(struct scope *s, bool allowneg)
{
	(void)s; (void)allowneg;
	++g_ice_n;
	return g_val;
}
