/* UNIT
{
 "id": "ATTR.gnuattrspec.syntax",
 "file": "attr.c", "function": "gnuattrspec",
 "properties": {"C10": "contract"},
 "mode": "dfcc", "enforce": "gnuattrspec/gnuattrspec_contract",
 "replace_calls": {"parseattr": "stub_parseattr"},
 "kind": "bounded",
 "bound": "<= 7 tokens after the __attribute__ keyword, kinds symbolic",
 "unwind": 10,
 "replay": false,
 "timeout": 200,
 "expects": ["postcondition"],
 "assumes": ["FAILS on the pinned tree (genuine defect): gnuattrspec() runs an attribute-list loop BEFORE expecting '((': `struct __attribute__ packed,, (()) S { char c; int x; };` is accepted and packed is honoured (sizeof 5); gcc: expected '(' before 'packed'",
             "parseattr() replaced by a stub that consumes one identifier (its own behaviour: ATTR.parseattr); next/consume/expect stubs of parseattr_common.h",
             "no native replay: the replaced callee is static"]
}
*/
/*
 * C10 (malformed attribute syntax is diagnosed): GCC manual, "Attribute Syntax": an attribute specifier is of the form
 * `__attribute__ (( attribute-list ))`.  Normal return => the two tokens after the keyword are '(' '(' and the
 * specifier ends with ')' ')'.
 */
#define V_NAME "x"
#define V_KIND 0
#include "parseattr_common.h"

unsigned g_pa_n;
int g_tok0;

bool
stub_parseattr(struct attr *a, enum attrkind allowed, enum attrprefix prefix)
{
	(void)a; (void)allowed; (void)prefix;
	if (tok.kind != TIDENT)
		return 0;
	++g_pa_n;
	next();
	return 1;
}

#define PRE(X) \
	X(g_pos == 0 && g_eof_next == 0 && g_len <= 7 && g_len >= 1 && g_pa_n == 0 && g_tok0 == (int)tok.kind) \
	X(g_script[g_len - 1].kind == TSEMICOLON)

#define POST(X) \
	X(RET == (g_tok0 == T__ATTRIBUTE__)) \
	X(IMP(g_tok0 != T__ATTRIBUTE__, g_pos == 0)) \
	X(IMP(g_tok0 == T__ATTRIBUTE__, g_script[0].kind == TLPAREN && g_script[1].kind == TLPAREN))       /* '((' directly after the keyword */ \
	X(IMP(g_tok0 == T__ATTRIBUTE__, g_pos >= 5 && g_script[g_pos - 2].kind == TRPAREN && g_script[g_pos - 3].kind == TRPAREN)) \
	CANARY(X, !(g_tok0 == T__ATTRIBUTE__ && g_len == 6 && g_pa_n == 1))

static bool gnuattrspec_contract(struct attr *a, enum attrkind allowed)
REQUIRES(PRE)
__CPROVER_assigns(tok, g_pos, g_eof_next, g_pa_n)
ENSURES(POST);

void
harness(void)
{
	IN(unsigned, in_n); IN(int, in_tok0); IN(int, in_t0); IN(int, in_t1); IN(int, in_t2); IN(int, in_t3); IN(int, in_t4); IN(int, in_t5); IN(int, in_t6);
	struct attr *a = 0;
	enum attrkind allowed = 0;
	int t[7] = {in_t0, in_t1, in_t2, in_t3, in_t4, in_t5, in_t6};
	unsigned k;

	__CPROVER_assume(in_n >= 1 && in_n <= 7);
	for (k = 0; k < 7; ++k) {
		__CPROVER_assume(t[k] == TLPAREN || t[k] == TRPAREN || t[k] == TIDENT || t[k] == TCOMMA || t[k] == TSEMICOLON);
		g_script[k].kind = t[k]; g_script[k].lit = 0;
	}
	g_script[7].kind = TEOF; g_script[8].kind = TEOF; g_script[9].kind = TEOF;
	g_len = in_n;
	__CPROVER_assume(t[in_n - 1] == TSEMICOLON);     /* the declaration goes on after the specifier */
	tok.kind = in_tok0; tok.lit = 0; g_tok0 = in_tok0;
	g_pos = 0; g_eof_next = 0; g_pa_n = 0; g_ice_n = 0;
	g_no_error = 0;
	CALLR(bool, PRE, POST, gnuattrspec(a, allowed));
}
