/* UNIT
{
 "id": "ATTR.parseattr",
 "file": "attr.c", "function": "parseattr", "also_functions": ["strip"],
 "properties": {"C06": "contract", "C10": "contract", "C19": "safety"},
 "mode": "dfcc", "enforce": "parseattr/parseattr_contract",
 "kind": "proof-const-unwind",
 "variants": {"aligned":       ["-DV_NAME=\"aligned\"",         "-DV_KIND=ATTRALIGNED"],
              "__aligned__":   ["-DV_NAME=\"__aligned__\"",     "-DV_KIND=ATTRALIGNED"],
              "packed":        ["-DV_NAME=\"packed\"",          "-DV_KIND=ATTRPACKED"],
              "__packed__":    ["-DV_NAME=\"__packed__\"",      "-DV_KIND=ATTRPACKED"],
              "constructor":   ["-DV_NAME=\"constructor\"",     "-DV_KIND=ATTRCONSTRUCTOR"],
              "destructor":    ["-DV_NAME=\"__destructor__\"",  "-DV_KIND=ATTRDESTRUCTOR"],
              "unknown":       ["-DV_NAME=\"noinline\"",        "-DV_KIND=0"],
              "almost":        ["-DV_NAME=\"__packed_\"",       "-DV_KIND=0"]},
 "canary_variant": "aligned",
 "unwind": 17,
 "timeout": 200,
 "expects": ["postcondition", "unwind"],
 "assumes": ["next()/consume()/expect()/intconstexpr() replaced by stubs over a scripted token stream (parseattr_common.h)",
             "the attribute name is one of 8 fixed spellings (one CBMC run each; strlen/strcmp loops are then constant-bounded): the four GNU attributes cproc knows, with and without the __x__ spelling, an unknown one, a near miss",
             "the argument list of an unknown attribute is at most 5 tokens (bounded) -- its EOF behaviour is ATTR.parseattr.eof"]
}
*/
/*
 * C06/C10: GNU attributes (GCC manual, "Common Variable/Type Attributes"): `aligned(n)`: n must be a power of two
 * (diagnosed otherwise, also 0 and > INT_MAX); without argument the "largest alignment ever used for any data type on
 * the target" = 16 on the three targets; `packed`; `constructor`/`destructor`; every spelling also as __name__.
 * An attribute cproc knows but does not support at this place is diagnosed, never silently dropped; the recorded set
 * is exactly old | this one.  A standard ([[name]], no gnu:: prefix) or unknown attribute changes nothing and its
 * balanced argument list is skipped exactly.
 */
#include "parseattr_common.h"

static char am_name[16], am_gnu[4];
int g_oldkind, g_oldalign, g_tok0;
bool g_gnu;                    /* GNU attribute: __attribute__((..)) or [[gnu::..]] */
bool g_hasarg;                 /* the name is followed by '(' */
unsigned g_argend;             /* script index just after the ')' matching that '(' (harness-computed for the fixed shapes) */

#define ISPOW2(x) ((x) != 0 && (((x) & ((x) - 1)) == 0))
#define KNOWN     (g_gnu && V_KIND != 0)
#define PRE(X) \
	X(g_pos == 0 && g_eof_next == 0 && g_ice_n == 0 && g_len <= NSCRIPT) \
	X(g_tok0 == (int)tok.kind) \
	X(IMP(a != 0, g_oldkind == (int)a->kind && g_oldalign == a->align)) \
	X(prefix == 0 || prefix == PREFIXGNU)

#define POST(X) \
	X(RET == (g_tok0 == TIDENT)) \
	X(IMP(g_tok0 != TIDENT, g_pos == 0 && IMP(a != 0, (int)a->kind == g_oldkind && a->align == g_oldalign))) \
	/* known GNU attribute: allowed here, or diagnosed */ \
	X(IMP(g_tok0 == TIDENT && KNOWN, (allowed & V_KIND) != 0)) \
	X(IMP(g_tok0 == TIDENT && KNOWN && a != 0, (int)a->kind == (g_oldkind | V_KIND))) \
	/* aligned(n) */ \
	X(IMP(g_tok0 == TIDENT && KNOWN && V_KIND == ATTRALIGNED && g_hasarg, ISPOW2(g_val) && g_val <= INT_MAX && g_ice_n == 1)) \
	X(IMP(g_tok0 == TIDENT && KNOWN && V_KIND == ATTRALIGNED && g_hasarg && a != 0, a->align == (int)g_val)) \
	X(IMP(g_tok0 == TIDENT && KNOWN && V_KIND == ATTRALIGNED && !g_hasarg && a != 0, a->align == 16)) \
	X(IMP(g_tok0 == TIDENT && !(KNOWN && V_KIND == ATTRALIGNED) && a != 0, a->align == g_oldalign)) \
	/* anything else: nothing recorded, balanced argument list skipped exactly */ \
	X(IMP(g_tok0 == TIDENT && !KNOWN && a != 0, (int)a->kind == g_oldkind)) \
	X(IMP(g_tok0 == TIDENT && !KNOWN && g_hasarg, g_pos == g_argend + 1))     /* tok is the token after the ')' */ \
	X(IMP(g_tok0 == TIDENT && !KNOWN && !g_hasarg, g_pos == g_argend + 1)) \
	X(g_eof_next == 0) \
	CANARY(X, !(g_tok0 == TIDENT && g_gnu && g_hasarg && g_val == 64 && a != 0))

static bool parseattr_contract(struct attr *a, enum attrkind allowed, enum attrprefix prefix)
REQUIRES(PRE)
__CPROVER_assigns(tok, g_pos, g_eof_next, g_ice_n, __CPROVER_object_whole(am_name), __CPROVER_object_whole(am_gnu))
__CPROVER_assigns(a != 0: a->kind, a->align)
ENSURES(POST);

void
harness(void)
{
	static struct attr am_a;
	static const char nm[] = V_NAME;
	IN(bool, in_null); IN(int, in_allowed); IN(int, in_oldkind); IN(int, in_oldalign); IN(u64, in_val);
	IN(int, in_shape); IN(bool, in_hasarg); IN(int, in_tok0); IN(int, in_x1); IN(int, in_x2);
	struct attr *a = in_null ? (struct attr *)0 : &am_a;
	enum attrkind allowed = in_allowed;
	enum attrprefix prefix;
	unsigned k = 0, i;

	for (i = 0; i < sizeof nm; ++i)
		am_name[i] = nm[i];
	am_gnu[0] = 'g'; am_gnu[1] = 'n'; am_gnu[2] = 'u'; am_gnu[3] = 0;
	am_a.kind = in_oldkind; am_a.align = in_oldalign;
	g_oldkind = in_oldkind; g_oldalign = in_oldalign; g_val = in_val;
	__CPROVER_assume(in_shape >= 0 && in_shape <= 2);
	__CPROVER_assume(in_x1 != TLPAREN && in_x1 != TRPAREN && in_x1 != TEOF && in_x2 != TLPAREN && in_x2 != TRPAREN && in_x2 != TEOF);
	/* shape 0: __attribute__((NAME ...   shape 1: [[gnu::NAME ...   shape 2: [[NAME ...  (tok is the first identifier) */
	prefix = in_shape == 0 ? PREFIXGNU : 0;
	g_gnu = in_shape != 2;
	tok.kind = in_tok0;
	tok.lit = in_shape == 1 ? &am_gnu[0] : &am_name[0];
	if (in_shape == 1) {
		g_script[k].kind = TCOLONCOLON; g_script[k++].lit = 0;
		g_script[k].kind = TIDENT; g_script[k++].lit = &am_name[0];
	}
	g_hasarg = in_hasarg;
	if (in_hasarg) {
		g_script[k].kind = TLPAREN; g_script[k++].lit = 0;
		if (!(g_gnu && V_KIND == ATTRALIGNED)) {
			/* an argument list with one nested pair:  ( x1 ( x2 ) )   -- 5 tokens */
			g_script[k].kind = in_x1; g_script[k++].lit = 0;
			g_script[k].kind = TLPAREN; g_script[k++].lit = 0;
			g_script[k].kind = in_x2; g_script[k++].lit = 0;
			g_script[k].kind = TRPAREN; g_script[k++].lit = 0;
		}
		g_script[k].kind = TRPAREN; g_script[k++].lit = 0;
	}
	g_argend = k;
	g_script[k].kind = TCOMMA; g_script[k++].lit = 0;      /* the token after the attribute */
	g_len = k;
	g_pos = 0; g_eof_next = 0; g_ice_n = 0; g_tok0 = in_tok0;
	g_no_error = 0;
	CALLR(bool, PRE, POST, parseattr(a, allowed, prefix));
}
