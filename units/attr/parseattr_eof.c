/* UNIT
{
 "id": "ATTR.parseattr.eof",
 "file": "attr.c", "function": "parseattr",
 "properties": {"C19": "contract"},
 "mode": "dfcc", "enforce": "parseattr/parseattr_contract",
 "kind": "bounded",
 "bound": "argument list of an unknown attribute: any sequence of <= 5 tokens (kinds symbolic), then end of input",
 "cflags": ["-DV_NAME=\"foo\"", "-DV_KIND=0"],
 "unwind": 10,
 "timeout": 200,
 "expects": ["postcondition", "assertion_verif"],
 "assumes": ["FAILS on the pinned tree (genuine defect): the argument-skipping loop `for (paren = 1; paren > 0; next())` has no TEOF case: `int x __attribute__((foo(1, 2` <end of file> makes cproc-qbe spin forever (confirmed: killed by timeout)",
             "next() stays at TEOF once the input is exhausted, as the real scanner does; the obligation next.assertion.1 (stub) fails when next() is called a third time at end of input"]
}
*/
/*
 * C19 ("EOF handling in every token-skipping loop: attr.c: parseattr (argument skipping)"): for every argument token
 * sequence the function terminates: it returns with the balanced list consumed, or diagnoses the unterminated list.
 */
#include "parseattr_common.h"

static char am_name[8];
int g_depth_end;          /* paren depth at the end of the script, computed by the harness (0 = balanced somewhere) */
bool g_balanced;          /* some prefix of the script closes the '(' */

#define PRE(X) \
	X(g_pos == 0 && g_eof_next == 0 && g_len <= NSCRIPT && tok.kind == TIDENT && prefix == PREFIXGNU)

#define POST(X) \
	X(RET == 1) \
	X(g_balanced)                 /* normal return => the list was closed; an unterminated list is diagnosed */ \
	X(g_eof_next <= 1) \
	CANARY(X, !(g_balanced && g_len == 4))

static bool parseattr_contract(struct attr *a, enum attrkind allowed, enum attrprefix prefix)
REQUIRES(PRE)
__CPROVER_assigns(tok, g_pos, g_eof_next, g_ice_n, __CPROVER_object_whole(am_name))
__CPROVER_assigns(a != 0: a->kind, a->align)
ENSURES(POST);

void
harness(void)
{
	static struct attr am_a;
	IN(unsigned, in_n); IN(int, in_t0); IN(int, in_t1); IN(int, in_t2); IN(int, in_t3); IN(int, in_t4);
	struct attr *a = &am_a;
	enum attrkind allowed = 0;
	enum attrprefix prefix = PREFIXGNU;
	int t[5] = {in_t0, in_t1, in_t2, in_t3, in_t4};
	int depth = 1;
	unsigned k;

	__CPROVER_assume(in_n <= 5);
	am_name[0] = 'f'; am_name[1] = 'o'; am_name[2] = 'o'; am_name[3] = 0;
	tok.kind = TIDENT; tok.lit = &am_name[0];
	g_script[0].kind = TLPAREN; g_script[0].lit = 0;
	g_balanced = 0;
	for (k = 0; k < 5; ++k) {
		if (k < in_n) {
			__CPROVER_assume(t[k] != TEOF && t[k] >= TNONE && t[k] <= THASHHASH);
			g_script[k + 1].kind = t[k]; g_script[k + 1].lit = 0;
			if (depth > 0) {
				depth += t[k] == TLPAREN;
				depth -= t[k] == TRPAREN;
				if (depth == 0)
					g_balanced = 1;
			}
		}
	}
	g_len = in_n + 1;
	g_depth_end = depth;
	g_pos = 0; g_eof_next = 0; g_ice_n = 0;
	g_no_error = 0;
	CALLR(bool, PRE, POST, parseattr(a, allowed, prefix));
}
