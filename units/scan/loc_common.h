/*
 * loc_common.h -- contract text of SCAN.loc / SCAN.loc.newline: scankind() on an input that starts with any number of
 * blanks and comments before the token.  The including unit defines LOC_SELECT (which inputs) and LOC_CANARY.
 *
 * Logical stand-ins nextchar_abs / ungetc_abs, comment() by the stand-in comment_spec that SCAN.comment proves it refines
 * (the real comment() inlined into scankind's two backward gotos did not finish symbolic execution in 300 s); real
 * op2/op3/op4; the literal/identifier/number scanners are cut off at their entry (scan_leafstubs.h).
 */
#define GS_LMAX 8
#define GS_KMAX 1
#define GS_SPL 4
#define GS_NO_TABLES
#define GS_ABS_ONLY
#define GS_SMALL_TOKENS
#include "scan_common.h"
#include "scan_leafstubs.h"
#undef RET
#define RET HRET

extern int g_no_error;

bool g_saw0;
const char *g_file0;

/* index of the first character of the first token: after the leading blanks and comments (oracle lex_skip_step);
   at most LOC_SEPS separators (bound of the unit: scankind has two backward `goto again`, which the verifier unwinds
   as a binary tree -- 2^n copies of the switch for n separators) */
#ifndef LOC_SEPS
#define LOC_SEPS 2
#endif
int g_T;
static int
loc_T(void)
{
	int p = lex_skip_step(g_L, 0);

#if LOC_SEPS >= 2
	if (p > 0) p = lex_skip_step(g_L, p);
#endif
#if LOC_SEPS >= 3
	if (p > 0) p = lex_skip_step(g_L, p);
#endif
#if LOC_SEPS >= 4
	if (p > 0) p = lex_skip_step(g_L, p);
#endif
	return p;
}
#define T        g_T
#define TI       ((size_t)(T >= 0 ? T : 0))
#define TC(i)    g_L[TI + (i)]
#define CLS_T    lex_class(TC(0), TC(1), TC(2))
#define PLEN_T   ((size_t)lex_punct_len(TC(0), TC(1), TC(2), TC(3)))

#define PRE_LOC(X) \
	X(s != 0 && loc != 0 && s->file == ghost_file()) \
	X(g_in_n <= G_IN_MAX && g_m <= GS_LMAX && gs_canonical()) \
	X(!s->usebuf && s->buf.len == 0 && BUF_OK(&s->buf) && s->buf.cap >= 256) \
	X(AT(s, 0) && g_li == 0) \
	/* the scanner location is that of its character, in scan.c's convention for new-line (next line, column 0) */ \
	X(SYNC_ABS(s)) \
	X(g_saw0 == s->sawspace && g_file0 == s->loc.file && g_leaf_calls == 0) \
	X(g_T == loc_T() && (g_T < 0 || lex_skip_step(g_L, g_T) == g_T)) \
	X(T < 0 || !lex_starts_digraph(TC(0), TC(1))) \
	X(LOC_SELECT)

#define POST_LOC(X) \
	/* 6.4.9: a block comment that is not terminated is diagnosed, scankind does not return a token */ \
	X(T >= 0) \
	/* C11: *loc names the file, physical line and column of the FIRST character of the returned token -- blanks, \
	   comments (with the lines they span) and splices in front of it are not part of it */ \
	X(loc->file == g_file0) \
	X(loc->line == g_pline(TI)) \
	X(loc->col == g_pcol(TI)) \
	/* 5.1.1.2p1(3) + 6.10.3.2: white space or a comment in front of the token is recorded */ \
	X(s->sawspace == (g_saw0 || TI > 0)) \
	/* C13: comments and blanks neither join nor split: the token after them is the one that starts at T */ \
	X(IMP(CLS_T == LEX_C_EOF, RET == TEOF && g_li == TI)) \
	X(IMP(CLS_T == LEX_C_NEWLINE, RET == TNEWLINE && g_li == TI + 1)) \
	X(IMP(CLS_T == LEX_C_PUNCT, RET == lex_punct_kind(TC(0), TC(1), TC(2), TC(3)) && s->chr == TC(PLEN_T))) \
	X(IMP(CLS_T == LEX_C_NUMBER, RET == TNUMBER && g_leaf == LEAF_NUMBER && g_leaf_calls == 1)) \
	X(IMP(CLS_T == LEX_C_NUMBER && TC(0) != '.', g_leaf_chr == TC(0) && g_leaf_buflen == 0)) \
	X(IMP(CLS_T == LEX_C_NUMBER && TC(0) == '.', g_leaf_chr == TC(1) && g_leaf_buflen == 1 && g_leaf_buf0 == '.')) \
	X(IMP(CLS_T == LEX_C_IDENT, RET == TIDENT && g_leaf == LEAF_IDENT && g_leaf_calls == 1)) \
	X(IMP(CLS_T == LEX_C_STRING, RET == TSTRINGLIT && g_leaf == LEAF_STRING && g_leaf_calls == 1)) \
	X(IMP(CLS_T == LEX_C_CHARCONST, RET == TCHARCONST && g_leaf == LEAF_CHAR && g_leaf_calls == 1)) \
	/* 6.4p1: any other non-white-space character is a token by itself; its spelling is that character */ \
	X(IMP(CLS_T == LEX_C_OTHER, RET == TOTHER && g_li == TI + 1 && s->usebuf && s->buf.len == 1 && s->buf.str[0] == (unsigned char)TC(0))) \
	X(IMP(CLS_T == LEX_C_EOF || CLS_T == LEX_C_NEWLINE || CLS_T == LEX_C_PUNCT, !s->usebuf && g_leaf_calls == 0)) \
	/* frame */ \
	X(s->file == ghost_file() && s->next == 0 && s->loc.file == g_file0) \
	CANARY(X, !(LOC_CANARY))

static void
loc_inputs(u64 chars, u64 splices)
{
	size_t i;

	g_L[0] = (unsigned char)(chars >> 0); g_L[1] = (unsigned char)(chars >> 8); g_L[2] = (unsigned char)(chars >> 16);
	g_L[3] = (unsigned char)(chars >> 24); g_L[4] = (unsigned char)(chars >> 32); g_L[5] = (unsigned char)(chars >> 40);
	g_L[6] = (unsigned char)(chars >> 48); g_L[7] = (unsigned char)(chars >> 56);
	for (i = 0; i <= GS_LMAX; i++)
		g_k[i] = (splices >> i) & 1;
}
