/* UNIT
{
 "id": "SCAN.bufget",
 "file": "scan.c", "function": "bufget", "also_functions": ["bufadd"],
 "properties": {"C19": "all"},
 "mode": "dfcc", "enforce": "bufget/bufget_contract",
 "kind": "proof",
 "stubs": ["base.c", "ghost_stdio.c"],
 "cbmc_flags": ["--drop-unused-functions"],
 "timeout": 200,
 "expects": ["postcondition", "assigns", "pointer_dereference"],
 "assumes": ["capacity at most 2^12 in the harness's allocation (memcpy of a symbolic length; the contract itself allows cap <= 2^62)",
             "xmalloc/xreallocarray do not fail (stubs/base.c)", "memcpy is CBMC's library model"]
}
*/
#include "ghost_stdio.h"
#include "scan.c"
#include "verif.h"

#ifdef VERIF_REPLAY
#define __CPROVER_frees(...)
#define __CPROVER_object_whole(p) (p)
#define RET_SIZE_OK 1
#else
#define RET_SIZE_OK (__CPROVER_OBJECT_SIZE(RET) == g_len0 + 1)
#endif

/*
 * bufget(b): terminate the collected spelling, hand out a fresh exact-size copy, reset the buffer for the next token
 * (scan() stores the copy in token.lit, the parser frees it).
 */
size_t g_len0, g_cap0, g_j;
unsigned char g_oldj;

#define GROWS    (g_len0 >= g_cap0)
#define NEWCAP   (GROWS ? (g_cap0 ? g_cap0 * 2 : (size_t)1 << 8) : g_cap0)

#define PRE(X) \
	X(b != 0) \
	X(b->len <= b->cap && b->cap <= ((size_t)1 << 62)) \
	X(IMP(b->cap == 0, b->str == 0)) \
	X(IMP(b->cap > 0, b->str != 0)) \
	X(g_len0 == b->len && g_cap0 == b->cap) \
	X(IMP(g_j < g_len0, g_oldj == b->str[g_j]))

#define POST(X) \
	/* a fresh NUL-terminated copy of exactly the collected bytes */ \
	X(RET != 0 && RET != (char *)b->str) \
	X(RET[g_len0] == 0) \
	X(IMP(g_j < g_len0, (unsigned char)RET[g_j] == g_oldj)) \
	X(RET_SIZE_OK) \
	/* the buffer is empty again and keeps its (possibly grown) allocation: the terminator needed one byte */ \
	X(b->len == 0) \
	X(b->cap == NEWCAP && b->str != 0 && g_len0 < b->cap) \
	CANARY(X, !(g_len0 == 3 && g_cap0 == 256 && g_j == 1))

static char *bufget_contract(struct buffer *b)
REQUIRES(PRE)
__CPROVER_assigns(b->str, b->len, b->cap)
__CPROVER_assigns(b->str != 0: __CPROVER_object_whole(b->str))
__CPROVER_frees(b->str)
ENSURES(POST);

void
harness(void)
{
	static struct buffer buf;
	struct buffer *b = &buf;
	IN(size_t, in_cap);
	IN(size_t, in_len);
	ING(size_t, g_j);

	__CPROVER_assume(in_cap <= ((size_t)1 << 12) && in_len <= in_cap);
	b->cap = in_cap;
	b->len = in_len;
	b->str = 0;
	if (in_cap) {
		b->str = malloc(in_cap);
		__CPROVER_assume(b->str != 0);
#ifdef VERIF_REPLAY
		memset(b->str, 0x5a, in_cap);
#endif
	}
	g_len0 = b->len; g_cap0 = b->cap;
	if (g_j < g_len0)
		g_oldj = b->str[g_j];
	CALLR(char *, PRE, POST, bufget(b));
}
