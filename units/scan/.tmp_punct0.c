/* UNIT
{
 "id": "SCAN.punct",
 "file": "scan.c", "function": "scankind", "also_functions": ["op2", "op3", "op4"],
 "properties": {"C13": "contract", "C19": "safety"},
 "mode": "dfcc", "enforce": "scankind/scankind_contract",
 "replace_calls": {"nextchar": "nextchar_spec", "stringlit": "stub_stringlit", "charconst": "stub_charconst",
                   "ident": "stub_ident", "number": "stub_number", "comment": "stub_comment"},
 "kind": "proof-const-unwind",
 "bound": "a punctuator is at most 4 characters + 1 of look-ahead: the window is 6 symbolic logical characters (any bytes, any shorter file), each preceded by 0 or 1 backslash-newline pair; blank-skipping loop of scankind unwound twice (not entered)",
 "unwindset": ["scankind_wrapped_for_contract_checking.0:2"],
 "stubs": ["base.c", "ghost_stdio.c"],
 "cbmc_flags": ["--drop-unused-functions"],
 "timeout": 200,
 "expects": ["postcondition", "assigns"],
 "assumes": ["nextchar is taken by its stand-in nextchar_spec (scan_common.h), which SCAN.nextchar proves the real nextchar refines",
             "comment() returns false and changes nothing where no comment starts (SCAN.comment)",
             "inputs that start with one of the digraph spellings <: :> <% %> %: are excluded here and stated in SCAN.punct.digraph (finding: cproc does not implement C11 6.4.6p3 digraphs)",
             "ungetc may be applied twice in a row (glibc and musl allow it; ISO C guarantees one byte): scankind needs depth 2 on `..\\\\x`"]
}
*/
#define GS_LMAX 6
#define GS_KMAX 0
#define GS_SPL 4
#include "scan_common.h"
#include "scan_leafstubs.h"

bool g_saw0;
size_t g_loc_line0, g_loc_col0;

#define L0 g_L[0]
#define L1 g_L[1]
#define L2 g_L[2]
#define L3 g_L[3]
#define PLEN lex_punct_len(L0, L1, L2, L3)

/* scan() calls scankind(scanner, &t->loc) with the spelling buffer idle and the scanner standing on the first
   character not yet tokenised */
#define PRE(X) \
	X(s != 0 && loc != 0 && s->file == ghost_file()) \
	X(g_in_n <= G_IN_MAX && g_m <= GS_LMAX && gs_canonical()) \
	X(!s->usebuf && s->buf.len == 0 && BUF_OK(&s->buf)) \
	X(AT(s, 0)) \
	X(g_saw0 == s->sawspace && g_loc_line0 == s->loc.line && g_loc_col0 == s->loc.col) \
	X(g_leaf_calls == 0 && g_unget_max == 0) \
	/* this unit: a punctuator starts here (6.4.6), not spelled as a digraph */ \
	X(lex_class(L0, L1, L2) == LEX_C_PUNCT && !lex_starts_digraph(L0, L1))

#define POST(X) \
	/* 6.4p4 maximal munch: the LONGEST punctuator that is a prefix of the input */ \
	X(RET == lex_punct_kind(L0, L1, L2, L3)) \
	/* exactly its characters were consumed: the scanner stands on the character after it (one of look-ahead) */ \
	X(s->chr == g_L[PLEN]) \
	X(AT_LOOSE(s, PLEN)) \
	/* a punctuator has no collected spelling, skips no white space, enters no literal/identifier/number scanner */ \
	X(!s->usebuf && s->buf.len == 0) \
	X(s->sawspace == g_saw0) \
	X(g_leaf_calls == 0) \
	/* C11: the token's location is where its first character stands */ \
	X(loc->line == g_loc_line0 && loc->col == g_loc_col0) \
	/* pushback depth needed from stdio */ \
	X(g_unget_max <= 2)
	

static int scankind_contract(struct scanner *s, struct location *loc)
REQUIRES(PRE)
__CPROVER_assigns(*loc, s->chr, s->usebuf, s->sawspace, s->loc, s->buf.str, s->buf.len, s->buf.cap,
                  g_in_pos, g_unget_depth, g_unget_max, g_getc_calls, g_comment_calls)
__CPROVER_assigns(s->buf.str != 0: __CPROVER_object_whole(s->buf.str))
__CPROVER_frees(s->buf.str)
ENSURES(POST);

void
harness(void)
{
	static struct location tl;
	struct location *loc = &tl;
	struct scanner *s;
	IN(u64, in_chars);
	IN(size_t, in_m);
	IN(u64, in_splices);
	IN(size_t, in_line0);
	IN(size_t, in_col0);
	IN(bool, in_saw);
	IN(bool, in_havebuf);

	__CPROVER_assume(in_m <= GS_LMAX);
	__CPROVER_assume(in_line0 < ((size_t)1 << 32) && in_col0 < ((size_t)1 << 32));
	gs_logical_from(in_chars, in_m);
	gs_splices_from(in_splices);
	__CPROVER_assume(GS_K_OK);
	g_line0 = in_line0;
	g_col0 = in_col0;
	gs_build(in_m);
	__CPROVER_assume(gs_canonical());
	s = gs_scanner_at0(in_saw, in_havebuf);
	g_saw0 = s->sawspace; g_loc_line0 = s->loc.line; g_loc_col0 = s->loc.col;
	CALLR(int, PRE, POST, scankind(s, loc));
}
