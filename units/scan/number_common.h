/*
 * number_common.h -- contract text of SCAN.number / SCAN.number.signsign: scan.c number() against C11 6.4.8.
 * The including unit defines NUM_SELECT (which inputs) and NUM_CANARY.
 *
 * number(s) is entered by scankind() standing on a digit (the first character of the pp-number, or the digit after a
 * leading '.', which scankind has then already put into the spelling buffer); it consumes the rest of the pp-number.
 */
#define GS_LMAX 12
#define GS_KMAX 1
#define GS_SPL 4
#define GS_NO_TABLES
#define GS_ABS_ONLY
#include "scan_common.h"

size_t g_len0;         /* ghost: spelling bytes already collected (0, or 1 for the leading '.') */
size_t g_j;            /* ghost: an arbitrary index into the token ("for all characters of the pp-number") */
bool g_sawn;
const char *g_file0;

/* length of the longest pp-number that starts at the scanner's character (oracle, loop-free) */
#define NLEN ((size_t)lex_ppnum_len(g_L))

/* two adjacent sign characters somewhere in the window (splits the inputs between the two units) */
#define SS1(i) ((g_L[i] == '+' || g_L[i] == '-') && (g_L[(i) + 1] == '+' || g_L[(i) + 1] == '-'))
#define NUM_SIGNSIGN (SS1(0) || SS1(1) || SS1(2) || SS1(3) || SS1(4) || SS1(5) || SS1(6) || SS1(7) || SS1(8) || SS1(9) || SS1(10))

#define PRE_NUM(X) \
	X(s != 0 && s->file == ghost_file()) \
	X(g_in_n <= G_IN_MAX && g_m <= GS_LMAX && gs_canonical()) \
	X(AT(s, 0) && g_li == 0 && lex_isdigit(s->chr)) \
	X(!s->usebuf && BUF_OK(&s->buf) && s->buf.len == g_len0 && g_len0 <= 1 && (g_len0 == 0 || s->buf.cap >= 1)) \
	X(g_j < GS_LMAX && g_sawn == s->sawspace && g_file0 == s->loc.file) \
	X(NUM_SELECT)

#define POST_NUM(X) \
	X(RET == TNUMBER) \
	/* 6.4.8 + 6.4p4: exactly the longest pp-number prefix is consumed; the scanner stands on the character after it */ \
	X(s->chr == g_L[NLEN]) \
	X(g_in_pos == GS_POS_AFTER(NLEN)) \
	/* the token's spelling is collected: every character of the pp-number, in order, after what was there */ \
	X(s->usebuf) \
	X(s->buf.len == g_len0 + NLEN) \
	X(IMP(g_j < NLEN, s->buf.str[g_len0 + g_j] == (unsigned char)g_L[g_j])) \
	X(BUF_OK(&s->buf)) \
	/* frame: nothing else of the scanner changes */ \
	X(s->file == ghost_file() && s->next == 0 && s->sawspace == g_sawn && s->loc.file == g_file0) \
	CANARY(X, !(NUM_CANARY))

#undef RET
#define RET HRET

static void
num_chars_from(u64 w0, u64 w1)
{
	g_L[0] = (unsigned char)(w0 >> 0); g_L[1] = (unsigned char)(w0 >> 8); g_L[2] = (unsigned char)(w0 >> 16);
	g_L[3] = (unsigned char)(w0 >> 24); g_L[4] = (unsigned char)(w0 >> 32); g_L[5] = (unsigned char)(w0 >> 40);
	g_L[6] = (unsigned char)(w0 >> 48); g_L[7] = (unsigned char)(w0 >> 56);
	g_L[8] = (unsigned char)(w1 >> 0); g_L[9] = (unsigned char)(w1 >> 8); g_L[10] = (unsigned char)(w1 >> 16);
	g_L[11] = (unsigned char)(w1 >> 24);
}

static void
num_splices_from(u64 w)
{
	g_k[0] = (w >> 0) & 1; g_k[1] = (w >> 1) & 1; g_k[2] = (w >> 2) & 1; g_k[3] = (w >> 3) & 1;
	g_k[4] = (w >> 4) & 1; g_k[5] = (w >> 5) & 1; g_k[6] = (w >> 6) & 1; g_k[7] = (w >> 7) & 1;
	g_k[8] = (w >> 8) & 1; g_k[9] = (w >> 9) & 1; g_k[10] = (w >> 10) & 1; g_k[11] = (w >> 11) & 1;
	g_k[12] = (w >> 12) & 1;
}
