/* UNIT
{
 "id": "SCAN.comment",
 "file": "scan.c", "function": "comment",
 "properties": {"C13": "contract", "C11": "contract", "C19": "safety"},
 "mode": "harness",
 "replace_calls": {"nextchar": "nextchar_abs"},
 "kind": "bounded", "unwind": 24, "unwind_failure": "violation",
 "bound": "files of at most 10 logical characters (all byte values) after the '/' that may open the comment, each preceded by 0 or 1 backslash-newline pair; both loops of comment() unwound 12 times",
 "unwindset": ["comment.0:12", "comment.1:12", "gs_build.0:50", "gs_build.1:50", "gs_build.2:50"],
 "cflags": ["-DG_IN_MAX=40"],
 "stubs": ["base.c", "ghost_stdio.c"],
 "cbmc_flags": ["--drop-unused-functions"],
 "timeout": 300,
 "expects": ["assertion_verif"],
 "assumes": ["nextchar is taken by its logical stand-in nextchar_abs (SCAN.nextchar + SCAN.nextchar.abs prove the real one refines it); its line accounting (one line per new-line or splice consumed) is what makes a multi-line comment count its physical lines",
             "error() does not return (stubs/base.c)",
             "harness mode; frame stated by POST clauses"]
}
*/
#define GS_LMAX 10
#define GS_KMAX 1
#define GS_SPL 4
#define GS_NO_TABLES
#define GS_ABS_ONLY
#include "scan_common.h"
#undef RET
#define RET HRET

/*
 * comment(s) is called by scankind() after a '/' that is not followed by '=' (op2 returned TDIV): s->chr is the
 * character after the '/'.  Ghosts: pre-state of everything comment() must leave alone when no comment starts.
 */
bool g_saw0;
size_t g_line_0, g_col_0, g_pos_0, g_nl;
const char *g_file0;
/* the state the stand-in comment_spec() (scan_common.h), which replaces comment() in SCAN.loc, produces from the same
   pre-state (not run when it would diagnose) */
bool g_e_run, g_e_ret, g_e_saw;
int g_e_chr;
size_t g_e_li, g_e_pos, g_e_line, g_e_col;

extern int g_no_error;   /* stubs/base.c: reaching error() while set is a failed obligation */

#define C0        g_L[0]
#define LC_END    ((size_t)lex_linecomment_end(g_L))
#define BC_END    ((size_t)lex_blockcomment_end(g_L))
#define BC_CLOSED (BC_END != 0)
/* number of new-line bytes (new-line characters and splices) between the entry position and the exit position */
#define NL1(i)    (((i) <= g_li && (i) >= 1) ? (g_k[i] + (g_L[i] == '\n')) : 0)
#define NL_CONSUMED (NL1(1) + NL1(2) + NL1(3) + NL1(4) + NL1(5) + NL1(6) + NL1(7) + NL1(8) + NL1(9) + NL1(10))

#define PRE(X) \
	X(s != 0 && s->file == ghost_file()) \
	X(g_in_n <= G_IN_MAX && g_m <= GS_LMAX && gs_canonical()) \
	X(AT(s, 0) && g_li == 0 && SYNC_ABS(s)) \
	X(!s->usebuf && s->buf.len == 0) \
	X(g_saw0 == s->sawspace && g_line_0 == s->loc.line && g_col_0 == s->loc.col && g_pos_0 == g_in_pos && g_file0 == s->loc.file)

#define POST(X) \
	/* no comment starts: '/' stays the punctuator; nothing is consumed, nothing changes */ \
	X(IMP(C0 != '/' && C0 != '*', RET == false && s->chr == C0 && g_li == 0 && g_in_pos == g_pos_0)) \
	X(IMP(C0 != '/' && C0 != '*', s->sawspace == g_saw0 && s->loc.line == g_line_0 && s->loc.col == g_col_0)) \
	/* 6.4.9p2: a // comment runs up to but NOT including the next new-line (or the end of the file) */ \
	X(IMP(C0 == '/', RET == true && g_li == LC_END && s->chr == g_L[LC_END] && g_in_pos == GS_POS_AFTER(LC_END))) \
	X(IMP(C0 == '/', s->chr == '\n' || s->chr == LEX_EOF)) \
	/* 6.4.9p1: a block comment ends with the first terminator after the opener; the scanner stands on the character \
	   after the terminator */ \
	X(IMP(C0 == '*', BC_CLOSED)) \
	X(IMP(C0 == '*', RET == true && g_li == BC_END + 1 && s->chr == g_L[BC_END + 1] && g_in_pos == GS_POS_AFTER(BC_END + 1))) \
	/* 5.1.1.2p1(3): the comment is one space */ \
	X(IMP(C0 == '/' || C0 == '*', s->sawspace)) \
	/* C11: the comment's physical lines are counted (new-lines inside a block comment, splices anywhere) */ \
	X(s->loc.line == g_line_0 + NL_CONSUMED) \
	/* ... and the location is that of the character the scanner now stands on */ \
	X(SYNC_ABS(s)) \
	/* refinement: exactly the state of the stand-in that replaces comment() in scankind's unit SCAN.loc */ \
	X(IMP(g_e_run, RET == g_e_ret && s->chr == g_e_chr && g_li == g_e_li && g_in_pos == g_e_pos)) \
	X(IMP(g_e_run, s->loc.line == g_e_line && s->loc.col == g_e_col && s->sawspace == g_e_saw)) \
	/* no spelling is collected for a comment; frame */ \
	X(!s->usebuf && s->buf.len == 0) \
	X(s->file == ghost_file() && s->next == 0 && s->loc.file == g_file0) \
	CANARY(X, !(C0 == '*' && g_L[1] == '/' && g_L[2] == '*' && g_L[3] == '*' && g_L[4] == '/' && g_k[3] == 1))

void
harness(void)
{
	struct scanner *s;
	IN(u64, in_c0);
	IN(u64, in_c1);
	IN(size_t, in_m);
	IN(u64, in_splices);
	IN(size_t, in_line);
	IN(size_t, in_col);
	IN(bool, in_saw);

	__CPROVER_assume(in_m <= GS_LMAX);
	__CPROVER_assume(in_line < ((size_t)1 << 32) && in_col >= 1 && in_col < ((size_t)1 << 32));
	g_L[0] = (unsigned char)(in_c0 >> 0); g_L[1] = (unsigned char)(in_c0 >> 8); g_L[2] = (unsigned char)(in_c0 >> 16);
	g_L[3] = (unsigned char)(in_c0 >> 24); g_L[4] = (unsigned char)(in_c0 >> 32); g_L[5] = (unsigned char)(in_c0 >> 40);
	g_L[6] = (unsigned char)(in_c0 >> 48); g_L[7] = (unsigned char)(in_c0 >> 56);
	g_L[8] = (unsigned char)(in_c1 >> 0); g_L[9] = (unsigned char)(in_c1 >> 8);
	g_k[0] = (in_splices >> 0) & 1; g_k[1] = (in_splices >> 1) & 1; g_k[2] = (in_splices >> 2) & 1;
	g_k[3] = (in_splices >> 3) & 1; g_k[4] = (in_splices >> 4) & 1; g_k[5] = (in_splices >> 5) & 1;
	g_k[6] = (in_splices >> 6) & 1; g_k[7] = (in_splices >> 7) & 1; g_k[8] = (in_splices >> 8) & 1;
	g_k[9] = (in_splices >> 9) & 1; g_k[10] = (in_splices >> 10) & 1;
	g_line0 = 1; g_col0 = 0;
	gs_build(in_m);
	__CPROVER_assume(gs_canonical());
	g_pl0 = in_line; g_pc0 = in_col;
	gs_abs_tables();
	s = gs_scanner_at0(in_saw, true, false, g_pl0 + (g_L[0] == '\n'), g_L[0] == '\n' ? 0 : g_pc0);
	g_saw0 = s->sawspace; g_line_0 = s->loc.line; g_col_0 = s->loc.col; g_pos_0 = g_in_pos; g_file0 = s->loc.file;
	g_e_run = !(C0 == '*' && !BC_CLOSED);
	if (g_e_run) {
		static struct scanner sc2;

		sc2 = *s;
		g_e_ret = comment_spec(&sc2);
		g_e_chr = sc2.chr; g_e_li = g_li; g_e_pos = g_in_pos; g_e_line = sc2.loc.line; g_e_col = sc2.loc.col;
		g_e_saw = sc2.sawspace;
		g_li = 0; g_in_pos = g_pos_0; g_unget_depth = 0; g_unget_max = 0; g_getc_calls = 0;
	}
	/* a terminated (or absent, or line) comment must not be diagnosed: reaching error() is then a failed obligation */
	g_no_error = !(C0 == '*' && !BC_CLOSED);
	HCALLR(bool, PRE, POST, comment(s));
}
