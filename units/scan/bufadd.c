/* UNIT
{
 "id": "SCAN.bufadd",
 "file": "scan.c", "function": "bufadd",
 "properties": {"C19": "all"},
 "mode": "dfcc", "enforce": "bufadd/bufadd_contract",
 "kind": "proof",
 "stubs": ["base.c", "ghost_stdio.c"],
 "cbmc_flags": ["--drop-unused-functions"],
 "timeout": 200,
 "expects": ["postcondition", "assigns", "pointer_dereference"],
 "assumes": ["capacity at most 2^16 in the harness's allocation (the contract itself allows cap <= 2^62: cap * 2 does not wrap)",
             "xreallocarray is realloc that does not fail (stubs/base.c; its overflow guard is UTIL.reallocarray's business)"]
}
*/
#include "ghost_stdio.h"
#include "scan.c"
#include "verif.h"

#ifdef VERIF_REPLAY
#define __CPROVER_frees(...)
#define __CPROVER_object_whole(p) (p)
#endif

/*
 * bufadd(b, c): append one byte to the growable spelling buffer (C19 anchor "growable buffers with capacity checks").
 * Invariant of a buffer: len <= cap, and str points to cap allocated bytes when cap > 0 (scanfrom() starts with
 * NULL/0/0).  Ghosts: pre-state, and an arbitrary index g_j ("for all earlier bytes").
 */
size_t g_len0, g_cap0, g_j;
unsigned char g_oldj;      /* str[g_j] before the call (when g_j < len0) */

#define GROWS    (g_len0 >= g_cap0)
#define NEWCAP   (GROWS ? (g_cap0 ? g_cap0 * 2 : (size_t)1 << 8) : g_cap0)

#define PRE(X) \
	X(b != 0) \
	X(b->len <= b->cap && b->cap <= ((size_t)1 << 62)) \
	X(IMP(b->cap == 0, b->str == 0)) \
	X(IMP(b->cap > 0, b->str != 0)) \
	X(g_len0 == b->len && g_cap0 == b->cap) \
	X(IMP(g_j < g_len0, g_oldj == b->str[g_j]))

#define POST(X) \
	/* the byte is stored at the old end, the length grows by one */ \
	X(b->len == g_len0 + 1) \
	X(b->str != 0 && b->str[g_len0] == (unsigned char)c) \
	/* index < cap always: the write went inside the (possibly grown) allocation */ \
	X(g_len0 < b->cap && b->len <= b->cap) \
	/* capacity: unchanged while there is room, 256 on the first use, doubled when full */ \
	X(b->cap == NEWCAP) \
	/* growth preserves what was collected */ \
	X(IMP(g_j < g_len0, b->str[g_j] == g_oldj)) \
	CANARY(X, !(g_len0 == 256 && g_cap0 == 256 && g_j == 255))

static void bufadd_contract(struct buffer *b, int c)
REQUIRES(PRE)
__CPROVER_assigns(b->str, b->len, b->cap)
__CPROVER_assigns(b->str != 0: __CPROVER_object_whole(b->str))
__CPROVER_frees(b->str)
ENSURES(POST);

void
harness(void)
{
	static struct buffer buf;
	struct buffer *b = &buf;
	IN(size_t, in_cap);
	IN(size_t, in_len);
	IN(int, c);
	ING(size_t, g_j);

	__CPROVER_assume(in_cap <= ((size_t)1 << 16) && in_len <= in_cap);
	b->cap = in_cap;
	b->len = in_len;
	b->str = 0;
	if (in_cap) {
		b->str = malloc(in_cap);
		__CPROVER_assume(b->str != 0);
#ifdef VERIF_REPLAY
		memset(b->str, 0x5a, in_cap);
#endif
	}
	g_len0 = b->len; g_cap0 = b->cap;
	if (g_j < g_len0)
		g_oldj = b->str[g_j];
	CALL(PRE, POST, bufadd(b, c));
}
