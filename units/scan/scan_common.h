/*
 * scan_common.h -- shared by the SCAN.* units: the real scan.c over the ghost input stream, the description of that
 * stream in LOGICAL characters (C11 5.1.1.2 translation phase 2), the contract of nextchar() and the stand-in that
 * replaces nextchar() in the units of its callers (SCAN.nextchar proves that the real nextchar refines it).
 *
 * How scan.c gets its input: scanfrom(name, file) stores the FILE* in a malloc'ed `struct scanner` (static `scanner`
 * list head) and primes it with one nextchar(); all reading is getc(s->file)/ungetc(c, s->file) in nextchar() and one
 * ungetc in scankind()'s ".." case.  ghost_stdio.h maps those calls to the ghost stream; the harnesses build the
 * `struct scanner` themselves (it is a file-local type, visible because the unit #includes scan.c).
 */
#ifndef SCAN_COMMON_H
#define SCAN_COMMON_H

#include "ghost_stdio.h"    /* BEFORE scan.c: getc/ungetc -> ghost_getc/ghost_ungetc */
#include "scan.c"           /* the REAL translation unit */
#include "verif.h"
#include "lex.h"

#ifdef VERIF_REPLAY
#define __CPROVER_frees(...)
#define __CPROVER_object_whole(p) (p)
#endif

/* ---------------------------------------------------------------------------------------------------------------
 * The file as a sequence of logical characters: logical character i is g_L[i] (LEX_EOF for i >= g_m), preceded in
 * the file by g_k[i] backslash-newline pairs (g_k[g_m] pairs may precede the end of file).  gs_build() lays the
 * bytes out in g_in[] and records
 *     g_off[i]    physical offset of logical character i (g_in_n for i >= g_m)
 *     g_nlcum[j]  number of new-line bytes in g_in[0..j)          (physical lines completed before offset j)
 *     g_colof(j)  1-based column of offset j on its physical line (the first line starts at column g_col0 + 1)
 * "splices inserted at every position": every g_k[i] is symbolic in 0..GS_KMAX.
 */
#ifndef GS_LMAX
#define GS_LMAX 6        /* logical characters in the window */
#endif
#ifndef GS_KMAX
#define GS_KMAX 1        /* backslash-newline pairs in front of each logical character */
#endif
#define GS_PMAX (GS_LMAX * (2 * GS_KMAX + 1) + 2 * GS_KMAX)     /* physical bytes */
_Static_assert(GS_PMAX <= G_IN_MAX, "ghost stream too small for the window: compile with -DG_IN_MAX=<n>");
#ifndef GS_TABMAX
#define GS_TABMAX GS_PMAX   /* line/column tables cover offsets 0..GS_TABMAX */
#endif

int g_L[GS_LMAX + 30];        /* LEX_EOF-filled far past the window: the oracles look ahead without bounds tests */
unsigned g_k[GS_LMAX + 1];
size_t g_m;
unsigned char g_off[GS_LMAX + 30];   /* offsets are < GS_PMAX <= 255: one table byte */
unsigned char g_nlcum[G_IN_MAX + 2];   /* small counts: the window has at most G_IN_MAX bytes */
unsigned char g_colrel[G_IN_MAX + 2];  /* column of offset j counted from the last new-line (or from offset 0) */
#define g_colof(j) ((size_t)g_colrel[j] + (g_nlcum[j] == 0 ? g_col0 : 0))
size_t g_line0, g_col0;      /* line number of offset 0 and the column in front of offset 0 */

#pragma CPROVER check push
#pragma CPROVER check disable "pointer"
#pragma CPROVER check disable "bounds"
#pragma CPROVER check disable "pointer-overflow"
#pragma CPROVER check disable "signed-overflow"
#pragma CPROVER check disable "unsigned-overflow"
#pragma CPROVER check disable "conversion"

/* line/column tables of the physical bytes g_in[0..g_in_n) */
static void
gs_tables(void)
{
	size_t j;
	unsigned char nl = 0, col = 0;

	for (j = 0; j <= GS_TABMAX; j++) {
		g_nlcum[j] = nl;
		g_colrel[j] = col + 1;
		if (j < g_in_n && j < G_IN_MAX && g_in[j] == '\n') {
			++nl;
			col = 0;
		} else {
			++col;
		}
	}
}

/* Units whose stand-in works on the logical description only (nextchar_abs) define GS_ABS_ONLY: the verifier then needs
   the offsets but not the bytes (37 array writes at symbolic offsets cost 20 M clauses); the native replay, which runs
   the real nextchar, always gets the bytes. */
#if defined(GS_ABS_ONLY) && !defined(VERIF_REPLAY)
#define GS_PUT(at, v) ((void)0)
#else
#define GS_PUT(at, v) (g_in[at] = (v))
#endif

/* lay out g_L[0..m) with g_k[i] splices in front of character i (and g_k[m] in front of the end of file) */
static void
gs_build(size_t m)
{
	size_t w = 0, i, j;

	g_m = m;
	for (i = 0; i <= GS_LMAX; i++) {
		if (i <= m) {
			for (j = 0; j < GS_KMAX; j++) {
				if (j < g_k[i]) {
					GS_PUT(w, '\\');
					GS_PUT(w + 1, '\n');
					w += 2;
				}
			}
		}
		g_off[i] = w;
		if (i < m && i < GS_LMAX) {
			GS_PUT(w, (unsigned char)g_L[i]);
			++w;
		} else
			g_L[i] = LEX_EOF;
	}
	for (i = GS_LMAX + 1; i < GS_LMAX + 30; i++) {
		g_L[i] = LEX_EOF;
		g_off[i] = w;
	}
	ghost_in_reset(w);
#ifndef GS_NO_TABLES
	gs_tables();
#endif
}

/* the decomposition is the canonical one: a lone backslash is never directly followed by a new-line */
#define GS_CANON1(i) (!((i) + 1 < g_m && g_L[i] == '\\' && g_L[(i) + 1] == '\n' && g_k[(i) + 1] == 0))
static int
gs_canonical(void)
{
	return GS_CANON1(0) && GS_CANON1(1) && GS_CANON1(2) && GS_CANON1(3) && GS_CANON1(4) && GS_CANON1(5) &&
	       GS_CANON1(6) && GS_CANON1(7) && GS_CANON1(8) && GS_CANON1(9) && GS_CANON1(10) && GS_CANON1(11);
}

/* ---------------------------------------------------------------------------------------------------------------
 * Phase 2 on the physical bytes (used by the nextchar contract and stand-in): number of backslash-newline pairs that
 * start at offset p, looking at most GS_SPL pairs ahead (loop-free).
 */
#ifndef GS_SPL
#define GS_SPL 4
#endif
#define GS_PAIR(p) ((p) + 1 < g_in_n && (p) + 1 < G_IN_MAX && g_in[p] == '\\' && g_in[(p) + 1] == '\n')
static size_t
gs_splices_at(size_t p)
{
	size_t k = 0;

	if (GS_PAIR(p)) { k = 1;
	if (GS_PAIR(p + 2)) { k = 2;
	if (GS_PAIR(p + 4)) { k = 3;
	if (GS_PAIR(p + 6)) { k = 4;
#if GS_SPL > 4
	if (GS_PAIR(p + 8)) { k = 5;
	if (GS_PAIR(p + 10)) { k = 6;
	if (GS_PAIR(p + 12)) { k = 7;
	if (GS_PAIR(p + 14)) { k = 8;
	}}}}
#endif
	}}}}
	return k;
}
#define GS_BYTE(p) ((p) < g_in_n && (p) < G_IN_MAX ? (int)g_in[p] : LEX_EOF)

#pragma CPROVER check pop

/* ---------------------------------------------------------------------------------------------------------------
 * "The scanner is in step with the stream" -- the invariant every scanner function is entered and left with:
 *   s->loc.line  counts every new-line byte consumed so far (C11: a splice and a comment line are physical lines),
 *   s->loc.col   is the 1-based column of s->chr on its physical line (0 for the new-line character itself, the
 *                convention scan.c uses so that the first character of the next line gets column 1),
 * stated over the physical stream position g_in_pos (the byte after s->chr unless s->chr is EOF).
 */
#define SYNC_LINE(s)  ((s)->loc.line == g_line0 + g_nlcum[g_in_pos])
#define CHR_OFF       (g_in_pos > 0 ? g_in_pos - 1 : 0)
#define SYNC_COL(s)   ((s)->loc.col == ((s)->chr == '\n' ? 0 : (s)->chr == LEX_EOF ? g_colof(g_in_n) : g_colof(CHR_OFF)))

/* the scanner stands on logical character i: it is in s->chr and the stream continues right after it */
#define GS_POS_AFTER(i) ((size_t)(i) < g_m ? (size_t)g_off[i] + 1 : g_in_n)
#define AT(s, i)      ((s)->chr == g_L[i] && g_in_pos == GS_POS_AFTER(i))
/* ... or further on inside the run of splices that precedes logical character i+1 (only splices were skipped) */
#define AT_LOOSE(s, i) ((s)->chr == g_L[i] && g_in_pos >= GS_POS_AFTER(i) && g_in_pos <= g_off[(i) + 1] && \
                        ((g_off[(i) + 1] - g_in_pos) & 1) == 0)

/* growable buffer invariant (SCAN.buf): room for len bytes inside an allocation of cap bytes */
#define BUF_OK(b) ((b)->len <= (b)->cap && ((b)->cap == 0 || (b)->str != 0) && (b)->cap <= ((size_t)1 << 40))

/* ---------------------------------------------------------------------------------------------------------------
 * Stand-in for nextchar() in the units of its callers (replace_calls nextchar:nextchar_spec).  It computes the
 * post-state that the contract of nextchar (units/scan/nextchar.c, from C11 5.1.1.2p1 phase 2 and the C11 location
 * accounting) describes: all backslash-newline pairs at the stream position are skipped, the byte after them (or EOF)
 * becomes s->chr, one line per new-line byte consumed, column of the character on its physical line.
 * SCAN.nextchar runs BOTH on the same symbolic state and checks that the real nextchar() produces exactly the
 * stand-in's state (s->chr, stream position, line, column, buffer effect, pushback depth).  bufadd() is the real one
 * (SCAN.buf).
 */
void
nextchar_spec(struct scanner *s)
{
	size_t k, p;
	int c;

	if (s->usebuf)
		bufadd(&s->buf, s->chr);
	k = gs_splices_at(g_in_pos);
	p = g_in_pos + 2 * k;
	__CPROVER_assert(!GS_PAIR(p), "nextchar stand-in: at most GS_SPL consecutive backslash-newline pairs (harness bound)");
	c = GS_BYTE(p);
	++g_getc_calls;
	g_in_pos = c == LEX_EOF ? g_in_n : p + 1;
	g_unget_depth = c == '\\' && p + 1 < g_in_n ? 1 : 0;
	if (g_unget_depth > g_unget_max)
		g_unget_max = g_unget_depth;
	s->chr = c;
	s->loc.line += k + (c == '\n');
	s->loc.col = c == '\n' ? 0 : k > 0 ? 1 : s->loc.col + 1;
}

/* ---------------------------------------------------------------------------------------------------------------
 * Allocation model for units that define GS_SMALL_TOKENS (compile with -DVERIF_OWN_XMALLOC so that stubs/base.c leaves
 * the names free): these units start from a scanner whose spelling buffer has its initial capacity 256 (any state
 * after the first spelled token of a file) and the token window is far smaller, so the buffer cannot grow: growth is
 * ASSERTED unreachable (the obligation is discharged in every such unit).  The first allocation 0 -> 256 and doubling
 * are SCAN.buf's and SCAN.nextchar's business.  Reason: path merges inside scankind make buf.len symbolic, symbolic
 * execution then explores realloc (new object + copy of a symbolic-size object) in every loop iteration: 8-11 M
 * clauses for a 12-character identifier, worse when each iteration may create the buffer.
 */
#if defined(GS_SMALL_TOKENS) && !defined(VERIF_REPLAY)
void *
xmalloc(size_t n)
{
	void *p = malloc(n);
	__CPROVER_assume(p != 0);
	return p;
}

void *
xreallocarray(void *buf, size_t n, size_t m)
{
	(void)n; (void)m;
	__CPROVER_assert(0, "spelling buffer: an allocated buffer (capacity >= 256) does not grow for a token inside the window");
	__CPROVER_assume(0);
	return buf;
}
#endif

/* ---------------------------------------------------------------------------------------------------------------
 * Second stand-in, for the leaf scanners (number, ident, comment, ...) that only ever call nextchar(): the same step
 * expressed on the LOGICAL description of the file.  The scanner stands on logical character g_li; the next call
 * delivers logical character g_li + 1, having skipped the g_k[g_li + 1] splices in front of it.  On a stream laid out
 * by gs_build() this is what nextchar_spec() computes from the bytes (lemma unit SCAN.nextchar.abs checks the two
 * against each other for every position); the logical index stays a constant during symbolic execution, which is
 * what makes 12-character tokens tractable.
 */
size_t g_li;

void
nextchar_abs(struct scanner *s)
{
	size_t i = g_li + 1, k;
	int c;

	if (s->usebuf)
		bufadd(&s->buf, s->chr);
	__CPROVER_assert(i < GS_LMAX + 30, "nextchar stand-in: read stays inside the logical window (harness bound)");
	c = i < g_m ? g_L[i] : LEX_EOF;
	k = i <= g_m && i <= GS_LMAX ? g_k[i] : 0;
	g_li = i;
	++g_getc_calls;
	g_in_pos = GS_POS_AFTER(i);
	g_unget_depth = c == '\\' && g_in_pos < g_in_n ? 1 : 0;
	if (g_unget_depth > g_unget_max)
		g_unget_max = g_unget_depth;
	s->chr = c;
	s->loc.line += k + (c == '\n');
	s->loc.col = c == '\n' ? 0 : k > 0 ? 1 : s->loc.col + 1;
}

/* Physical line and column of every logical character, from those of character 0 (g_pl0, g_pc0) -- the logical-level
 * counterpart of g_nlcum/g_colof: character i is preceded by g_k[i] splices (each ends a physical line) and follows
 * character i-1 (which ends a line if it is a new-line).  Index g_m is the end of file.
 *   SYNC_ABS(s): the scanner's location is that of its character, in scan.c's convention for the new-line character
 *   (already on the next line, column 0).  nextchar_abs preserves it (that is its line/column rule).
 */
size_t g_pl0, g_pc0;
unsigned char g_plrel[GS_LMAX + 2];   /* physical lines between character 0 and character i (small: one table byte) */
unsigned char g_pcrel[GS_LMAX + 2];   /* column of character i relative to the start of its line, or to character 0 */
#define g_pline(i) (g_pl0 + g_plrel[i])
#define g_pcol(i)  ((size_t)g_pcrel[i] + (g_plrel[i] == 0 ? g_pc0 : 0))

static void
gs_abs_tables(void)
{
	size_t i;

	g_plrel[0] = 0;
	g_pcrel[0] = 0;
	for (i = 1; i <= GS_LMAX + 1; i++) {
		unsigned k = i <= GS_LMAX ? g_k[i] : 0;
		int prevnl = g_L[i - 1] == '\n';

		g_plrel[i] = g_plrel[i - 1] + prevnl + k;
		g_pcrel[i] = k > 0 || prevnl ? 1 : g_pcrel[i - 1] + 1;
	}
}
#define GS_IDX(i)     ((i) <= GS_LMAX + 1 ? (i) : GS_LMAX + 1)
#define SYNC_ABS(s)   ((s)->loc.line == g_pline(GS_IDX(g_li)) + ((s)->chr == '\n') && \
                       (s)->loc.col == ((s)->chr == '\n' ? 0 : g_pcol(GS_IDX(g_li))))

/* Stand-in for comment() in the units of its caller scankind (replace_calls comment:comment_spec): the post-state that
 * SCAN.comment proves for the real comment(), computed from the comment oracle of spec/lex.h: no comment -> false and
 * nothing changes; // -> stands on the new-line (or end of file); block comment -> stands on the character after the
 * terminator, or does not return (diagnostic) when there is none; one space recorded; location in step (SYNC_ABS).
 */
bool
comment_spec(struct scanner *s)
{
	size_t i = g_li < GS_LMAX + 1 ? g_li : GS_LMAX + 1, j;
	int e;

	if (s->chr == '/') {
		j = i + (size_t)lex_linecomment_end(g_L + i);
	} else if (s->chr == '*') {
		e = lex_blockcomment_end(g_L + i);
		if (e == 0)
			verif_noreturn();    /* error(&s->loc, "EOF in comment") */
		j = i + (size_t)e + 1;
	} else {
		return false;
	}
	if (j > g_m)
		j = g_m;
	g_li = j;
	s->chr = j < g_m ? g_L[j] : LEX_EOF;
	g_in_pos = GS_POS_AFTER(j);
	g_unget_depth = s->chr == '\\' && g_in_pos < g_in_n ? 1 : 0;
	s->loc.line = g_pline(GS_IDX(j)) + (s->chr == '\n');
	s->loc.col = s->chr == '\n' ? 0 : g_pcol(GS_IDX(j));
	s->sawspace = true;
	return true;
}

/* ungetc at the logical level (replace_calls ghost_ungetc:ungetc_abs, for units on nextchar_abs that can reach scankind's
   ".." pushback): the scanner's character goes back in front of the stream; the splices that preceded it stay consumed. */
unsigned g_k0[GS_LMAX + 1];   /* g_k as laid out (g_k itself is updated by a pushback) */

int
ungetc_abs(int c, FILE *f)
{
	__CPROVER_assert(f == ghost_file(), "ghost stdio: ungetc on the scanner's file");
	if (c == EOF)
		return EOF;
	__CPROVER_assert(g_li >= 1 && g_li <= GS_LMAX && c == g_L[g_li], "ghost stdio: ungetc pushes back the character that was read last");
	g_in_pos = g_off[g_li];
	if (g_li <= GS_LMAX)
		g_k[g_li] = 0;
	--g_li;
	++g_unget_depth;
	if (g_unget_depth > g_unget_max)
		g_unget_max = g_unget_depth;
	return (unsigned char)c;
}

/* ---------------------------------------------------------------------------------------------------------------
 * A scanner object as scanfrom() makes it and scan() leaves it between tokens (usebuf false, buf.len 0, the buffer
 * either never allocated or of its initial capacity), standing on logical character 0.
 */
static struct scanner gs_scanner;

static struct scanner *
gs_scanner_at0(bool sawspace, bool have_buf, bool sync, size_t line, size_t col)
{
	struct scanner *s = &gs_scanner;

	s->file = ghost_file();
	s->next = 0;
	s->usebuf = false;
	s->sawspace = sawspace;
	s->buf.len = 0;
	if (have_buf) {
		s->buf.cap = 1 << 8;
		s->buf.str = malloc(1 << 8);
		__CPROVER_assume(s->buf.str != 0);
	} else {
		s->buf.cap = 0;
		s->buf.str = 0;
	}
	s->loc.file = "<ghost>";
	s->chr = g_L[0];
	g_li = 0;
	g_in_pos = GS_POS_AFTER(0);
	if (sync) {
		/* location in step with the stream (needs gs_tables) */
		s->loc.line = g_line0 + g_nlcum[g_in_pos];
		s->loc.col = s->chr == '\n' ? 0 : s->chr == LEX_EOF ? g_colof(g_in_n) : g_colof(CHR_OFF);
	} else {
		s->loc.line = line;
		s->loc.col = col;
	}
	return s;
}

/* six logical characters from one scalar: byte i of w is character i (i < m), the rest is end of file */
static void
gs_logical_from(u64 w, size_t m)
{
	g_L[0] = (unsigned char)(w >> 0);
	g_L[1] = (unsigned char)(w >> 8);
	g_L[2] = (unsigned char)(w >> 16);
	g_L[3] = (unsigned char)(w >> 24);
	g_L[4] = (unsigned char)(w >> 32);
	g_L[5] = (unsigned char)(w >> 40);
#if GS_LMAX > 6
	g_L[6] = (unsigned char)(w >> 48);
	g_L[7] = (unsigned char)(w >> 56);
#endif
	(void)m;
}

/* splice counts from one scalar: GS_KBITS bits per logical character */
#define GS_KBITS 2
static void
gs_splices_from(u64 w)
{
	g_k[0] = (w >> 0) & 3; g_k[1] = (w >> 2) & 3; g_k[2] = (w >> 4) & 3; g_k[3] = (w >> 6) & 3;
	g_k[4] = (w >> 8) & 3; g_k[5] = (w >> 10) & 3; g_k[6] = (w >> 12) & 3;
#if GS_LMAX > 6
	g_k[7] = (w >> 14) & 3; g_k[8] = (w >> 16) & 3;
#endif
}
#define GS_K_OK1(i) (g_k[i] <= GS_KMAX)
#if GS_LMAX > 6
#define GS_K_OK (GS_K_OK1(0) && GS_K_OK1(1) && GS_K_OK1(2) && GS_K_OK1(3) && GS_K_OK1(4) && GS_K_OK1(5) && GS_K_OK1(6) && GS_K_OK1(7) && GS_K_OK1(8))
#else
#define GS_K_OK (GS_K_OK1(0) && GS_K_OK1(1) && GS_K_OK1(2) && GS_K_OK1(3) && GS_K_OK1(4) && GS_K_OK1(5) && GS_K_OK1(6))
#endif

#endif
