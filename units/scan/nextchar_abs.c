/* UNIT
{
 "id": "SCAN.nextchar.abs",
 "file": "scan.c", "function": "nextchar",
 "properties": {"C13": "contract", "C11": "contract", "C19": "safety"},
 "mode": "harness",
 "kind": "bounded",
 "bound": "files of at most 6 logical characters (all byte values), each preceded by 0..2 backslash-newline pairs (also before the end of file), every position in them; splice loop unwound 4 times",
 "unwindset": ["nextchar.0:4"],
 "cflags": ["-DG_IN_MAX=40"],
 "stubs": ["base.c", "ghost_stdio.c"],
 "cbmc_flags": ["--drop-unused-functions"],
 "timeout": 200,
 "expects": ["assertion_verif"],
 "assumes": ["getc/ungetc are the ghost stream of stubs/ghost_stdio.c",
             "the scanner stands on a character, not on the end of file (a further nextchar() at EOF only happens on paths that end in error(); the column then keeps counting, which no location uses)"]
}
*/
/*
 * Bridge between the byte level and the logical level: on a file laid out from logical characters g_L[] with g_k[i]
 * splices in front of character i, the REAL nextchar(), entered standing on logical character i, leaves the scanner
 * standing on logical character i+1 -- with exactly the state the logical stand-in nextchar_abs() (scan_common.h)
 * computes (the leaf-scanner units SCAN.number/.ident/.comment run on that stand-in), and with line and column in step
 * with the bytes consumed (C11).
 */
#define GS_LMAX 6
#define GS_KMAX 2
#define GS_SPL 4
#include "scan_common.h"

size_t g_i;        /* ghost: the logical character the scanner stands on */
int g_e_chr;
size_t g_e_pos, g_e_line, g_e_col, g_e_li;
unsigned g_e_unget;

#define PRE(X) \
	X(s != 0 && s->file == ghost_file()) \
	X(g_in_n <= G_IN_MAX && g_m <= GS_LMAX && gs_canonical() && g_i < g_m) \
	X(AT(s, g_i)) \
	X(SYNC_LINE(s) && SYNC_COL(s)) \
	X(!s->usebuf)

#define POST(X) \
	/* phase 2 at the logical level: the next logical character, all splices in front of it gone */ \
	X(AT(s, g_i + 1)) \
	/* C11: line and column stay in step with the bytes consumed */ \
	X(SYNC_LINE(s)) \
	X(SYNC_COL(s)) \
	/* exactly the state of the logical stand-in */ \
	X(s->chr == g_e_chr && g_in_pos == g_e_pos && g_e_li == g_i + 1) \
	X(s->loc.line == g_e_line && s->loc.col == g_e_col) \
	X(g_unget_depth == g_e_unget) \
	X(!s->usebuf && s->buf.len == 0) \
	CANARY(X, !(g_i == 2 && g_k[3] == 2 && g_L[3] == 'x'))

void
harness(void)
{
	static struct scanner sc2;
	struct scanner *s;
	IN(u64, in_chars);
	IN(size_t, in_m);
	IN(u64, in_splices);
	IN(size_t, in_i);
	IN(size_t, in_line0);
	IN(size_t, in_col0);

	__CPROVER_assume(in_m <= GS_LMAX && in_i < in_m);
	__CPROVER_assume(in_line0 < ((size_t)1 << 32) && in_col0 < ((size_t)1 << 32));
	gs_logical_from(in_chars, in_m);
	gs_splices_from(in_splices);
	__CPROVER_assume(GS_K_OK);
	g_line0 = in_line0;
	g_col0 = in_col0;
	gs_build(in_m);
	__CPROVER_assume(gs_canonical());
	s = gs_scanner_at0(false, false, true, 0, 0);
	/* move to logical character in_i */
	g_i = in_i;
	g_li = in_i;
	s->chr = g_L[g_i];
	g_in_pos = GS_POS_AFTER(g_i);
	s->loc.line = g_line0 + g_nlcum[g_in_pos];
	s->loc.col = s->chr == '\n' ? 0 : s->chr == LEX_EOF ? g_colof(g_in_n) : g_colof(CHR_OFF);

	/* the logical stand-in on a copy, then rewind */
	sc2 = *s;
	nextchar_abs(&sc2);
	g_e_chr = sc2.chr; g_e_pos = g_in_pos; g_e_line = sc2.loc.line; g_e_col = sc2.loc.col; g_e_li = g_li;
	g_e_unget = g_unget_depth;
	g_in_pos = GS_POS_AFTER(g_i); g_li = g_i; g_unget_depth = 0; g_unget_max = 0; g_getc_calls = 0;

	HCALL(PRE, POST, nextchar(s));
}
