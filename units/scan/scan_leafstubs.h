/*
 * Cut-off points for the leaf scanners of scankind() (replace_calls): each stand-in only RECORDS that it was entered
 * and with which scanner state; it consumes nothing.  Units that use them state in POST which leaf (if any) must have
 * been entered; the leaf scanners themselves are the business of SCAN.number / SCAN.ident / SCAN.comment / SCAN.escape.
 * comment() is different: it is called after every lone '/', and for a character that starts no comment the real one
 * returns false without touching anything (proved in SCAN.comment) -- that is what the stand-in does, and it ASSERTS
 * that no comment starts (the units that use it exclude "//" and "/" "*" by precondition).
 */
enum { LEAF_NONE = 0, LEAF_STRING = 1, LEAF_CHAR = 2, LEAF_IDENT = 3, LEAF_NUMBER = 4 };
int g_leaf;              /* which leaf scanner was entered (LEAF_*) */
unsigned g_leaf_calls;   /* how many times */
int g_leaf_chr;          /* s->chr on entry */
size_t g_leaf_pos;       /* stream position on entry */
size_t g_leaf_buflen;    /* s->buf.len on entry */
int g_leaf_buf0, g_leaf_buf1;   /* first two bytes of the collected spelling (-1 if absent) */
bool g_leaf_usebuf;
unsigned g_comment_calls;

static void
leaf_record(struct scanner *s, int which)
{
	g_leaf = which;
	++g_leaf_calls;
	g_leaf_chr = s->chr;
	g_leaf_pos = g_in_pos;
	g_leaf_usebuf = s->usebuf;
	g_leaf_buflen = s->buf.len;
	g_leaf_buf0 = s->buf.len > 0 ? s->buf.str[0] : -1;
	g_leaf_buf1 = s->buf.len > 1 ? s->buf.str[1] : -1;
}

int stub_stringlit(struct scanner *s) { leaf_record(s, LEAF_STRING); return TSTRINGLIT; }
enum tokenkind stub_charconst(struct scanner *s) { leaf_record(s, LEAF_CHAR); return TCHARCONST; }
int stub_ident(struct scanner *s) { leaf_record(s, LEAF_IDENT); return TIDENT; }
enum tokenkind stub_number(struct scanner *s) { leaf_record(s, LEAF_NUMBER); return TNUMBER; }

bool
stub_comment(struct scanner *s)
{
	++g_comment_calls;
	__CPROVER_assert(s->chr != '/' && s->chr != '*', "comment stand-in: entered only where no comment starts");
	return false;
}
