/* UNIT
{
 "id": "SCAN.nextchar",
 "file": "scan.c", "function": "nextchar", "also_functions": ["bufadd"],
 "properties": {"C13": "contract", "C11": "contract", "C19": "safety"},
 "mode": "dfcc", "enforce": "nextchar/nextchar_contract", "post_macro": "POST_NCU",
 "kind": "bounded",
 "bound": "every file of at most 8 bytes (all byte values), every read position in it, i.e. up to 4 consecutive backslash-newline pairs; splice loop fully unwound (6)",
 "unwindset": ["nextchar_wrapped_for_contract_checking.0:6"],
 "stubs": ["base.c", "ghost_stdio.c"],
 "cbmc_flags": ["--drop-unused-functions"],
 "timeout": 200,
 "expects": ["postcondition", "assigns"],
 "assumes": ["getc/ungetc are the ghost stream of stubs/ghost_stdio.c (ISO C 7.21.7 semantics; pushback of the byte just read)",
             "xreallocarray does not fail (stubs/base.c)"]
}
*/
#define GS_SPL 4
#include "scan_common.h"

bool g_colsync;    /* ghost: on entry the column is that of the byte in front of the read position */

#define PRE_NCU(X)  PRE_NC(X) \
	X(s->loc.line == g_line0 + g_nlcum[g_in_pos]) \
	X(g_colsync == (s->loc.col == (g_in_pos == 0 ? g_col0 : g_in[g_in_pos - 1] == '\n' ? 0 : g_colof[g_in_pos - 1])))

#define POST_NCU(X) POST_NC(X) \
	/* absolute form of the C11 accounting: the scanner location stays in step with the stream position */ \
	X(SYNC_LINE(s)) \
	X(IMP(g_colsync, SYNC_COL(s))) \
	X(g_unget_max <= 1) \
	CANARY(X, !(g_nc_k == 2 && g_nc_c == 'x' && g_nc_usebuf))

static void nextchar_contract(struct scanner *s)
REQUIRES(PRE_NCU)
__CPROVER_assigns(s->chr, s->loc.line, s->loc.col, s->buf.str, s->buf.len, s->buf.cap,
                  g_in_pos, g_unget_depth, g_unget_max, g_getc_calls)
__CPROVER_assigns(s->buf.str != 0: __CPROVER_object_whole(s->buf.str))
__CPROVER_frees(s->buf.str)
ENSURES(POST_NCU);

void
harness(void)
{
	static struct scanner sc;
	struct scanner *s = &sc;
	IN(u64, in_bytes);
	IN(size_t, in_n);
	IN(size_t, in_pos);
	IN(size_t, in_line0);
	IN(size_t, in_col0);
	IN(size_t, in_col);
	IN(int, in_chr0);
	IN(bool, in_usebuf);
	IN(size_t, in_cap);
	IN(size_t, in_len);

	__CPROVER_assume(in_n <= 8 && in_pos <= in_n);
	__CPROVER_assume(in_line0 < ((size_t)1 << 32) && in_col0 < ((size_t)1 << 32) && in_col < ((size_t)1 << 32));
	__CPROVER_assume(in_chr0 >= -1 && in_chr0 <= 255);
	__CPROVER_assume((in_cap == 0 || in_cap == 256 || in_cap == 512) && in_len <= in_cap);
	ghost_in_pack(0, in_bytes);
	ghost_in_reset(in_n);
	g_in_pos = in_pos;
	g_line0 = in_line0;
	g_col0 = in_col0;
	gs_tables();

	s->file = ghost_file();
	s->next = 0;
	s->chr = in_chr0;
	s->usebuf = in_usebuf;
	s->sawspace = false;
	s->buf.cap = in_cap;
	s->buf.len = in_len;
	s->buf.str = 0;
	if (in_cap) {
		s->buf.str = malloc(in_cap);
		__CPROVER_assume(s->buf.str != 0);
	}
	s->loc.file = "<ghost>";
	s->loc.line = g_line0 + g_nlcum[g_in_pos];
	s->loc.col = in_col;

	g_nc_pos0 = g_in_pos; g_nc_line = s->loc.line; g_nc_col = s->loc.col;
	g_nc_k = gs_splices_at(g_in_pos);
	g_nc_c = GS_BYTE(g_in_pos + 2 * g_nc_k);
	g_nc_usebuf = s->usebuf; g_nc_chr0 = s->chr; g_nc_len = s->buf.len;
	g_colsync = (s->loc.col == (g_in_pos == 0 ? g_col0 : g_in[g_in_pos - 1] == '\n' ? 0 : g_colof[g_in_pos - 1]));
	CALL(PRE_NCU, POST_NCU, nextchar(s));
}
