/* UNIT
{
 "id": "SCAN.nextchar",
 "file": "scan.c", "function": "nextchar", "also_functions": ["bufadd"],
 "properties": {"C13": "contract", "C11": "contract", "C19": "safety"},
 "mode": "dfcc", "enforce": "nextchar/nextchar_contract",
 "kind": "bounded",
 "bound": "every file of at most 8 bytes (all byte values), every read position in it, i.e. up to 4 consecutive backslash-newline pairs; splice loop fully unwound (6)",
 "unwindset": ["nextchar_wrapped_for_contract_checking.0:6"],
 "stubs": ["base.c", "ghost_stdio.c"],
 "cbmc_flags": ["--drop-unused-functions"],
 "timeout": 200,
 "expects": ["postcondition", "assigns"],
 "assumes": ["getc/ungetc are the ghost stream of stubs/ghost_stdio.c (ISO C 7.21.7 semantics; pushback of the byte just read)",
             "xreallocarray does not fail (stubs/base.c)"]
}
*/
#define GS_SPL 4
#define GS_TABMAX 8
#include "scan_common.h"

/*
 * Contract of nextchar(s)  (C11 5.1.1.2p1 phase 2; property C11 location accounting).  Ghosts:
 *   g_nc_k   number of backslash-newline pairs at the stream position on entry,
 *   g_nc_c   the byte after them (LEX_EOF at the end of the file) = the next logical character,
 *   g_e_*    the state the stand-in nextchar_spec() (scan_common.h) produces from the same pre-state.
 */
size_t g_nc_pos0, g_nc_k, g_nc_line, g_nc_col, g_nc_len;
int g_nc_c, g_nc_chr0;
bool g_nc_usebuf;
bool g_colsync;    /* on entry the column is that of the byte in front of the read position */
int g_e_chr;
size_t g_e_pos, g_e_line, g_e_col, g_e_dlen;
unsigned g_e_unget, g_e_ungetmax;

#define COL_BEFORE (g_in_pos == 0 ? g_col0 : g_in[g_in_pos - 1] == '\n' ? 0 : g_colof(g_in_pos - 1))

#define PRE(X) \
	X(s != 0 && s->file == ghost_file()) \
	X(g_in_n <= G_IN_MAX && g_in_pos <= g_in_n) \
	X(g_nc_pos0 == g_in_pos && g_nc_line == s->loc.line && g_nc_col == s->loc.col) \
	X(g_nc_k == gs_splices_at(g_in_pos) && !GS_PAIR(g_in_pos + 2 * g_nc_k)) \
	X(g_nc_c == GS_BYTE(g_in_pos + 2 * g_nc_k)) \
	X(g_nc_usebuf == s->usebuf && g_nc_chr0 == s->chr && g_nc_len == s->buf.len) \
	X(IMP(s->usebuf, BUF_OK(&s->buf))) \
	X(s->loc.line == g_line0 + g_nlcum[g_in_pos]) \
	X(g_colsync == (s->loc.col == COL_BEFORE)) \
	X(g_unget_max == 0)

#define POST(X) \
	/* phase 2: every backslash-newline pair in front of the character is deleted; the character itself is returned, \
	   a backslash that is not followed by new-line included */ \
	X(s->chr == g_nc_c) \
	X(g_in_pos == (g_nc_c == LEX_EOF ? g_in_n : g_nc_pos0 + 2 * g_nc_k + 1)) \
	/* C11: one line per new-line byte consumed (a splice is a physical line) */ \
	X(s->loc.line == g_nc_line + g_nc_k + (g_nc_c == '\n')) \
	/* column of the character on its physical line; 0 for new-line so that the next character gets column 1 */ \
	X(s->loc.col == (g_nc_c == '\n' ? 0 : g_nc_k > 0 ? 1 : g_nc_col + 1)) \
	/* absolute form: the scanner location stays in step with the stream position */ \
	X(SYNC_LINE(s)) \
	X(IMP(g_colsync, SYNC_COL(s))) \
	/* the previous character is appended to the token spelling iff the spelling is being collected */ \
	X(s->usebuf == g_nc_usebuf) \
	X(s->buf.len == g_nc_len + (g_nc_usebuf ? 1 : 0)) \
	X(IMP(g_nc_usebuf, s->buf.str[g_nc_len] == (unsigned char)g_nc_chr0 && BUF_OK(&s->buf))) \
	/* at most the one look-ahead byte behind a lone backslash is pushed back (ISO C guarantees one) */ \
	X(g_unget_depth == (g_nc_c == '\\' && g_nc_pos0 + 2 * g_nc_k + 1 < g_in_n ? 1 : 0)) \
	X(g_unget_max <= 1) \
	/* refinement: exactly the state of the stand-in that replaces nextchar in the callers' units */ \
	X(s->chr == g_e_chr && g_in_pos == g_e_pos) \
	X(s->loc.line == g_e_line && s->loc.col == g_e_col) \
	X(s->buf.len == g_nc_len + g_e_dlen) \
	X(g_unget_depth == g_e_unget && g_unget_max == g_e_ungetmax) \
	CANARY(X, !(g_nc_k == 2 && g_nc_c == 'x' && g_nc_usebuf))

static void nextchar_contract(struct scanner *s)
REQUIRES(PRE)
__CPROVER_assigns(s->chr, s->loc.line, s->loc.col, s->buf.str, s->buf.len, s->buf.cap,
                  g_in_pos, g_unget_depth, g_unget_max, g_getc_calls)
__CPROVER_assigns(s->buf.str != 0: __CPROVER_object_whole(s->buf.str))
__CPROVER_frees(s->buf.str)
ENSURES(POST);

void
harness(void)
{
	static struct scanner sc, sc2;
	struct scanner *s = &sc;
	IN(u64, in_bytes);
	IN(size_t, in_n);
	IN(size_t, in_pos);
	IN(size_t, in_line0);
	IN(size_t, in_col0);
	IN(size_t, in_col);
	IN(int, in_chr0);
	IN(bool, in_usebuf);
	IN(size_t, in_cap);
	IN(size_t, in_len);

	__CPROVER_assume(in_n <= 8 && in_pos <= in_n);
	__CPROVER_assume(in_line0 < ((size_t)1 << 32) && in_col0 < ((size_t)1 << 32) && in_col < ((size_t)1 << 32));
	__CPROVER_assume(in_chr0 >= -1 && in_chr0 <= 255);
	__CPROVER_assume((in_cap == 0 || in_cap == 256 || in_cap == 512) && in_len <= in_cap);
	ghost_in_pack(0, in_bytes);
	ghost_in_reset(in_n);
	g_in_pos = in_pos;
	g_line0 = in_line0;
	g_col0 = in_col0;
	gs_tables();

	s->file = ghost_file();
	s->next = 0;
	s->chr = in_chr0;
	s->usebuf = in_usebuf;
	s->sawspace = false;
	s->buf.cap = in_cap;
	s->buf.len = in_len;
	s->buf.str = 0;
	if (in_cap) {
		s->buf.str = malloc(in_cap);
		__CPROVER_assume(s->buf.str != 0);
	}
	s->loc.file = "<ghost>";
	s->loc.line = g_line0 + g_nlcum[g_in_pos];
	s->loc.col = in_col;

	g_nc_pos0 = g_in_pos; g_nc_line = s->loc.line; g_nc_col = s->loc.col;
	g_nc_k = gs_splices_at(g_in_pos);
	g_nc_c = GS_BYTE(g_in_pos + 2 * g_nc_k);
	g_nc_usebuf = s->usebuf; g_nc_chr0 = s->chr; g_nc_len = s->buf.len;
	g_colsync = (s->loc.col == COL_BEFORE);

	/* the stand-in on a copy of the pre-state (its own empty buffer), then the stream is rewound */
	sc2 = sc;
	sc2.buf.str = 0; sc2.buf.len = 0; sc2.buf.cap = 0;
	nextchar_spec(&sc2);
	g_e_chr = sc2.chr; g_e_pos = g_in_pos; g_e_line = sc2.loc.line; g_e_col = sc2.loc.col; g_e_dlen = sc2.buf.len;
	g_e_unget = g_unget_depth; g_e_ungetmax = g_unget_max;
	g_in_pos = in_pos; g_unget_depth = 0; g_unget_max = 0; g_getc_calls = 0;

	CALL(PRE, POST, nextchar(s));
}
