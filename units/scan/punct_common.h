/*
 * punct_common.h -- contract text and harness of SCAN.punct / SCAN.punct.digraph (scankind + op2/op3/op4 on an input
 * that starts with a punctuator).  The including unit defines PUNCT_SELECT (which inputs) and PUNCT_CANARY.
 */
#define GS_LMAX 6
#define GS_KMAX 1
#define GS_SPL 4
#ifndef PUNCT_SYNC
#define GS_NO_TABLES
#endif
#include "scan_common.h"
#include "scan_leafstubs.h"

const char *g_file0;
size_t g_n0;
bool g_saw0;
size_t g_loc_line0, g_loc_col0;
size_t g_j;            /* ghost: an arbitrary stream offset ("for all bytes of the file") */
unsigned char g_inj;   /* ghost: the byte there before the call */

#define L0 g_L[0]
#define L1 g_L[1]
#define L2 g_L[2]
#define L3 g_L[3]
#define PLEN lex_punct_len(L0, L1, L2, L3)
#undef RET
#define RET HRET

/* scan() calls scankind(scanner, &t->loc) with the spelling buffer idle and the scanner standing on the first
   character not yet tokenised */
#ifdef PUNCT_SYNC
/* C11: the scanner location stays in step with the bytes consumed (every new-line byte counted once) */
#define PUNCT_SYNC_POST(X) X(SYNC_LINE(s)) X(SYNC_COL(s))
#else
#define PUNCT_SYNC_POST(X)
#endif
#define PRE_PUNCT(X) \
	X(s != 0 && loc != 0 && s->file == ghost_file()) \
	X(g_in_n <= G_IN_MAX && g_m <= GS_LMAX && gs_canonical()) \
	X(!s->usebuf && s->buf.len == 0 && BUF_OK(&s->buf)) \
	X(AT(s, 0)) \
	X(g_saw0 == s->sawspace && g_loc_line0 == s->loc.line && g_loc_col0 == s->loc.col) \
	X(g_leaf_calls == 0 && g_unget_max == 0) \
	X(g_j < G_IN_MAX && g_inj == g_in[g_j]) \
	/* a punctuator starts here (6.4.6); PUNCT_SELECT splits the inputs between SCAN.punct and SCAN.punct.digraph */ \
	X(lex_class(L0, L1, L2) == LEX_C_PUNCT && PUNCT_SELECT)

#define POST_PUNCT(X) \
	/* 6.4p4 maximal munch: the LONGEST punctuator that is a prefix of the input */ \
	X(RET == lex_punct_kind(L0, L1, L2, L3)) \
	/* exactly its characters were consumed: the scanner stands on the character after it (one of look-ahead) */ \
	X(s->chr == g_L[PLEN]) \
	X(AT_LOOSE(s, PLEN)) \
	/* a punctuator has no collected spelling, skips no white space, enters no literal/identifier/number scanner */ \
	X(!s->usebuf && s->buf.len == 0) \
	X(s->sawspace == g_saw0) \
	X(g_leaf_calls == 0) \
	/* C11: the token's location is where its first character stands */ \
	X(loc->line == g_loc_line0 && loc->col == g_loc_col0) \
	/* frame: the scanner keeps its file and its place in the include stack; the file's bytes are not modified */ \
	X(s->file == ghost_file() && s->next == 0 && s->loc.file == g_file0) \
	X(g_in[g_j] == g_inj && g_in_n == g_n0) \
	PUNCT_SYNC_POST(X) \
	/* pushback depth needed from stdio */ \
	X(g_unget_max <= 2) \
	CANARY(X, !(PUNCT_CANARY))
