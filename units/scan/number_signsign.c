/* UNIT
{
 "id": "SCAN.number.signsign",
 "file": "scan.c", "function": "number",
 "properties": {"C13": "contract", "C19": "safety"},
 "mode": "harness", "post_macro": "POST_NUM",
 "replace_calls": {"nextchar": "nextchar_abs"},
 "kind": "bounded",
 "bound": "files of at most 12 logical characters (all byte values) from the first digit on, each preceded by 0 or 1 backslash-newline pair; loop of number() unwound 14 times",
 "unwindset": ["number.0:14"],
 "cflags": ["-DG_IN_MAX=40"],
 "stubs": ["base.c", "ghost_stdio.c"],
 "cbmc_flags": ["--drop-unused-functions"],
 "timeout": 300,
 "expects": ["assertion_verif"],
 "assumes": ["nextchar is taken by its stand-in nextchar_abs (scan_common.h; SCAN.nextchar + SCAN.nextchar.abs prove the real one refines it)",
             "harness mode (PRE assumed, POST asserted around the real call; under DFCC the 13-iteration loop with write-set checks produced 21 M clauses and did not finish in 300 s); frame stated by POST clauses",
             "identifier-nondigit = ASCII letters and underscore (no universal character names, no bytes >= 0x80)",
             "EXPECTED TO FAIL on the pinned tree (finding): only inputs with two adjacent sign characters in the window; number() never clears `allowsign` after a sign, so `1e+-x` is one token where C11 6.4.8 gives `1e+` `-` `x` (observable: #define x 5 / XS(1e+-x) stringifies to \"1e+-x\" instead of \"1e+-5\")"]
}
*/
#define NUM_SELECT (NUM_SIGNSIGN)
#define NUM_CANARY (g_L[0] == '1' && g_L[1] == '+' && g_L[2] == '+')
#include "number_common.h"

void
harness(void)
{
	struct scanner *s;
	IN(u64, in_c0);
	IN(u64, in_c1);
	IN(size_t, in_m);
	IN(u64, in_splices);
	IN(bool, in_dot);
	IN(bool, in_havebuf);
	IN(bool, in_saw);
	ING(size_t, g_j);

	__CPROVER_assume(in_m <= GS_LMAX && g_j < GS_LMAX);
	num_chars_from(in_c0, in_c1);
	num_splices_from(in_splices);
	g_line0 = 1; g_col0 = 0;
	gs_build(in_m);
	__CPROVER_assume(gs_canonical());
	s = gs_scanner_at0(in_saw, in_havebuf || in_dot, false, 1, 1);
	g_len0 = 0;
	if (in_dot) {
		/* scankind's ".digit" path: the '.' is already in the spelling buffer */
		s->buf.str[0] = '.';
		s->buf.len = 1;
		g_len0 = 1;
	}
	g_sawn = s->sawspace; g_file0 = s->loc.file;
	HCALLR(enum tokenkind, PRE_NUM, POST_NUM, number(s));
}
