/* UNIT
{
 "id": "SCAN.ident",
 "file": "scan.c", "function": "scankind", "also_functions": ["ident"],
 "properties": {"C13": "contract", "C19": "safety"},
 "mode": "harness",
 "replace_calls": {"nextchar": "nextchar_abs", "stringlit": "stub_stringlit", "charconst": "stub_charconst",
                   "number": "stub_number", "comment": "stub_comment"},
 "kind": "bounded",
 "bound": "files of at most 12 logical characters (all byte values) from the token's first character on, each preceded by 0 or 1 backslash-newline pair; ident() loop unwound 14 times, scankind's blank loop twice (not entered)",
 "unwindset": ["ident.0:14", "scankind.0:2"],
 "cflags": ["-DG_IN_MAX=40", "-DVERIF_OWN_XMALLOC"],
 "stubs": ["base.c", "ghost_stdio.c"],
 "cbmc_flags": ["--drop-unused-functions"],
 "timeout": 300,
 "expects": ["assertion_verif"],
 "assumes": ["nextchar is taken by its logical stand-in nextchar_abs (SCAN.nextchar + SCAN.nextchar.abs prove the real one refines it)",
             "stringlit/charconst are cut off at their entry (recording stand-ins); what they consume is SCAN.escape's business",
             "identifier-nondigit = ASCII letters and underscore (no universal character names, no bytes >= 0x80)",
             "u8 character constants are C23 (N2418, documented in /repo/doc/c23.md)",
             "the spelling buffer already has its initial capacity 256 (any scanner state after the first spelled token); growth is asserted unreachable for tokens inside the window (first allocation and doubling: SCAN.buf, SCAN.nextchar)",
             "harness mode; frame stated by POST clauses"]
}
*/
#define GS_LMAX 12
#define GS_KMAX 1
#define GS_SPL 4
#define GS_NO_TABLES
#define GS_ABS_ONLY
#define GS_SMALL_TOKENS
#include "scan_common.h"
#include "scan_leafstubs.h"
#undef RET
#define RET HRET

size_t g_j;            /* ghost: an arbitrary index into the token */
bool g_saw0;
size_t g_loc_line0, g_loc_col0;
const char *g_file0;

#define CLS   lex_class(g_L[0], g_L[1], g_L[2])
#define PFX   ((size_t)lex_prefix_len(g_L[0], g_L[1], g_L[2]))
#define ILEN  ((size_t)lex_ident_len(g_L))

#define PRE(X) \
	X(s != 0 && loc != 0 && s->file == ghost_file()) \
	X(g_in_n <= G_IN_MAX && g_m <= GS_LMAX && gs_canonical()) \
	X(!s->usebuf && s->buf.len == 0 && BUF_OK(&s->buf)) \
	X(AT(s, 0) && g_li == 0) \
	X(g_saw0 == s->sawspace && g_loc_line0 == s->loc.line && g_loc_col0 == s->loc.col && g_file0 == s->loc.file) \
	X(g_leaf_calls == 0 && g_j < GS_LMAX) \
	/* this unit: an identifier, or a (possibly prefixed) string literal or character constant starts here */ \
	X(CLS == LEX_C_IDENT || CLS == LEX_C_STRING || CLS == LEX_C_CHARCONST)

#define POST(X) \
	/* 6.4.2.1 + 6.4p4: the longest sequence of identifier characters is ONE identifier; u8/u/U/L not directly \
	   followed by a quote are ordinary identifier characters */ \
	X(IMP(CLS == LEX_C_IDENT, RET == TIDENT && g_leaf_calls == 0)) \
	X(IMP(CLS == LEX_C_IDENT, s->chr == g_L[ILEN] && g_li == ILEN && g_in_pos == GS_POS_AFTER(ILEN))) \
	X(IMP(CLS == LEX_C_IDENT, s->usebuf && s->buf.len == ILEN)) \
	X(IMP(CLS == LEX_C_IDENT && g_j < ILEN, s->buf.str[g_j] == (unsigned char)g_L[g_j])) \
	/* 6.4.5 / 6.4.4.4: an encoding prefix binds to the quote that IMMEDIATELY follows it: the literal scanner for \
	   that quote is entered standing on the quote, with exactly the prefix collected as spelling so far */ \
	X(IMP(CLS == LEX_C_STRING, RET == TSTRINGLIT && g_leaf == LEAF_STRING && g_leaf_calls == 1)) \
	X(IMP(CLS == LEX_C_CHARCONST, RET == TCHARCONST && g_leaf == LEAF_CHAR && g_leaf_calls == 1)) \
	X(IMP(CLS != LEX_C_IDENT, g_leaf_chr == g_L[PFX] && (g_leaf_chr == '"' || g_leaf_chr == '\'') && g_leaf_pos == GS_POS_AFTER(PFX))) \
	X(IMP(CLS != LEX_C_IDENT, g_leaf_buflen == PFX && g_leaf_usebuf == (PFX > 0))) \
	X(IMP(CLS != LEX_C_IDENT && PFX >= 1, g_leaf_buf0 == g_L[0])) \
	X(IMP(CLS != LEX_C_IDENT && PFX == 2, g_leaf_buf1 == g_L[1])) \
	/* no white space skipped; token location = location of its first character (C11) */ \
	X(s->sawspace == g_saw0) \
	X(loc->line == g_loc_line0 && loc->col == g_loc_col0 && loc->file == g_file0) \
	X(BUF_OK(&s->buf)) \
	/* frame */ \
	X(s->file == ghost_file() && s->next == 0 && s->loc.file == g_file0) \
	CANARY(X, !(g_L[0] == 'u' && g_L[1] == '8' && g_L[2] == 'x' && g_L[3] == '"'))

void
harness(void)
{
	static struct location tl;
	struct location *loc = &tl;
	struct scanner *s;
	IN(u64, in_c0);
	IN(u64, in_c1);
	IN(size_t, in_m);
	IN(u64, in_splices);
	IN(size_t, in_line);
	IN(size_t, in_col);
	IN(bool, in_saw);
	bool in_havebuf = true;   /* GS_SMALL_TOKENS: buffer of initial capacity, see scan_common.h */
	ING(size_t, g_j);

	__CPROVER_assume(in_m <= GS_LMAX && g_j < GS_LMAX);
	__CPROVER_assume(in_line < ((size_t)1 << 32) && in_col < ((size_t)1 << 32));
	g_L[0] = (unsigned char)(in_c0 >> 0); g_L[1] = (unsigned char)(in_c0 >> 8); g_L[2] = (unsigned char)(in_c0 >> 16);
	g_L[3] = (unsigned char)(in_c0 >> 24); g_L[4] = (unsigned char)(in_c0 >> 32); g_L[5] = (unsigned char)(in_c0 >> 40);
	g_L[6] = (unsigned char)(in_c0 >> 48); g_L[7] = (unsigned char)(in_c0 >> 56);
	g_L[8] = (unsigned char)(in_c1 >> 0); g_L[9] = (unsigned char)(in_c1 >> 8); g_L[10] = (unsigned char)(in_c1 >> 16);
	g_L[11] = (unsigned char)(in_c1 >> 24);
	g_k[0] = (in_splices >> 0) & 1; g_k[1] = (in_splices >> 1) & 1; g_k[2] = (in_splices >> 2) & 1;
	g_k[3] = (in_splices >> 3) & 1; g_k[4] = (in_splices >> 4) & 1; g_k[5] = (in_splices >> 5) & 1;
	g_k[6] = (in_splices >> 6) & 1; g_k[7] = (in_splices >> 7) & 1; g_k[8] = (in_splices >> 8) & 1;
	g_k[9] = (in_splices >> 9) & 1; g_k[10] = (in_splices >> 10) & 1; g_k[11] = (in_splices >> 11) & 1;
	g_k[12] = (in_splices >> 12) & 1;
	g_line0 = 1; g_col0 = 0;
	gs_build(in_m);
	__CPROVER_assume(gs_canonical());
	s = gs_scanner_at0(in_saw, in_havebuf, false, in_line, in_col);
	g_saw0 = s->sawspace; g_loc_line0 = s->loc.line; g_loc_col0 = s->loc.col; g_file0 = s->loc.file;
	HCALLR(int, PRE, POST, scankind(s, loc));
}
