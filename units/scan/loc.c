/* UNIT
{
 "id": "SCAN.loc",
 "file": "scan.c", "function": "scankind", "also_functions": ["op2", "op3", "op4"],
 "properties": {"C11": "contract", "C13": "contract", "C19": "safety"},
 "mode": "harness", "post_macro": "POST_LOC",
 "replace_calls": {"nextchar": "nextchar_abs", "ghost_ungetc": "ungetc_abs", "stringlit": "stub_stringlit",
                   "charconst": "stub_charconst", "ident": "stub_ident", "number": "stub_number", "comment": "comment_spec"},
 "kind": "bounded", "unwind": 24, "unwind_failure": "violation",
 "bound": "files of at most 8 logical characters (all byte values), each preceded by 0 or 1 backslash-newline pair: at most 2 separators (blank, // comment, block comment, in any order; 3 in the thorough tier) in front of the token; both backward gotos of scankind's skip loop unwound 3 (4) times",
 "unwindset": ["scankind.0:3", "scankind.1:3", "gs_build.0:50", "gs_build.1:50", "gs_build.2:50"],
 "cflags": ["-DG_IN_MAX=40", "-DVERIF_OWN_XMALLOC"],
 "stubs": ["base.c", "ghost_stdio.c"],
 "cbmc_flags": ["--drop-unused-functions"],
 "timeout": 300,
 "tiers": {"thorough": {"cflags": ["-DG_IN_MAX=40", "-DVERIF_OWN_XMALLOC", "-DLOC_SEPS=3"], "unwindset": ["scankind.0:4", "scankind.1:4", "gs_build.0:50", "gs_build.1:50", "gs_build.2:50"], "timeout": 900}},
 "expects": ["assertion_verif"],
 "assumes": ["nextchar/ungetc are taken by their logical stand-ins nextchar_abs/ungetc_abs (SCAN.nextchar + SCAN.nextchar.abs prove the real nextchar refines the former)",
             "comment() is taken by its stand-in comment_spec (SCAN.comment proves the real one refines it)",
             "the literal, identifier and number scanners are cut off at their entry (SCAN.number, SCAN.ident)",
             "inputs whose token is the new-line token are excluded here and stated in SCAN.loc.newline (finding: its location is reported as the NEXT line, column 0); tokens spelled as digraphs: SCAN.punct.digraph",
             "the spelling buffer already has its initial capacity (scan_common.h GS_SMALL_TOKENS)",
             "harness mode; frame stated by POST clauses"]
}
*/
#define LOC_SELECT (T < 0 || CLS_T != LEX_C_NEWLINE)
#define LOC_CANARY (g_L[0] == ' ' && g_L[1] == '/' && g_L[2] == '*' && g_L[3] == '\n' && g_L[4] == '*' && g_L[5] == '/' && g_L[6] == '+' && g_L[7] == '+' && g_k[6] == 1)
#include "loc_common.h"

void
harness(void)
{
	static struct location tl;
	struct location *loc = &tl;
	struct scanner *s;
	IN(u64, in_chars);
	IN(size_t, in_m);
	IN(u64, in_splices);
	IN(size_t, in_line);
	IN(size_t, in_col);
	IN(bool, in_saw);

	__CPROVER_assume(in_m <= GS_LMAX);
	__CPROVER_assume(in_line < ((size_t)1 << 32) && in_col >= 1 && in_col < ((size_t)1 << 32));
	loc_inputs(in_chars, in_splices);
	g_line0 = 1; g_col0 = 0;
	gs_build(in_m);
	__CPROVER_assume(gs_canonical());
	g_pl0 = in_line; g_pc0 = in_col;
	gs_abs_tables();
	s = gs_scanner_at0(in_saw, true, false, g_pl0 + (g_L[0] == '\n'), g_L[0] == '\n' ? 0 : g_pc0);
	g_saw0 = s->sawspace; g_file0 = s->loc.file;
	g_T = loc_T();
	__CPROVER_assume(g_T < 0 || lex_skip_step(g_L, g_T) == g_T);
	g_no_error = T >= 0;
	HCALLR(int, PRE_LOC, POST_LOC, scankind(s, loc));
}
