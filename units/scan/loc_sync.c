/* UNIT
{
 "id": "SCAN.loc.sync",
 "file": "scan.c", "function": "scankind", "also_functions": ["op2", "op3", "op4"],
 "properties": {"C11": "contract"},
 "mode": "harness", "post_macro": "POST_PUNCT",
 "replace_calls": {"nextchar": "nextchar_spec", "stringlit": "stub_stringlit", "charconst": "stub_charconst",
                   "ident": "stub_ident", "number": "stub_number", "comment": "stub_comment"},
 "kind": "proof-const-unwind", "unwind": 24, "unwind_failure": "violation",
 "bound": "a punctuator is at most 4 characters + 1 of look-ahead: the window is 6 symbolic logical characters (any bytes, any shorter file), each preceded by 0 or 1 backslash-newline pair; blank-skipping loop of scankind unwound twice (not entered)",
 "unwindset": ["scankind.0:2", "gs_build.0:50", "gs_build.1:50", "gs_build.2:50"],
 "stubs": ["base.c", "ghost_stdio.c"],
 "cbmc_flags": ["--drop-unused-functions"],
 "timeout": 200,
 "expects": ["assertion_verif"],
 "assumes": ["EXPECTED TO FAIL on the pinned tree (finding): same harness as SCAN.punct plus the clause that scankind leaves the scanner location in step with the bytes consumed; in the two-dots case scankind restores s->loc to the second dot after nextchar() has already consumed the backslash-newline pairs in front of the third character, so those physical lines are never counted: after two dots, a splice and any character, every later diagnostic is one line short (confirmed on the binary: #pragma foo ..<backslash><newline>bar<newline>int x = @; reports <stdin>:2:9 instead of 3:9)"]
}
*/
#define PUNCT_SYNC
#define PUNCT_SELECT (!lex_starts_digraph(g_L[0], g_L[1]))
#define PUNCT_CANARY (g_L[0] == '.' && g_L[1] == '.' && g_L[2] == '.' && g_k[2] == 1)
#include "punct_common.h"

/* (the harness is in the unit file itself: the runner collects the IN() names from here for the native replay) */
void
harness(void)
{
	static struct location tl;
	struct location *loc = &tl;
	struct scanner *s;
	IN(u64, in_chars);
	IN(size_t, in_m);
	IN(u64, in_splices);
	IN(size_t, in_line0);
	IN(size_t, in_col0);
	IN(bool, in_saw);
	IN(bool, in_havebuf);

	__CPROVER_assume(in_m <= GS_LMAX);
	__CPROVER_assume(in_line0 < ((size_t)1 << 32) && in_col0 < ((size_t)1 << 32));
	gs_logical_from(in_chars, in_m);
	gs_splices_from(in_splices);
	__CPROVER_assume(GS_K_OK);
	g_line0 = in_line0;
	g_col0 = in_col0;
	gs_build(in_m);
	__CPROVER_assume(gs_canonical());
	s = gs_scanner_at0(in_saw, in_havebuf, true, 0, 0);
	g_saw0 = s->sawspace; g_loc_line0 = s->loc.line; g_loc_col0 = s->loc.col; g_file0 = s->loc.file; g_n0 = g_in_n;
	ING(size_t, g_j);
	__CPROVER_assume(g_j < G_IN_MAX);
	g_inj = g_in[g_j];
	HCALLR(int, PRE_PUNCT, POST_PUNCT, scankind(s, loc));
}
