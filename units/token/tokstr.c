/* UNIT
{
 "id": "TOKEN.tokstr",
 "file": "token.c", "function": "tokstr",
 "properties": {"C13": "contract", "C19": "safety"},
 "mode": "harness", "noreturn_macros": false,
 "kind": "proof-const-unwind",
 "bound": "complete check of the table: every token kind from TALIGNAS to THASHHASH (constant loop of 119 kinds, copy loop of 17 bytes)",
 "unwind": 125,
 "cbmc_flags": ["--drop-unused-functions"],
 "timeout": 200,
 "expects": ["assertion_verif"],
 "assumes": ["tokstr is a data table, not a function: the obligations are assertions over its initialiser as compiled from the real token.c",
             "T_BITINT is spelled _BitInt (C23 6.4.1); that keyword() never produces the kind is PP.keyword.bitint's finding"]
}
*/
#include "token.c"
#include "verif.h"
#include "lex.h"

/*
 * tokstr[kind] is the spelling cproc prints for a token that carries no spelling of its own (tokenprint(), -E output,
 * diagnostics, stringize in pp.c).  C13 "token spelling table": every keyword kind and every punctuator kind has a
 * non-NULL spelling, and that spelling, read back through the C11 oracle, IS that token: a keyword spelling whose
 * keyword kind is this kind (6.4.1), the punctuator (6.4.6) of this kind and of exactly this length.  Punctuators
 * additionally have their primary (non-digraph) spelling.
 */
static unsigned char g_sp[17];

static void
spelling_of(int kind)
{
	const char *p = tokstr[kind];
	int i, end = 0;

	for (i = 0; i < 17; i++) {
		if (!end && p[i] == 0)
			end = 1;
		g_sp[i] = end ? 0 : (unsigned char)p[i];
	}
}

#define CH(i) (g_sp[i] ? (int)g_sp[i] : LEX_EOF)

void
harness(void)
{
	int kind;
	IN(int, in_kind);   /* only used to make the canary input-dependent */

	__CPROVER_assert(LEN(tokstr) == THASHHASH + 1, "POST the table covers every token kind up to the last punctuator");
	for (kind = TALIGNAS; kind <= THASHHASH; kind++) {
		__CPROVER_assert(tokstr[kind] != 0, "POST every keyword and punctuator kind has a spelling");
		__CPROVER_assume(tokstr[kind] != 0);
		spelling_of(kind);
		__CPROVER_assert(g_sp[16] == 0, "POST spellings are shorter than 17 bytes (64-byte diagnostic buffers)");
		if (kind <= T__ATTRIBUTE__) {
			/* keyword kinds */
			__CPROVER_assert(kind == T_BITINT ? lex_is_bitint(g_sp) : lex_keyword_kind(g_sp) == kind,
			                 "POST a keyword kind is spelled by a keyword spelling of that very keyword (C11 6.4.1 / C23 / GNU)");
		} else {
			/* punctuator kinds */
			__CPROVER_assert(lex_punct_kind(CH(0), CH(1), CH(2), CH(3)) == kind,
			                 "POST a punctuator kind is spelled by the punctuator of that kind (C11 6.4.6)");
			__CPROVER_assert(g_sp[lex_punct_len(CH(0), CH(1), CH(2), CH(3))] == 0 && g_sp[0] != 0,
			                 "POST the spelling is exactly one punctuator");
			__CPROVER_assert(!lex_punct_isdigraph(CH(0), CH(1), CH(2), CH(3)),
			                 "POST punctuators are printed with their primary spelling, not a digraph");
		}
#ifdef VERIF_CANARY
		__CPROVER_assert(!(kind == in_kind && kind == TSHLASSIGN && g_sp[2] == '='), "POST CANARY");
#endif
	}
	/* the kinds that carry their own spelling have none in the table (tokenprint/tokendesc rely on lit for them) */
	__CPROVER_assert(tokstr[TIDENT] == 0 && tokstr[TNUMBER] == 0 && tokstr[TCHARCONST] == 0 && tokstr[TSTRINGLIT] == 0,
	                 "POST literal-carrying kinds have no table spelling");
}
