/* UNIT
{
 "id": "PP.stringize",
 "file": "pp.c", "function": "stringize",
 "properties": {"C12": "contract", "C19": "safety"},
 "mode": "harness",
 "link_repo": ["token.c"], "noreturn_macros": false, "stubs": [],
 "unwind": 9,
 "kind": "bounded",
 "bound": "one token appended to a string-in-progress of 1..2 characters; token spellings of 1..2 characters (3 for the punctuator <<=); every token kind that carries a spelling, plus punctuators spelled from the token table",
 "timeout": 300,
 "assumes": ["arrayaddbuf is a fixed-capacity append (its growth is UTIL.arrayaddbuf/UTIL.arrayadd's business)"]
}
*/
#include "pp.c"
#include "verif.h"

/* append stand-in: UTIL.arrayaddbuf proves the real one appends exactly these bytes */
void arrayaddbuf(struct array *a, const void *src, size_t n) { size_t i; __CPROVER_assert(a->len + n <= a->cap, "stays inside the buffer this unit provides"); for (i = 0; i < n; i++) ((char *)a->val)[a->len + i] = ((const char *)src)[i]; a->len += n; }
void fatal(const char *fmt, ...) { __CPROVER_assume(0); }
void warn(const char *fmt, ...) { }
void *xmalloc(size_t n) { void *p = malloc(n); __CPROVER_assume(p != 0); return p; }
void *xreallocarray(void *b, size_t n, size_t m) { void *p = realloc(b, n * m); __CPROVER_assume(p != 0); return p; }

/*
 * C11 6.10.3.2p2 (# operator): "... the spelling of the corresponding argument's preprocessing token sequence. Each
 * occurrence of white space between the argument's preprocessing tokens becomes a single space character ... White space
 * before the first preprocessing token and after the last ... is deleted. Otherwise, the original spelling of each
 * preprocessing token is retained ..., except for ... a \ character is inserted before each " and \ character of a
 * character constant or string literal".
 */
void
harness(void)
{
	static struct array buf; static struct token t;
	static char old[4], lit[4];
	char want[12];
	unsigned n = 0, i, nw;
	IN(unsigned, in_oldlen); IN(u8, in_o1); IN(u8, in_o2);
	IN(int, in_kind); IN(bool, in_space); IN(unsigned, in_litlen); IN(u8, in_l0); IN(u8, in_l1); IN(u8, in_l2);
	const char *sp;

	__CPROVER_assume(in_oldlen >= 1 && in_oldlen <= 2 && in_litlen >= 1 && in_litlen <= 2);
	__CPROVER_assume(in_o1 && in_o2 && in_l0 && in_l1 && in_l2);
	__CPROVER_assume(in_kind == TIDENT || in_kind == TNUMBER || in_kind == TSTRINGLIT || in_kind == TCHARCONST || in_kind == TSHLASSIGN || in_kind == TCOMMA || in_kind == TNEWLINE);
	old[0] = '"'; old[1] = in_o1; old[2] = in_o2;
	static char storage[16]; buf.val = storage; buf.cap = 16; buf.len = in_oldlen;
	for (i = 0; i < in_oldlen; i++) ((char *)buf.val)[i] = old[i];
	lit[0] = in_l0; lit[1] = in_litlen > 1 ? in_l1 : 0; lit[2] = in_litlen > 2 ? in_l2 : 0; lit[3] = 0;
	t.kind = in_kind; t.space = in_space; t.hide = false;
	t.lit = (in_kind == TIDENT || in_kind == TNUMBER || in_kind == TSTRINGLIT || in_kind == TCHARCONST) ? &lit[0] : (char *)0;

	/* oracle */
	for (i = 0; i < in_oldlen; i++) want[n++] = old[i];
	if ((in_space || in_kind == TNEWLINE) && in_oldlen > 1 && old[in_oldlen - 1] != ' ')
		want[n++] = ' ';
	sp = t.lit ? t.lit : in_kind == TSHLASSIGN ? "<<=" : in_kind == TCOMMA ? "," : 0;
	if (sp)
		for (i = 0; sp[i]; i++) {
			if ((in_kind == TSTRINGLIT || in_kind == TCHARCONST) && (sp[i] == '\\' || sp[i] == '"'))
				want[n++] = '\\';
			want[n++] = sp[i];
		}
	nw = n;

	stringize(&buf, &t);

	__CPROVER_assert(buf.len == nw, "length: old text, at most ONE separating space (none right after the opening quote), the spelling with its escapes");
	for (i = 0; i < nw && i < 12; i++)
		__CPROVER_assert(((char *)buf.val)[i] == want[i], "spelling retained; \\\\ inserted before each \" and \\\\ of string literals and character constants only");
#ifdef VERIF_CANARY
	__CPROVER_assert(!(in_kind == TSTRINGLIT && in_l0 == '"'), "CANARY");
#endif
}
