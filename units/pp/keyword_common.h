/*
 * Shared harness/contract text of PP.keyword and PP.keyword.bitint: pp.c keyword() against the keyword oracle of
 * spec/lex.h (C11 6.4.1, C23 6.4.1 additions, GNU alternate spellings).
 *
 * keyword(&tok) is called by next() on every token of kind TIDENT; tok->lit is the malloc'ed, NUL-terminated
 * spelling produced by scan.c bufget().  The spelling is symbolic: ANY string of at most 16 bytes (the longest keyword
 * spelling, "_Static_assert", has 14), bytes after the terminator arbitrary.
 */
#include "pp.c"
#include "verif.h"
#include "lex.h"

#ifdef VERIF_REPLAY
#define __CPROVER_frees(...)
#endif

#define KW_MAX 16
unsigned char g_b[KW_MAX + 1];   /* ghost: the spelling before the call */
char *g_lit;                     /* ghost: tok->lit before the call     */

#define B_EQ(i) (g_b[i] == (unsigned char)tok->lit[i])
#define B_SAME  (B_EQ(0) && B_EQ(1) && B_EQ(2) && B_EQ(3) && B_EQ(4) && B_EQ(5) && B_EQ(6) && B_EQ(7) && B_EQ(8) && \
                 B_EQ(9) && B_EQ(10) && B_EQ(11) && B_EQ(12) && B_EQ(13) && B_EQ(14) && B_EQ(15) && B_EQ(16))

#define PRE_KW(X) \
	X(tok != 0 && tok->kind == TIDENT) \
	X(tok->lit != 0 && tok->lit == g_lit) \
	X(g_b[KW_MAX] == 0) \
	X(B_SAME)

#pragma CPROVER check push
#pragma CPROVER check disable "pointer"
#pragma CPROVER check disable "bounds"
#pragma CPROVER check disable "pointer-overflow"
static void
kw_fill(struct token *tok, u64 w0, u64 w1)
{
	char *p = malloc(KW_MAX + 1);

	__CPROVER_assume(p != 0);
	p[0] = w0; p[1] = w0 >> 8; p[2] = w0 >> 16; p[3] = w0 >> 24; p[4] = w0 >> 32; p[5] = w0 >> 40; p[6] = w0 >> 48; p[7] = w0 >> 56;
	p[8] = w1; p[9] = w1 >> 8; p[10] = w1 >> 16; p[11] = w1 >> 24; p[12] = w1 >> 32; p[13] = w1 >> 40; p[14] = w1 >> 48; p[15] = w1 >> 56;
	p[16] = 0;
	g_b[0] = p[0]; g_b[1] = p[1]; g_b[2] = p[2]; g_b[3] = p[3]; g_b[4] = p[4]; g_b[5] = p[5]; g_b[6] = p[6]; g_b[7] = p[7];
	g_b[8] = p[8]; g_b[9] = p[9]; g_b[10] = p[10]; g_b[11] = p[11]; g_b[12] = p[12]; g_b[13] = p[13]; g_b[14] = p[14]; g_b[15] = p[15];
	g_b[16] = 0;
	tok->kind = TIDENT;
	tok->lit = p;
	g_lit = p;
	tok->hide = false;
	tok->space = false;
	tok->loc.file = "<ghost>";
	tok->loc.line = 1;
	tok->loc.col = 1;
}
#pragma CPROVER check pop
