/* UNIT
{
 "id": "PP.keyword.bitint",
 "file": "pp.c", "function": "keyword",
 "properties": {"C13": "contract"},
 "mode": "dfcc", "enforce": "keyword/keyword_contract", "post_macro": "POST_KWB",
 "kind": "proof-const-unwind",
 "bound": "the one spelling _BitInt; bisection loop unwound 8 times, strcmp 18",
 "unwindset": ["keyword_wrapped_for_contract_checking.0:8", "strcmp.0:18"],
 "cbmc_flags": ["--drop-unused-functions"],
 "timeout": 200,
 "expects": ["postcondition"],
 "assumes": ["EXPECTED TO FAIL on the pinned tree (finding): cc.h declares T_BITINT and token.c spells it \"_BitInt\", C23 6.4.1 lists _BitInt as a keyword, but keyword()'s table has no entry for it, so the kind T_BITINT is unreachable and `int _BitInt;` is accepted as a declaration of an identifier"]
}
*/
#include "keyword_common.h"

/* C23 6.4.1: _BitInt is a keyword; cproc's own token kind for it is T_BITINT (token.c: tokstr[T_BITINT] == "_BitInt") */
#define POST_KWB(X) \
	X(IMP(lex_is_bitint(g_b), tok->kind == T_BITINT)) \
	X(IMP(lex_is_bitint(g_b), tok->lit == 0)) \
	CANARY(X, !(g_b[0] == '_' && g_b[1] == 'B' && g_b[2] == 'i'))

static void keyword_contract(struct token *tok)
REQUIRES(PRE_KW)
__CPROVER_assigns(tok->kind, tok->lit)
ENSURES(POST_KWB);

void
harness(void)
{
	static struct token t;
	struct token *tok = &t;
	IN(u64, in_w0);
	IN(u64, in_w1);

	kw_fill(tok, in_w0, in_w1);
	__CPROVER_assume(lex_is_bitint(g_b));
	CALL(PRE_KW, POST_KWB, keyword(tok));
}
