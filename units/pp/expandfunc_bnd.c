/* UNIT
{
 "id": "PP.expandfunc.bnd",
 "file": "pp.c", "function": "expandfunc",
 "properties": {"C12": "contract", "C10": "contract", "C19": "safety"},
 "mode": "harness",
 "unwind": 9,
 "replace_calls": {"rawnext": "stub_rawnext", "expand": "stub_expand", "stringize": "rec_stringize"},
 "variants": {"p0": ["-DV_NP=0", "-DV_VAR=0", "-DV_STR=0"], "p1": ["-DV_NP=1", "-DV_VAR=0", "-DV_STR=0"], "p2": ["-DV_NP=2", "-DV_VAR=0", "-DV_STR=0"],
              "p2var": ["-DV_NP=2", "-DV_VAR=1", "-DV_STR=0"], "p1var": ["-DV_NP=1", "-DV_VAR=1", "-DV_STR=0"], "p2str": ["-DV_NP=2", "-DV_VAR=0", "-DV_STR=1"], "p1nl": ["-DV_NP=1", "-DV_VAR=0", "-DV_STR=0", "-DV_NL=1"]},
 "tiers": {"thorough": {"cflags": ["-DNS=8"], "unwind": 11, "timeout": 1800, "bound": "as quick with up to 8 tokens"}},
 "kind": "bounded",
 "bound": "the tokens after the '(' of one invocation: up to 6 tokens drawn from {number, ',', '(', ')'} (variant p1nl: {number, new-line, ')'}) then end of file; macros with 0, 1 or 2 parameters, the last optionally `...`, the first optionally stringized; no macro invocation inside the arguments (expand() answers `not replaced`, so the expansion depth is constant)",
 "timeout": 600, "replay": false,
 "assumes": ["rawnext() is a token-script stand-in; stringize() is replaced by a recorder (PP.stringize proves the spelling); arrayaddbuf() is a fixed-capacity append (UTIL.arrayaddbuf); xreallocarray() hands out a static array (UTIL.xreallocarray)"]
}
*/
#include <stdlib.h>
#include "pp.c"
#include "verif.h"

struct token tok;
extern int g_no_error;

#ifndef V_NL
#define V_NL 0
#endif
#ifndef NS
#define NS 6
#endif
static struct token script[NS + 2];
static unsigned s_n, s_pos;
struct token *stub_rawnext(void) { __CPROVER_assert(s_pos <= s_n, "nothing is read after the end of file"); return &script[s_pos++]; }
bool stub_expand(struct token *t) { return false; }
static unsigned g_nstr; static int g_strcol[NS];
void rec_stringize(struct array *buf, struct token *t) { if (g_nstr < NS) g_strcol[g_nstr] = t->loc.col; g_nstr++; }

static struct token tokbuf[NS + 1]; static char strbuf[8];
void
arrayaddbuf(struct array *a, const void *src, size_t n)
{
	if (!a->val) {
		if (n == sizeof(struct token)) { a->val = tokbuf; a->cap = sizeof(tokbuf); }
		else { a->val = strbuf; a->cap = sizeof(strbuf); }
	}
	__CPROVER_assert(a->cap - a->len >= n, "stays inside the buffer this unit provides");
	if (n == sizeof(struct token)) *(struct token *)((char *)a->val + a->len) = *(const struct token *)src;
	else { size_t i; for (i = 0; i < n && i < 2; i++) ((char *)a->val)[a->len + i] = ((const char *)src)[i]; }
	a->len += n;
}
static struct macroarg argbuf[3];
void *xreallocarray(void *b, size_t n, size_t m) { __CPROVER_assert(b == 0 && n <= 3 && m == sizeof(struct macroarg), "argument table for nparam arguments"); return argbuf; }
void *xmalloc(size_t n) { void *p = malloc(n); __CPROVER_assume(p != 0); return p; }

/*
 * C11 6.10.3p11: "The sequence of preprocessing tokens bounded by the outside-most matching parentheses forms the list of
 * arguments for the function-like macro.  The individual arguments within the list are separated by comma preprocessing
 * tokens, but comma preprocessing tokens between matching inner parentheses do not separate arguments."  p12: with `...`
 * the trailing arguments "including any separating comma preprocessing tokens, are merged to form a single item".
 * p4: the number of arguments shall equal the number of parameters (more than the named ones when variadic); an invocation
 * that does not is diagnosed, as is an unterminated one (p11 requires the closing parenthesis).
 */
void
harness(void)
{
	static struct macro mac; static struct macroparam params[2]; static char n_a[] = "a", n_b[] = "b";
	IN(unsigned, in_n); IN(int, in_k0); IN(int, in_k1); IN(int, in_k2); IN(int, in_k3); IN(int, in_k4); IN(int, in_k5);
	int k[NS]; unsigned i, np = V_NP;
	/* oracle state */
	unsigned cur = 0, depth = 0, cnt[3] = {0, 0, 0}, start[3] = {0, 0, 0}, end = NS + 1; bool done = false, toomany = false;

	__CPROVER_assume(in_n <= NS);
	k[0] = in_k0; k[1] = in_k1; k[2] = in_k2; k[3] = in_k3; k[4] = in_k4; k[5] = in_k5;
#if NS > 6
	{ IN(int, in_k6); IN(int, in_k7); k[6] = in_k6; k[7] = in_k7; }
#endif
	for (i = 0; i < NS; i++) {
#if V_NL
		__CPROVER_assume(k[i] == TNUMBER || k[i] == TNEWLINE || k[i] == TRPAREN);
#else
		__CPROVER_assume(k[i] == TNUMBER || k[i] == TCOMMA || k[i] == TLPAREN || k[i] == TRPAREN);
#endif
		script[i].kind = i < in_n ? k[i] : TEOF; script[i].loc.col = i; script[i].lit = 0; script[i].space = false; script[i].hide = false;
	}
	script[NS].kind = TEOF; script[NS].loc.col = NS; script[NS + 1].kind = TEOF; script[NS + 1].loc.col = NS + 1;
	s_n = NS + 1; s_pos = 0; g_nstr = 0;
	params[0].name = n_a; params[0].flags = PARAMTOK | (V_STR ? PARAMSTR : 0);
	params[1].name = n_b; params[1].flags = PARAMTOK;
	if (V_VAR) params[np - 1].flags |= PARAMVAR;
	mac.kind = MACROFUNC; mac.name = "f"; mac.param = params; mac.nparam = np; mac.hide = false; mac.arg = 0;
	macrodepth = 0;
	{ IN(size_t, in_junk0); IN(size_t, in_junk1); argbuf[0].ntoken = in_junk0; argbuf[1].ntoken = in_junk1; }  /* fresh storage is not zeroed */

	/* what 6.10.3p11/p12 say about this token sequence */
	for (i = 0; i < NS; i++) {
		if (i < in_n && !done) {
			bool var = V_VAR && cur == np - 1;
			if (depth == 0 && k[i] == TRPAREN) { done = true; end = i; }
			else if (depth == 0 && k[i] == TCOMMA && !var && np > 0) { cur++; if (cur >= np) { toomany = true; done = true; } else start[cur] = i + 1; }
			else {
				if (np == 0) { toomany = true; done = true; }
				else { if (k[i] == TLPAREN) depth++; if (k[i] == TRPAREN) depth--; cnt[cur]++; }
			}
		}
	}
	{
		bool wf = done && !toomany && end <= NS && (np == 0 || cur + 1 == np);
		g_no_error = wf;

		expandfunc(&mac);

		__CPROVER_assert(wf, "6.10.3p4/p11: an invocation with too few or too many arguments, or without its closing parenthesis, is diagnosed");
		__CPROVER_assume(wf);
	}
	__CPROVER_assert(s_pos == end + 1, "the invocation ends at the parenthesis matching the opening one: exactly the tokens up to it are consumed");
#if V_NL
	{
		/* 6.10.3p10: "Within the sequence of preprocessing tokens making up an invocation of a function-like macro, new-line is
		   considered a normal white-space character": it is not a token of the argument; the token after it is preceded by white space */
		unsigned j = 0; bool ws = false;
		for (i = 0; i < NS; i++)
			if (i < end) {
				if (k[i] == TNEWLINE) ws = true;
				else {
					__CPROVER_assert(j < mac.arg[0].ntoken && mac.arg[0].token[j].loc.col == i && mac.arg[0].token[j].kind == TNUMBER, "the argument consists of its preprocessing tokens, new-lines not among them");
					__CPROVER_assert(!ws || mac.arg[0].token[j].space, "a token that follows a new-line is recorded as preceded by white space");
					j++; ws = false;
				}
			}
		__CPROVER_assert(mac.arg[0].ntoken == j, "and of nothing else");
		return;
	}
#endif
	__CPROVER_assert(mac.arg == argbuf, "the arguments are attached to the macro");
	for (i = 0; i < 2; i++)
		if (i < np) {
			unsigned j;
			__CPROVER_assert(mac.arg[i].ntoken == cnt[i], "each argument consists of the tokens between its separators: commas at parenthesis depth 0 separate, commas inside inner parentheses (or in the variable argument) do not");
			for (j = 0; j < NS; j++)
				if (j < cnt[i])
					__CPROVER_assert(mac.arg[i].token[j].loc.col == start[i] + j && mac.arg[i].token[j].kind == k[start[i] + j], "argument tokens in source order");
		}
#if V_STR
	__CPROVER_assert(g_nstr == cnt[0], "the stringized parameter's argument is spelled from exactly its tokens");
	for (i = 0; i < NS; i++)
		if (i < cnt[0])
			__CPROVER_assert(g_strcol[i] == (int)(start[0] + i), "... in source order");
	__CPROVER_assert(mac.arg[0].str.kind == TSTRINGLIT && mac.arg[0].str.lit == strbuf && strbuf[0] == '"', "and the result is one string literal token");
#else
	__CPROVER_assert(g_nstr == 0, "no argument is spelled when no parameter is stringized");
#endif
#ifdef VERIF_CANARY
	__CPROVER_assert(!(end == (np ? NS - 1 : 0)), "CANARY");
#endif
}
