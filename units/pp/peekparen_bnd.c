/* UNIT
{
 "id": "PP.peekparen.bnd",
 "file": "pp.c", "function": "peekparen", "also_functions": ["nextinto", "ctxnext", "ctxpush"],
 "properties": {"C12": "contract", "C19": "safety"},
 "mode": "harness",
 "replace_calls": {"directive": "rec_directive"},
 "unwind": 6,
 "variants": {"src": ["-DV_CTX=0"], "ctx": ["-DV_CTX=1"]},
 "tiers": {"thorough": {"cflags": ["-DNS=7"], "unwind": 8, "timeout": 1800, "bound": "as quick with up to 7 source tokens"}},
 "kind": "bounded",
 "bound": "src: the context stack is empty and the source continues with at most 5 tokens drawn from {identifier, new-line, #, '('}; ctx: one context frame with 1..2 pending tokens (identifier, number, '(' or ')')",
 "timeout": 300, "replay": false,
 "assumes": ["scan() is a token-script stand-in; directive() is replaced by a recorder that consumes the rest of the line THROUGH THE GLOBAL `tok`, as the real one does (every directive scans into tok and ends with tokencheck(&tok, TNEWLINE))",
             "arrayadd() is a fixed-capacity append (UTIL.arrayadd); arraylast() is util.c's text (UTIL.arraylast)"]
}
*/
/*
 * C11 6.10.3p10: a function-like macro name is an invocation only if "the next preprocessing token" is '(' - new-lines are
 * white space there (p10: "new-line is considered a normal white-space character" within an invocation; by the same
 * reading the look-ahead for '(' crosses line ends, and directives on those lines are still directives, 6.10p2).
 * peekparen() answers whether the next token is '(' and consumes it if so; otherwise NOTHING may be lost: the tokens it
 * looked at are delivered next, in order, and the current token (the macro name expand() is deciding about, which next()
 * copies from `tok` afterwards) is untouched.
 */
#include "pp.c"
#include "verif.h"

struct token tok;
#ifndef NS
#define NS 5
#endif
static enum tokenkind s_kind[NS + 1]; static unsigned s_pos;
static int g_ndir;
static bool s_prime;
void scan(struct token *t) { if (s_prime) { t->kind = TIDENT; t->lit = 0; s_prime = false; return; } t->kind = s_pos < NS ? s_kind[s_pos] : TEOF; t->lit = 0; t->space = false; t->hide = false; t->loc.col = s_pos; s_pos++; }
void
rec_directive(void)
{
	g_ndir++;
	while (s_pos < NS && s_kind[s_pos] != TNEWLINE) s_pos++;
	tok.kind = s_pos < NS ? TNEWLINE : TEOF; tok.lit = 0; tok.loc.col = s_pos; s_pos++;
}
char *tokencheck(const struct token *t, enum tokenkind k, const char *msg) { return t->lit; }
void tokenprint(const struct token *t) { }
void scanfrom(const char *f, FILE *fp) { }
void scanopen(void) { }
void scansetloc(struct location loc) { }
static struct token pendbuf[NS + 2], pendbuf2[NS + 2]; static struct frame framebuf[3]; static int g_npend;
void *
arrayadd(struct array *a, size_t n)
{
	void *v;
	if (!a->val) {
		if (n == sizeof(struct token)) { a->val = g_npend++ ? pendbuf2 : pendbuf; a->cap = sizeof(pendbuf); }    /* each look-ahead array of peekparen() gets storage of its own */
		else { a->val = framebuf; a->cap = sizeof(framebuf); }
	}
	__CPROVER_assert(a->cap - a->len >= n, "stays inside the buffer this unit provides");
	v = (char *)a->val + a->len;
	a->len += n;
	return v;
}
void *arraylast(struct array *a, size_t n) { if (a->len == 0) return 0; return (char *)a->val + a->len - n; }

void
harness(void)
{
	static char name[] = "f";
	bool r;
	tok.kind = TIDENT; tok.lit = name; tok.loc.col = 100; tok.space = true; tok.hide = false;   /* the macro name */
	g_ndir = 0;
#if !V_CTX
	{
		IN(int, in_k0); IN(int, in_k1); IN(int, in_k2); IN(int, in_k3); IN(int, in_k4);
		int k[NS]; unsigned i, nxt = NS; bool linestart = false, indir = false, seen = false;
		unsigned keep[NS + 1], nkeep = 0;     /* indices of the tokens looked at that are not part of a directive */
		k[0] = in_k0; k[1] = in_k1; k[2] = in_k2; k[3] = in_k3; k[4] = in_k4;
#if NS > 5
		{ IN(int, in_k5); IN(int, in_k6); k[5] = in_k5; k[6] = in_k6; }
#endif
		for (i = 0; i < NS; i++) {
			__CPROVER_assume(k[i] == TIDENT || k[i] == TNEWLINE || k[i] == THASH || k[i] == TLPAREN);
			s_kind[i] = k[i];
		}
		/* oracle: walk the source; lines that start with # are directives (skipped, new-line included); the first token
		   that is neither a new-line nor inside a directive is "the next preprocessing token" */
		for (i = 0; i < NS; i++) {
			if (!seen) {
				if (indir) { if (k[i] == TNEWLINE) { indir = false; linestart = true; } }
				else if (linestart && k[i] == THASH) indir = true;
				else { keep[nkeep++] = i; if (k[i] == TNEWLINE) linestart = true; else { seen = true; nxt = i; } }
			}
		}
		__CPROVER_assume(seen);           /* the source does not end inside the look-ahead */
		ctx.val = 0; ctx.len = 0; ctx.cap = 0;
		s_pos = 0;
		s_prime = true; nextinto(&tok);     /* the macro name was read from the source, in the middle of a line */
		tok.kind = TIDENT; tok.lit = name; tok.loc.col = 100; tok.space = true; tok.hide = false;

		r = peekparen();

		__CPROVER_assert(r == (k[nxt] == TLPAREN), "the answer is whether the next preprocessing token, new-lines and directive lines aside, is '('");
		__CPROVER_assert(s_pos == nxt + 1, "the look-ahead stops at that token");
		__CPROVER_assert(tok.kind == TIDENT && tok.lit == name && tok.loc.col == 100 && tok.space, "the current token (the macro name being decided about) survives the look-ahead, directives on the way included");
		if (r)
			__CPROVER_assert(ctx.len == 0, "the '(' is consumed and nothing is pending");
		else {
			struct frame *f = ctx.val;
			__CPROVER_assert(ctx.len == sizeof(*f) && f->macro == 0 && f->ntoken == nkeep, "otherwise every token looked at is pending for delivery");
			for (i = 0; i < NS; i++)
				if (i < nkeep)
					__CPROVER_assert(f->token[i].loc.col == keep[i] && f->token[i].kind == k[keep[i]], "... in source order");
		}
#ifdef VERIF_CANARY
		__CPROVER_assert(!(g_ndir == 1 && !r && nkeep == 2), "CANARY");
#endif
		/* the pending tokens are delivered; the LAST of them may be a function-like macro name, which expand() examines by
		   calling peekparen() again while still holding the pointer to it (next() copies *t afterwards) */
		if (!r) {
			unsigned before = s_pos; int nd = g_ndir; bool r2; struct token *last = 0, snap;
			{ struct frame *f1 = ctx.val; last = &f1->token[nkeep - 1]; f1->token += nkeep; f1->ntoken = 0; }    /* what nkeep calls of framenext() leave (PP.ctxnext.bnd) */
			__CPROVER_assert(last->loc.col == nxt, "the last pending token is the one the look-ahead stopped at");
			snap = *last;
			r2 = peekparen();
			__CPROVER_assert(last->kind == snap.kind && last->loc.col == snap.loc.col && last->space == snap.space, "the token under examination is not overwritten by the new look-ahead, even though it was itself delivered from the look-ahead buffer");
			if (!r2 && g_ndir == nd) {
				struct frame *f2 = ctx.val;
				__CPROVER_assert(ctx.len == sizeof(*f2) && f2->ntoken == s_pos - before && f2->token[0].loc.col == before, "only the tokens of THIS look-ahead are pending");
			}
		}
	}
#else
	{
		static struct token body[2];
		IN(unsigned, in_n); IN(int, in_k0); IN(bool, in_lp1); bool in_lp0;
		struct frame *f = framebuf;
		__CPROVER_assume(in_n >= 1 && in_n <= 2);
		__CPROVER_assume(in_k0 == TIDENT || in_k0 == TLPAREN || in_k0 == TNUMBER || in_k0 == TRPAREN); in_lp0 = in_k0 == TLPAREN;
		body[0].kind = in_k0; body[1].kind = in_lp1 ? TLPAREN : TIDENT; body[0].lit = body[1].lit = 0;
		framebuf[0].token = body; framebuf[0].ntoken = in_n; framebuf[0].macro = 0;
		ctx.val = framebuf; ctx.cap = sizeof(framebuf); ctx.len = sizeof(framebuf[0]);
		s_pos = 0;

		r = peekparen();

		__CPROVER_assert(r == in_lp0, "the next token of the innermost context decides");
		__CPROVER_assert(s_pos == 0 && g_ndir == 0, "the source is not touched while a context has tokens");
		__CPROVER_assert(ctx.len == sizeof(framebuf[0]), "the context stays");
		__CPROVER_assert(r ? (f->token == &body[1] && f->ntoken == in_n - 1) : (f->token == &body[0] && f->ntoken == in_n), "'(' is consumed, any other token is put back");
		__CPROVER_assert(tok.kind == TIDENT && tok.lit == name, "the current token is untouched");
#ifdef VERIF_CANARY
		__CPROVER_assert(!(r && in_n == 2), "CANARY");
#endif
	}
#endif
}
