/* UNIT
{
 "id": "PP.next",
 "file": "pp.c", "function": "next", "also_functions": ["keyword"],
 "properties": {"C12": "contract", "C13": "contract", "C19": "safety"},
 "mode": "harness",
 "replace_calls": {"rawnext": "stub_rawnext", "expand": "stub_expand"},
 "unwind": 8, "unwindset": ["strcmp.0:5"],
 "kind": "proof-const-unwind",
 "bound": "two consecutive next() calls over a stream of at most 6 raw tokens: new-lines, tokens that expand() replaces, and one token of a macro's replacement list (spelled `int` or `x`) that is delivered twice, as every later invocation of that macro does",
 "timeout": 300, "replay": false,
 "assumes": ["rawnext() is a token-script stand-in and expand() is replaced by its verdict (PP.expand); keyword() is the real one (PP.keyword) with strcmp/free from CBMC's library"]
}
*/
/*
 * next() delivers the next token of translation phase 4/7: new-lines are dropped unless a directive is being read
 * (PPNEWLINE), a token that expand() replaced is dropped (its replacement follows), everything else is copied to `tok`
 * and an identifier that spells a keyword becomes that keyword.
 * C12: a macro's replacement list is delivered again by every later invocation of the macro (6.10.3p9: "each subsequent
 * instance of the macro name"), so delivering a token of the list must leave the LIST intact: the second delivery gives
 * the same token as the first.
 */
#include "pp.c"
#include "verif.h"

struct token tok;
#define NS 6
static struct token *s_ptr[NS + 1]; static bool s_exp[NS + 1]; static unsigned s_n, s_pos;
struct token *stub_rawnext(void) { __CPROVER_assert(s_pos < s_n, "next() reads no more raw tokens than it needs"); return s_ptr[s_pos++]; }
bool stub_expand(struct token *t) { return s_exp[s_pos - 1]; }

void
harness(void)
{
	static struct token nl, rep, body;
	IN(unsigned, in_nl0); IN(unsigned, in_nl1); IN(bool, in_rep0); IN(bool, in_kw); IN(bool, in_ppnl); IN(bool, in_space);
	char *sp = malloc(4);
	unsigned n = 0, i, first_end;
	enum tokenkind want;

	__CPROVER_assume(sp != 0 && in_nl0 <= 1 && in_nl1 <= 1);
	if (in_kw) { sp[0] = 'i'; sp[1] = 'n'; sp[2] = 't'; sp[3] = 0; } else { sp[0] = 'x'; sp[1] = 0; }
	nl.kind = TNEWLINE; nl.lit = 0; rep.kind = TIDENT; rep.lit = "M";
	body.kind = TIDENT; body.lit = sp; body.space = in_space; body.hide = true; body.loc.line = 7; body.loc.col = 3; body.loc.file = "in.c";
	want = in_kw ? TINT : TIDENT;
	/* stream: [NL] [M->replaced] body [NL] body   (constant indices) */
	for (i = 0; i < NS + 1; i++) { s_ptr[i] = &nl; s_exp[i] = false; }
	if (in_ppnl) __CPROVER_assume(in_nl1 == 0 && !in_rep0);
	n = in_nl0;
	if (in_rep0) { if (n == 0) { s_ptr[0] = &rep; s_exp[0] = true; } else { s_ptr[1] = &rep; s_exp[1] = true; } n++; }
	if (n == 0) s_ptr[0] = &body; else if (n == 1) s_ptr[1] = &body; else s_ptr[2] = &body;
	n++; first_end = n;
	n += in_nl1;
	if (n == 1) s_ptr[1] = &body; else if (n == 2) s_ptr[2] = &body; else if (n == 3) s_ptr[3] = &body; else s_ptr[4] = &body;
	n++;
	s_n = n; s_pos = 0;
	ppflags = in_ppnl ? PPNEWLINE : 0;

	if (in_ppnl && in_nl0) {
		next();
		__CPROVER_assert(s_pos == 1 && tok.kind == TNEWLINE, "while a directive is being read (PPNEWLINE) the new-line is a token: it ends the directive");
	}
	next();
	__CPROVER_assert(s_pos == first_end, "new-lines outside directives and replaced macro names are skipped; the first other token is delivered");
	__CPROVER_assert(tok.kind == want && tok.space == in_space && tok.hide && tok.loc.line == 7 && tok.loc.col == 3, "the delivered token is a copy of the raw token; an identifier spelling a keyword is that keyword");
	__CPROVER_assert(in_kw ? tok.lit == 0 : tok.lit == sp, "keywords carry no spelling, other tokens keep theirs");
	__CPROVER_assert(body.kind == TIDENT && body.lit == sp, "the raw token (possibly part of a macro's replacement list) is not rewritten");

	next();
	__CPROVER_assert(s_pos == s_n, "second call: same skipping");
	__CPROVER_assert(tok.kind == want && tok.space == in_space, "a replacement-list token delivered a second time gives the same token as the first time");
	__CPROVER_assert(in_kw ? tok.lit == 0 : (tok.lit == sp && sp[0] == 'x' && sp[1] == 0), "... with the same spelling");
#ifdef VERIF_CANARY
	__CPROVER_assert(!(in_kw && in_nl1 && in_rep0), "CANARY");
#endif
}
