/* UNIT
{
 "id": "PP.define.bnd",
 "file": "pp.c", "function": "define", "also_functions": ["macroparam", "macrovarargs"],
 "properties": {"C12": "contract", "C10": "contract", "C19": "safety"},
 "mode": "harness",
 "unwind": 10, "unwindset": ["strcmp.0:13"],
 "replace_calls": {"macroequal": "stub_macroequal"},
 "variants": {"obj": ["-DV_FUNC=0", "-DV_REDEF=0"], "func": ["-DV_FUNC=1", "-DV_REDEF=0"], "redef": ["-DV_FUNC=0", "-DV_REDEF=1"]},
 "kind": "bounded",
 "tiers": {"thorough": {"cflags": ["-DNB=3"], "timeout": 900, "bound": "as quick, replacement list of 0..3 tokens"}},
 "bound": "one #define line: object-like, or function-like with 0..2 named parameters drawn from {a, b, __VA_ARGS__} and an optional `...`; replacement list of 0..2 tokens (thorough tier: 0..3) drawn from {a, b, c, __VA_ARGS__, #, ##, a number}, each with or without preceding white space; with or without an earlier definition of the same name",
 "timeout": 600, "replay": false,
 "assumes": ["scan() is a token-script stand-in (the scanner proper is the SCAN.* units' business)",
             "arrayadd() is a fixed-capacity append (its growth is UTIL.arrayadd's business); mapkey()/mapput() are a one-slot table (MAP.* units); macroequal() is replaced by its verdict (PP.macroequal proves the real one)",
             "tokencheck() returns the token text or diagnoses (one-liner in token.c)"]
}
*/
#include <stdlib.h>
#include "pp.c"
#include "verif.h"

struct token tok;
extern int g_no_error;

/* ---- the scanner, at token granularity ---- */
#define NTOK 14
#ifndef NB
#define NB 2
#endif
static enum tokenkind s_kind[NTOK]; static char *s_lit[NTOK]; static bool s_space[NTOK]; static unsigned s_n, s_pos;

void
scan(struct token *t)
{
	__CPROVER_assert(s_pos < s_n, "define() does not read past the end of its line");
	t->kind = s_kind[s_pos];
	t->lit = s_lit[s_pos];
	t->space = s_space[s_pos];
	t->hide = false;
	t->loc.file = "in.c"; t->loc.line = 1; t->loc.col = s_pos + 1;
	s_pos++;
}
char *tokencheck(const struct token *t, enum tokenkind k, const char *msg) { if (t->kind != k) verif_noreturn(); return t->lit; }
void tokenprint(const struct token *t) { }
void scanfrom(const char *f, FILE *fp) { }
void scanopen(void) { }
void scansetloc(struct location loc) { }

/* fixed-capacity append: the two arrays of define() (parameters, replacement list) get one static buffer each */
static struct macroparam parambuf[4];
static struct token replbuf[6];
void *
arrayadd(struct array *a, size_t n)
{
	void *v;
	if (!a->val) {
		if (n == sizeof(struct token)) { a->val = replbuf; a->cap = sizeof(replbuf); }
		else { a->val = parambuf; a->cap = sizeof(parambuf); }
	}
	__CPROVER_assert(a->cap - a->len >= n, "stays inside the buffer this unit provides");
	v = (char *)a->val + a->len;
	a->len += n;
	return v;
}
/* one-slot macro table */
static void *g_slot; static int g_nput; static bool g_equal; static int g_neq;
void mapkey(struct mapkey *k, const void *s, size_t n) { k->str = s; k->len = n; k->hash = 0; }
void **mapput(struct map *h, struct mapkey *k) { g_nput++; return &g_slot; }
void *mapget(struct map *h, struct mapkey *k) { return g_slot; }
void mapinit(struct map *h, size_t cap) { }
/* the verdict of macroequal (PP.macroequal) */
bool stub_macroequal(struct macro *m1, struct macro *m2) { g_neq++; return g_equal; }

static char n_a[] = "a", n_b[] = "b", n_c[] = "c", n_va[] = "__VA_ARGS__", n_num[] = "1", n_name[] = "M";

/* body token classes */
enum { B_A, B_B, B_C, B_VA, B_HASH, B_HASHHASH, B_NUM, B_N };
static enum tokenkind bkind(unsigned c) { return c == B_HASH ? THASH : c == B_HASHHASH ? THASHHASH : c == B_NUM ? TNUMBER : TIDENT; }
static char *blit(unsigned c) { return c == B_A ? n_a : c == B_B ? n_b : c == B_C ? n_c : c == B_VA ? n_va : c == B_NUM ? n_num : (char *)0; }

/*
 * C11 6.10.3: p5 "The identifier __VA_ARGS__ shall occur only in the replacement-list of a function-like macro that uses
 * the ellipsis notation in the parameters"; p6 "A parameter identifier in a function-like macro shall be uniquely declared
 * within its scope"; p2 an identifier currently defined as a macro shall not be redefined unless the definitions are
 * identical; p9/p10: the name, (for function-like macros, decided by a `(` IMMEDIATELY after the name) the parameter list,
 * and the replacement list up to the new-line are recorded as written.  6.10.3.2p1: "Each # preprocessing token in the
 * replacement list for a function-like macro shall be followed by a parameter".  `##` is documented as unimplemented and
 * must be diagnosed, not mis-expanded.
 */
void
harness(void)
{
	IN(unsigned, in_np); IN(bool, in_var); IN(unsigned, in_p0); IN(unsigned, in_p1);
	IN(unsigned, in_nb); IN(unsigned, in_b0); IN(unsigned, in_b1); IN(unsigned, in_b2);
	IN(bool, in_s0); IN(bool, in_s1); IN(bool, in_s2); IN(bool, in_lpspace); IN(bool, in_nameva); IN(bool, in_after);
	ING(bool, g_equal);
	static struct macro old;
	bool func = V_FUNC, redef = V_REDEF;
	unsigned b[3], i, p, base, nparam;
	bool sp[3];
	char *pn[3];
	struct macro *m;
	bool dup, hashok, vaok, hh, vaname, wellformed;

	__CPROVER_assume(in_np <= 2 && in_nb <= NB && in_p0 <= 2 && in_p1 <= 2);
	__CPROVER_assume(in_b0 < B_N && in_b1 < B_N && in_b2 < B_N);
	if (!func) __CPROVER_assume(in_np == 0 && !in_var);
	if (!in_var) __CPROVER_assume(!in_after);
	b[0] = in_b0; b[1] = in_b1; b[2] = in_b2; sp[0] = in_s0; sp[1] = in_s1; sp[2] = in_s2;
	pn[0] = in_p0 == 2 ? n_va : in_p0 ? n_b : n_a; pn[1] = in_p1 == 2 ? n_va : in_p1 ? n_b : n_a; pn[2] = 0;
	nparam = in_np + (in_var ? 1 : 0);
	if (in_var) pn[in_np] = n_va;

	/* the line after `#define`: M [ '(' params ')' ] body newline   (constant script indices, see CONVENTIONS 7) */
	s_kind[0] = TIDENT; s_lit[0] = in_nameva ? n_va : n_name; s_space[0] = true;
	base = 1;
	if (func) {
		/* ( p0 , p1 , ... )   -- positions 1 .. */
		unsigned k = 1, q;
		s_kind[k] = TLPAREN; s_lit[k] = 0; s_space[k] = false; k++;
		for (q = 0; q < 3; q++) {
			if (q < nparam) {
				if (q > 0) { s_kind[k] = TCOMMA; s_lit[k] = 0; s_space[k] = false; k++; }
				if (in_var && q == in_np) { s_kind[k] = TELLIPSIS; s_lit[k] = 0; }
				else { s_kind[k] = TIDENT; s_lit[k] = pn[q]; }
				s_space[k] = false; k++;
			}
		}
		if (in_after) {    /* a parameter after the ellipsis: `(..., a)` */
			s_kind[k] = TCOMMA; s_lit[k] = 0; s_space[k] = false; k++;
			s_kind[k] = TIDENT; s_lit[k] = n_c; s_space[k] = false; k++;
		}
		s_kind[k] = TRPAREN; s_lit[k] = 0; s_space[k] = false; k++;
		base = k;
	} else if (in_nb > 0 && in_b0 == B_NUM) {
		/* object-like macro whose replacement list starts with a parenthesis AFTER white space: `#define M (1` ... keep
		   simple: the first body token may be '(' with a space; covered by in_lpspace below */
	}
	for (p = 0; p < 4; p++) {
		if (p < in_nb) { s_kind[base + p] = bkind(b[p]); s_lit[base + p] = blit(b[p]); s_space[base + p] = sp[p]; }
		else if (p == in_nb) { s_kind[base + p] = TNEWLINE; s_lit[base + p] = 0; s_space[base + p] = false; }
	}
	s_n = base + in_nb + 1;
	/* `#define M (a` with white space before the parenthesis is an OBJECT-like macro whose list starts with `(` */
	if (!func && in_lpspace && in_nb > 0) { s_kind[1] = TLPAREN; s_lit[1] = 0; s_space[1] = true; }

	g_slot = redef ? &old : (void *)0; g_nput = 0; g_neq = 0;
	old.kind = MACROOBJ; old.nparam = 0; old.ntoken = 0; old.name = n_name;

	/* what 6.10.3 says about this line */
	dup = func && in_np == 2 && in_p0 == in_p1;
	vaname = in_nameva || (in_np >= 1 && in_p0 == 2) || (in_np == 2 && in_p1 == 2);
	hh = false; hashok = true; vaok = true;
	for (i = 0; i < 3; i++) {
		if (i < in_nb) {
			if (b[i] == B_HASHHASH) hh = true;
			if (b[i] == B_VA && !in_var) vaok = false;
			if (func && b[i] == B_HASH) {
				bool isparam = false;
				if (i + 1 < in_nb) {
					unsigned c = b[i + 1], q;
					for (q = 0; q < 3; q++)
						if (q < nparam && blit(c) && pn[q][0] == blit(c)[0] && bkind(c) == TIDENT)
							isparam = true;
				}
				if (!isparam) hashok = false;
			}
		}
	}
	if (!func && in_lpspace && in_nb > 0) { /* first token replaced by '(' */
		hh = false; vaok = true;
		for (i = 1; i < 3; i++)
			if (i < in_nb) { if (b[i] == B_HASHHASH) hh = true; if (b[i] == B_VA) vaok = false; }
	}
	wellformed = !dup && !in_after && !vaname && !hh && hashok && vaok && (!redef || g_equal);
	g_no_error = wellformed;

	scan(&tok);     /* directive(): the token after `define` is current when define() is entered */
	define();

	m = g_slot;
	__CPROVER_assert(wellformed, "C11 6.10.3p2/p5/p6, 6.10.3.2p1: a definition that violates a constraint (duplicate parameter, parameter after `...`, __VA_ARGS__ outside the replacement list of a variadic macro, # not followed by a parameter, differing redefinition) or uses the unimplemented ## is diagnosed");
	__CPROVER_assume(wellformed);
	__CPROVER_assert(g_nput == 1 && m != 0 && m != &old, "the new definition is entered in the macro table under its name");
	__CPROVER_assert(g_neq == (redef ? 1 : 0), "an earlier definition, and only that, is compared with the new one");
	__CPROVER_assert(m->name == s_lit[0] && !m->hide, "macro name recorded, macro not hidden");
	__CPROVER_assert(m->kind == (func ? MACROFUNC : MACROOBJ), "function-like iff '(' follows the name without white space");
	__CPROVER_assert(m->nparam == nparam, "parameter count");
	for (i = 0; i < 3; i++)
		if (i < nparam) {
			bool str = false, tk = false; unsigned j;
			__CPROVER_assert(m->param[i].name[0] == pn[i][0], "parameter names in order");
			__CPROVER_assert(!(m->param[i].flags & PARAMVAR) == !(in_var && i == in_np), "the `...` parameter, and only it, is the variable-argument parameter");
			for (j = 0; j < 3; j++)
				if (j < in_nb && bkind(b[j]) == TIDENT && blit(b[j])[0] == pn[i][0]) {
					if (j > 0 && b[j - 1] == B_HASH) str = true; else tk = true;
				}
			__CPROVER_assert(!(m->param[i].flags & PARAMSTR) == !str, "parameter marked as stringized iff it follows a # in the list");
			__CPROVER_assert(!(m->param[i].flags & PARAMTOK) == !tk, "parameter marked as substituted iff it occurs in the list other than after #");
		}
	__CPROVER_assert(m->ntoken == in_nb, "replacement list length: every token up to the new-line, and not the new-line");
	for (i = 0; i < 3; i++)
		if (i < in_nb) {
			if (i == 0 && !func && in_lpspace)
				__CPROVER_assert(m->token[0].kind == TLPAREN, "a parenthesis after white space starts the replacement list of an object-like macro");
			else {
				__CPROVER_assert(m->token[i].kind == bkind(b[i]) && m->token[i].lit == blit(b[i]), "replacement list tokens in order");
			}
			__CPROVER_assert(m->token[i].space == (i == 0 && !func && in_lpspace ? true : sp[i]), "white-space separation of the list's tokens is recorded");
		}
	__CPROVER_assert(tok.kind == TNEWLINE && s_pos == s_n, "the whole line, and nothing more, is consumed; the new-line is the current token");
#ifdef VERIF_CANARY
	__CPROVER_assert(!(in_nb == NB && nparam == (func ? 3 : 0)), "CANARY");
#endif
}
