/* UNIT
{
 "id": "PP.nextinto",
 "file": "pp.c", "function": "nextinto",
 "properties": {"C12": "contract", "C13": "contract", "C19": "safety"},
 "mode": "harness",
 "replace_calls": {"directive": "rec_directive"},
 "unwind": 8,
 "tiers": {"thorough": {"cflags": ["-DNS=9"], "unwind": 10, "timeout": 1800, "bound": "as quick over a source of up to 9 tokens"}},
 "kind": "proof-const-unwind",
 "bound": "three consecutive calls, each into `tok` (rawnext) or into another token (peekparen's look-ahead), over a source of at most 7 tokens drawn from {identifier, new-line, #}",
 "timeout": 300, "replay": false,
 "assumes": ["scan() is a token-script stand-in; directive() is replaced by a recorder that consumes the rest of the line and leaves the new-line in `tok`, as the real one does (its last act is tokencheck(&tok, TNEWLINE))"]
}
*/
/*
 * C11 6.10p2: "A preprocessing directive consists of a sequence of preprocessing tokens that ... begins with a # preprocessing
 * token that (at the start of translation phase 4) is either the first character in the source file (optionally after white space
 * containing no new-line characters) or that follows white space containing at least one new-line character".
 * So: a `#` is handed to directive() iff it is the first token on its line - whichever token object the caller reads into
 * (6.10.3p10 lets the '(' of an invocation follow on a later line, so peekparen() reads ahead across new-lines into its own
 * buffer; a directive on the next line is still a directive) - and every other token, `#` elsewhere included, is delivered.
 */
#include "pp.c"
#include "verif.h"

struct token tok;
#ifndef NS
#define NS 7
#endif
static enum tokenkind s_kind[NS + 1]; static unsigned s_pos;
static int g_ndir, g_dir_at[4];
void scan(struct token *t) { t->kind = s_pos < NS ? s_kind[s_pos] : TEOF; t->lit = 0; t->loc.col = s_pos; s_pos++; }
void
rec_directive(void)
{
	/* the '#' just scanned is at s_pos - 1 */
	if (g_ndir < 4) g_dir_at[g_ndir] = s_pos - 1;
	g_ndir++;
	while (s_pos < NS && s_kind[s_pos] != TNEWLINE) s_pos++;
	tok.kind = s_pos < NS ? TNEWLINE : TEOF; tok.loc.col = s_pos; s_pos++;
}
char *tokencheck(const struct token *t, enum tokenkind k, const char *msg) { return t->lit; }
void tokenprint(const struct token *t) { }
void scanfrom(const char *f, FILE *fp) { }
void scanopen(void) { }
void scansetloc(struct location loc) { }

void
harness(void)
{
	static struct token other;
	IN(int, in_k0); IN(int, in_k1); IN(int, in_k2); IN(int, in_k3); IN(int, in_k4); IN(int, in_k5); IN(int, in_k6);
	IN(bool, in_d0); IN(bool, in_d1); IN(bool, in_d2);
	int k[NS]; bool d[3]; unsigned i, c;
	bool first[NS + 1];     /* first[i]: token i is the first token on its line */

	k[0] = in_k0; k[1] = in_k1; k[2] = in_k2; k[3] = in_k3; k[4] = in_k4; k[5] = in_k5; k[6] = in_k6;
#if NS > 7
	{ IN(int, in_k7); IN(int, in_k8); k[7] = in_k7; k[8] = in_k8; }
#endif
	d[0] = in_d0; d[1] = in_d1; d[2] = in_d2;
	for (i = 0; i < NS; i++) {
		__CPROVER_assume(k[i] == TIDENT || k[i] == TNEWLINE || k[i] == THASH);
		s_kind[i] = k[i];
		first[i] = i == 0 || k[i - 1] == TNEWLINE;
	}
	first[NS] = false;
	s_pos = 0; g_ndir = 0;
	tok.kind = TIDENT;      /* whatever the parser looked at last */

	for (c = 0; c < 3; c++) {
		struct token *dst = d[c] ? &other : &tok;
		unsigned before = s_pos, ndir = g_ndir;
		nextinto(dst);
		__CPROVER_assert(dst->loc.col == s_pos - 1 && dst->loc.col >= before, "the token delivered is the last one scanned");
		__CPROVER_assert(dst->loc.col >= NS || !(k[dst->loc.col] == THASH && first[dst->loc.col]), "6.10p2: a # that is the first token on its line is never delivered as a token: it introduces a directive");
		for (i = 0; i < 4; i++)
			if (i >= ndir && i < g_ndir)
				__CPROVER_assert(g_dir_at[i] < NS && k[g_dir_at[i]] == THASH && first[g_dir_at[i]], "only a # that is first on its line starts a directive");
		/* every token between `before` and the delivered one belongs to a directive line */
		__CPROVER_assert(g_ndir > ndir || dst->loc.col == before, "no token is skipped other than by a directive");
	}
#ifdef VERIF_CANARY
	__CPROVER_assert(g_ndir != 2, "CANARY");
#endif
}
