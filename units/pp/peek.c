/* UNIT
{
 "id": "PP.peek",
 "file": "pp.c", "function": "peek", "also_functions": ["expect", "consume", "ctxpush"],
 "properties": {"C12": "contract", "C13": "contract", "C19": "safety"},
 "mode": "harness",
 "replace_calls": {"next": "stub_next"},
 "kind": "proof",
 "timeout": 100, "replay": false,
 "assumes": ["next() is replaced by a stand-in that delivers the following tokens of the (already macro-expanded) stream into `tok` (PP.next); arrayadd() is a fixed-capacity append (UTIL.arrayadd)",
             "also covers expect() and consume(), which have no loop either"]
}
*/
/*
 * One-token look-ahead used by the parser (labelled statements, declarators): peek(kind) answers whether the token AFTER the
 * current one has the given kind.  If so both are consumed (the token after them is current); if not nothing is lost: the current
 * token is restored unchanged and the token looked at is delivered by the next next(), with its white-space flag.
 * consume(kind): advances iff the current token has that kind.  expect(kind): as tokencheck, then advances, returning the spelling.
 */
#include "pp.c"
#include "verif.h"

struct token tok;
extern int g_no_error;
static struct token s_tok[3]; static unsigned s_pos;
void stub_next(void) { __CPROVER_assert(s_pos < 3, "at most two tokens are read"); tok = s_tok[s_pos++]; }
static struct frame framebuf[2];
void *
arrayadd(struct array *a, size_t n)
{
	void *v;
	if (!a->val) { a->val = framebuf; a->cap = sizeof(framebuf); }
	__CPROVER_assert(a->cap - a->len >= n, "stays inside the buffer this unit provides");
	v = (char *)a->val + a->len; a->len += n;
	return v;
}
void *arraylast(struct array *a, size_t n) { if (a->len == 0) return 0; return (char *)a->val + a->len - n; }
char *tokencheck(const struct token *t, enum tokenkind k, const char *msg) { if (t->kind != k) verif_noreturn(); return t->lit; }
void tokenprint(const struct token *t) { }
void scan(struct token *t) { __CPROVER_assert(0, "the scanner is not reached"); }
void scanfrom(const char *f, FILE *fp) { }
void scanopen(void) { }
void scansetloc(struct location loc) { }

void
harness(void)
{
	static char l0[] = "a", l1[] = "b";
	IN(int, in_k0); IN(int, in_k1); IN(int, in_k2); IN(int, in_want); IN(bool, in_space); IN(unsigned, in_fn);
	bool r; struct frame *f;

	__CPROVER_assume(in_fn <= 2);
	tok.kind = in_k0; tok.lit = l0; tok.space = true; tok.hide = false; tok.loc.line = 3; tok.loc.col = 9; tok.loc.file = "in.c";
	s_tok[0].kind = in_k1; s_tok[0].lit = l1; s_tok[0].space = in_space; s_tok[0].loc.line = 4;
	s_tok[1].kind = in_k2; s_tok[1].lit = 0; s_tok[1].loc.line = 5;
	s_pos = 0; ctx.val = 0; ctx.len = 0; ctx.cap = 0;

	if (in_fn == 0) {
		r = peek(in_want);
		__CPROVER_assert(r == (in_k1 == in_want), "peek answers for the token after the current one");
		if (r) {
			__CPROVER_assert(s_pos == 2 && tok.kind == in_k2 && tok.loc.line == 5 && ctx.len == 0, "on a match both tokens are consumed");
		} else {
			f = ctx.val;
			__CPROVER_assert(s_pos == 1 && tok.kind == in_k0 && tok.lit == l0 && tok.space && tok.loc.line == 3 && tok.loc.col == 9, "otherwise the current token is restored unchanged");
			__CPROVER_assert(ctx.len == sizeof(*f) && f->ntoken == 1 && f->macro == 0, "and exactly the token looked at is pending");
			__CPROVER_assert(f->token->kind == in_k1 && f->token->lit == l1 && f->token->space == in_space && f->token->loc.line == 4, "unchanged, white-space flag included");
		}
	} else if (in_fn == 1) {
		r = consume(in_want);
		__CPROVER_assert(r == (in_k0 == in_want), "consume answers for the current token");
		__CPROVER_assert(r ? (s_pos == 1 && tok.kind == in_k1 && tok.lit == l1) : (s_pos == 0 && tok.kind == in_k0 && tok.lit == l0), "and advances by one token iff it matched");
	} else {
		char *lit;
		g_no_error = in_k0 == in_want;
		lit = expect(in_want, "x");
		__CPROVER_assert(in_k0 == in_want, "expect diagnoses any other token");
		__CPROVER_assert(lit == l0 && s_pos == 1 && tok.kind == in_k1, "and otherwise returns the spelling and advances by one token");
	}
#ifdef VERIF_CANARY
	__CPROVER_assert(!(in_fn == 0 && in_k1 == in_want), "CANARY");
#endif
}
