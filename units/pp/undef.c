/* UNIT
{
 "id": "PP.undef",
 "file": "pp.c", "function": "undef", "also_functions": ["expandfunc"],
 "properties": {"C12": "contract", "C19": "safety"},
 "mode": "harness",
 "replace_calls": {"rawnext": "stub_rawnext", "expand": "stub_expand", "stringize": "rec_stringize"},
 "variants": {"plain": ["-DV_INFLIGHT=0"], "inflight": ["-DV_INFLIGHT=1"]},
 "unwind": 4,
 "kind": "proof-const-unwind",
 "bound": "plain: one `#undef name` line with or without a current definition of that name (no loop); inflight: the invocation `f(1 <new-line> #undef f <new-line> )` of a one-parameter macro, i.e. the directive arrives while expandfunc() collects f's argument",
 "timeout": 200, "replay": false,
 "assumes": ["scan()/rawnext() are token-script stand-ins; mapkey()/mapput() are a one-slot table (MAP.* units); tokencheck() returns the token text or diagnoses",
             "arrayaddbuf() is a fixed-capacity append, xreallocarray() hands out a static array (UTIL.*)"]
}
*/
/*
 * C11 6.10.3.5p2: "#undef identifier new-line causes the specified identifier no longer to be defined as a macro name. It is
 * ignored if the specified identifier is not currently defined as a macro name."
 * C19: 6.10.3p11 leaves a directive inside an invocation's argument list undefined for the PROGRAM; the compiler must still not
 * touch freed storage: after `#undef f` arrives while f's arguments are being collected, expandfunc() goes on reading
 * f's parameter table.
 */
#include <stdlib.h>
#include "pp.c"
#include "verif.h"

struct token tok;
extern int g_no_error;

static struct token s_next; static int g_nscan;
void scan(struct token *t) { *t = s_next; g_nscan++; }
char *tokencheck(const struct token *t, enum tokenkind k, const char *msg) { if (t->kind != k) verif_noreturn(); return t->lit; }
void tokenprint(const struct token *t) { }
void scanfrom(const char *f, FILE *fp) { }
void scanopen(void) { }
void scansetloc(struct location loc) { }
static void *g_slot; static int g_nput; static const void *g_keystr;
void mapkey(struct mapkey *k, const void *s, size_t n) { k->str = s; k->len = n; k->hash = 0; }
void **mapput(struct map *h, struct mapkey *k) { g_nput++; g_keystr = k->str; return &g_slot; }
void *mapget(struct map *h, struct mapkey *k) { return g_slot; }
void mapinit(struct map *h, size_t cap) { }
void *arrayadd(struct array *a, size_t n) { __CPROVER_assert(0, "not used"); return 0; }
void *arraylast(struct array *a, size_t n) { return 0; }
static struct token tokbuf[4]; static char strbuf[8];
void
arrayaddbuf(struct array *a, const void *src, size_t n)
{
	if (!a->val) { a->val = tokbuf; a->cap = sizeof(tokbuf); }
	__CPROVER_assert(n == sizeof(struct token) && a->cap - a->len >= n, "stays inside the buffer this unit provides");
	*(struct token *)((char *)a->val + a->len) = *(const struct token *)src;
	a->len += n;
}
static struct macroarg argbuf[1];
void *xreallocarray(void *b, size_t n, size_t m) { return argbuf; }
void *xmalloc(size_t n) { void *p = malloc(n); __CPROVER_assume(p != 0); return p; }

static struct macro *g_mac; static char *g_undefname;
static struct token script[4]; static unsigned s_pos;
struct token *
stub_rawnext(void)
{
	__CPROVER_assert(s_pos < 3, "nothing is read past the closing parenthesis");
	if (s_pos == 1) {
		/* nextinto(): '#' first on a line -> directive() -> `undef` -> scan(&tok); undef(); */
		tok.kind = TIDENT; tok.lit = g_undefname;
		undef();
	}
	return &script[s_pos++];
}
bool stub_expand(struct token *t) { return false; }
void rec_stringize(struct array *buf, struct token *t) { }

void
harness(void)
{
	char *name = malloc(2);
	struct macro *m = malloc(sizeof(*m));
	__CPROVER_assume(name != 0 && m != 0);
	name[0] = 'f'; name[1] = 0;
	g_nput = 0; g_nscan = 0;
	s_next.kind = TNEWLINE; s_next.lit = 0;
	m->kind = MACROFUNC; m->name = "f"; m->hide = false; m->nparam = 1; m->ntoken = 1;
	m->param = malloc(sizeof(m->param[0])); m->token = malloc(sizeof(m->token[0]));
	__CPROVER_assume(m->param != 0 && m->token != 0);
	m->param[0].name = "x"; m->param[0].flags = PARAMTOK; m->token[0].kind = TIDENT; m->token[0].lit = "x";
	g_no_error = 1;
#if !V_INFLIGHT
	{
		IN(bool, in_defined); IN(int, in_kind);
		__CPROVER_assume(in_kind == TIDENT || in_kind == TNUMBER || in_kind == TNEWLINE || in_kind == TINT);
		g_slot = in_defined ? m : (void *)0;
		tok.kind = in_kind; tok.lit = in_kind == TNEWLINE || in_kind == TINT ? (char *)0 : name;
		g_no_error = in_kind == TIDENT;
		undef();
		__CPROVER_assert(in_kind == TIDENT, "#undef must be followed by an identifier (6.10.3.5p2 syntax); anything else is diagnosed");
		__CPROVER_assume(in_kind == TIDENT);
		__CPROVER_assert(g_nput == 1 && g_keystr == name, "the table is consulted for the spelling after #undef");
		__CPROVER_assert(g_slot == 0, "6.10.3.5p2: the identifier is no longer defined as a macro name (and an undefined one stays undefined)");
		__CPROVER_assert(g_nscan == 1 && tok.kind == TNEWLINE, "the token after the name becomes current (directive() then requires the new-line)");
#ifdef VERIF_CANARY
		__CPROVER_assert(!in_defined, "CANARY");
#endif
	}
#else
	g_slot = m; g_mac = m; g_undefname = name;
	script[0].kind = TNUMBER; script[0].loc.col = 0; script[1].kind = TRPAREN; script[1].loc.col = 1; script[2].kind = TEOF;
	s_pos = 0; macrodepth = 0;
	expandfunc(m);
	__CPROVER_assert(g_slot == 0, "the name is undefined from the directive on");
	__CPROVER_assert(s_pos == 2 && m->arg == argbuf && m->arg[0].ntoken == 1 && m->arg[0].token[0].loc.col == 0, "the invocation in progress completes with its argument");
	__CPROVER_assert(m->token[0].kind == TIDENT && m->param[0].flags == PARAMTOK, "... and its replacement list and parameter table, which expand() pushes next, are still there");
#ifdef VERIF_CANARY
	__CPROVER_assert(s_pos != 2, "CANARY");
#endif
#endif
}
