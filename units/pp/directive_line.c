/* UNIT
{
 "id": "PP.directive.line",
 "file": "pp.c", "function": "directive",
 "properties": {"C11": "contract", "C19": "safety"},
 "mode": "harness",
 "unwind": 8,
 "variants": {"marker": ["-DV_MARKER=1"], "line": ["-DV_MARKER=0"]},
 "kind": "proof-const-unwind",
 "bound": "`# N [\"file\"] [flag ...]` and `#line N [\"file\"]` with 0..3 flags, with or without blanks before the newline; N and the file name arbitrary (file name <= 3 characters)",
 "timeout": 200, "replay": false,
 "assumes": ["scan() is a token-script stand-in that keeps the scanner's line counter the way the real scanner does: the counter advances at the moment the newline CHARACTER is read, which is at the end of scanning the last token of the line when nothing separates them, and while scanning the newline token when blanks precede it (SCAN.nextchar: line += newlines consumed; scankind's '\\n' case)",
             "tokencheck() returns the token text or diagnoses; scansetloc() assigns the scanner location (both one-liners in token.c/scan.c)"]
}
*/
#include <stdlib.h>
/* directive() frees the directive name it got from the scanner; the script hands out static storage */
#define free(p) ((void)(p))
#include "pp.c"
#undef free
#include "verif.h"

struct token tok;
extern int g_no_error;

/* ---- the scanner, at token granularity ---- */
static u64 g_line;                    /* scanner->loc.line */
static const char *g_file;
static int g_nset;
#define NTOK 8
static enum tokenkind s_kind[NTOK]; static char *s_lit[NTOK]; static unsigned s_n, s_pos;
static bool g_blank_before_nl;

void
scan(struct token *t)
{
	__CPROVER_assert(s_pos < s_n, "directive() does not read past the end of its line");
	t->kind = s_kind[s_pos];
	t->lit = s_lit[s_pos];
	t->loc.file = g_file;
	/* the newline character is read as lookahead of the last token, or inside the newline token after blanks */
	if (s_pos + 1 < s_n && s_kind[s_pos + 1] == TNEWLINE && !g_blank_before_nl)
		g_line++;
	if (s_kind[s_pos] == TNEWLINE && g_blank_before_nl)
		g_line++;
	s_pos++;
}
static u64 g_N;                      /* value of the digit sequence (libc strtoull is trusted to convert it) */
unsigned long long strtoull(const char *p, char **e, int base) { return g_N; }
void scansetloc(struct location loc) { g_line = loc.line; g_file = loc.file; g_nset++; }
char *tokencheck(const struct token *t, enum tokenkind k, const char *msg) { if (t->kind != k) verif_noreturn(); return t->lit; }
void tokenprint(const struct token *t) { }
void scanfrom(const char *f, FILE *fp) { }
void scanopen(void) { }

/*
 * C11 6.10.4: "#line digit-sequence new-line causes the implementation to behave as if the following sequence of source
 * lines begins with a source line that has a line number as specified"; with a string literal the presumed file name
 * changes too.  GCC line markers `# N "file" flags` mean the same.  So after the directive the NEXT source line is line
 * N of the named file, whatever follows N on the directive's line (file name, flags, blanks).
 */
void
harness(void)
{
	static char num[8] = "30", fname[8], flag[2] = "3", line_kw[5] = "line", startfile[] = "in.c";
	bool in_marker = V_MARKER;       /* `# N ...` (1) or `#line N ...` (0): one run each */
	IN(bool, in_hasfile); IN(unsigned, in_nflags); IN(bool, in_blank);
	IN(u8, in_f0); IN(u8, in_f1);
	IN(u64, in_startline);
	ING(u64, g_N);
	unsigned n = 0;

	__CPROVER_assume(in_nflags <= 3 && (in_marker || in_nflags == 0));
	__CPROVER_assume(in_f0 >= 'a' && in_f0 <= 'z' && in_f1 >= 'a' && in_f1 <= 'z');
	__CPROVER_assume(in_startline >= 1 && in_startline < 1000000);
	fname[0] = '"'; fname[1] = in_f0; fname[2] = in_f1; fname[3] = '"'; fname[4] = 0;
	/* script positions are written with CONSTANT indices (a symbolic index would make the first token's kind symbolic
	   and drag every other directive into the run): [line] N ["file"] flag* newline */
	{
		unsigned base = in_marker ? 0 : 1, p;
		if (!in_marker) { s_kind[0] = TIDENT; s_lit[0] = line_kw; }
		s_kind[base] = TNUMBER; s_lit[base] = num;
		for (p = 1; p + base < NTOK; p++) {
			unsigned idx = p - 1 - (in_hasfile ? 1 : 0);
			if (in_hasfile && p == 1) { s_kind[p + base] = TSTRINGLIT; s_lit[p + base] = fname; }
			else if (idx < in_nflags) { s_kind[p + base] = TNUMBER; s_lit[p + base] = flag; }
			else if (idx == in_nflags) { s_kind[p + base] = TNEWLINE; s_lit[p + base] = 0; }
			else { s_kind[p + base] = TNONE; s_lit[p + base] = 0; }
		}
		n = base + 1 + (in_hasfile ? 1 : 0) + in_nflags + 1;
	}
	s_n = n; s_pos = 0;
	g_line = in_startline; g_file = startfile; g_nset = 0; g_blank_before_nl = in_blank;
	g_no_error = 1;

	directive();

	__CPROVER_assert(s_pos == s_n && tok.kind == TNEWLINE, "the whole directive line, and nothing more, is consumed");
	__CPROVER_assert(g_nset == 1, "the presumed location is set once");
	__CPROVER_assert(g_line == g_N, "the line FOLLOWING the directive is line N, whatever comes after N on the directive line");
	__CPROVER_assert(in_hasfile ? (g_file[0] == in_f0 && g_file[1] == in_f1 && g_file[2] == 0) : g_file == startfile,
	                 "the presumed file name is the given one (quotes stripped), or unchanged");
#ifdef VERIF_CANARY
	__CPROVER_assert(!(in_hasfile && in_blank), "CANARY");
#endif
}
