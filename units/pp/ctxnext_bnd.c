/* UNIT
{
 "id": "PP.ctxnext.bnd",
 "file": "pp.c", "function": "ctxnext", "also_functions": ["macrodone", "framenext", "ctxpush", "macroparam"],
 "properties": {"C12": "contract", "C19": "safety"},
 "mode": "harness",
 "unwind": 5, "unwind_failure": "violation",
 "variants": {"pop": ["-DV_SUBST=0"], "subst": ["-DV_SUBST=1"]},
 "kind": "bounded",
 "bound": "pop: a context stack of 0..3 frames, each with 0..2 pending tokens and belonging to an object-like macro or to none; subst: one frame of a function-like macro with parameters (a, b) whose next tokens are one of: a parameter, `#` parameter, another identifier, a number; arguments of 0..2 tokens",
 "timeout": 300,
 "assumes": ["arrayadd() is a fixed-capacity append (UTIL.arrayadd); free() is a no-op (the argument storage of the finished macro is released: not observable)",
             "macroparam() is the real one (PP.macroparam) with one-character parameter names"]
}
*/
#include <stdlib.h>
#define free(p) ((void)(p))
#include "pp.c"
#undef free
#include "verif.h"

struct token tok;
void *
arrayadd(struct array *a, size_t n)
{
	void *v;
	__CPROVER_assert(a->cap - a->len >= n, "stays inside the buffer this unit provides");
	v = (char *)a->val + a->len;
	a->len += n;
	return v;
}

/* util.c:arraylast (UTIL.arraylast proves the real one returns exactly this) */
void *arraylast(struct array *a, size_t n) { if (a->len == 0) return 0; return (char *)a->val + a->len - n; }

#define NF 4
static struct frame frames[NF];
static struct macro mac[3];
static struct token pool[3][2];

/*
 * C11 6.10.3.4: the replacement list is rescanned "along with all subsequent preprocessing tokens of the source file":
 * tokens come from the innermost unfinished replacement first; when a replacement list is used up the macro is replaceable
 * again (its "being replaced" mark is dropped, PP.expand sets it) and the scan continues in the enclosing context; only when
 * every context is used up does the source file continue (NULL).
 * 6.10.3.1 / 6.10.3.2: inside a function-like macro's list a parameter is replaced by the tokens of its argument (none for an
 * empty argument), `# parameter` by the single string literal made from the argument; other tokens pass unchanged.
 */
void
harness(void)
{
#if !V_SUBST
	IN(unsigned, in_n); IN(unsigned, in_c0); IN(unsigned, in_c1); IN(unsigned, in_c2);
	IN(bool, in_m0); IN(bool, in_m1); IN(bool, in_m2); IN(size_t, in_depth); IN(bool, in_paint);
	unsigned cnt[3], i, top, npop;
	bool hasm[3];
	struct token *r;

	__CPROVER_assume(in_n <= 3 && in_c0 <= 2 && in_c1 <= 2 && in_c2 <= 2 && in_depth >= 3 && in_depth < 1000);
	cnt[0] = in_c0; cnt[1] = in_c1; cnt[2] = in_c2; hasm[0] = in_m0; hasm[1] = in_m1; hasm[2] = in_m2;
	for (i = 0; i < 3; i++) {
		mac[i].kind = MACROOBJ; mac[i].hide = true; mac[i].nparam = 0; mac[i].token = &pool[i][0]; mac[i].ntoken = 2;
		pool[i][0].hide = false; pool[i][1].hide = in_paint;     /* a name met during its own replacement was marked in place (PP.expand) */
		pool[i][0].kind = TNUMBER; pool[i][1].kind = TIDENT; pool[i][0].lit = pool[i][1].lit = "x";
		frames[i].token = &pool[i][0]; frames[i].ntoken = cnt[i]; frames[i].macro = hasm[i] ? &mac[i] : (struct macro *)0;
	}
	ctx.val = frames; ctx.cap = sizeof(frames); ctx.len = in_n * sizeof(frames[0]);
	macrodepth = in_depth;

	r = ctxnext();

	/* the innermost frame with pending tokens */
	top = 3; npop = 0;
	if (in_n >= 1 && cnt[0]) top = 0;
	if (in_n >= 2 && cnt[1]) top = 1;
	if (in_n >= 3 && cnt[2]) top = 2;
	__CPROVER_assert((r == 0) == (top == 3), "NULL iff every context is used up");
	__CPROVER_assert(IMP(top == 3, ctx.len == 0), "then the context stack is empty");
	__CPROVER_assert(IMP(top != 3, ctx.len == (top + 1) * sizeof(frames[0])), "finished contexts above the innermost unfinished one are dropped, that one stays");
	__CPROVER_assert(IMP(top == 0, r == &pool[0][0] && frames[0].token == &pool[0][1] && frames[0].ntoken == cnt[0] - 1), "the next token of that context is delivered and the context advances by one");
	__CPROVER_assert(IMP(top == 1, r == &pool[1][0] && frames[1].token == &pool[1][1] && frames[1].ntoken == cnt[1] - 1), "the next token of that context is delivered and the context advances by one");
	__CPROVER_assert(IMP(top == 2, r == &pool[2][0] && frames[2].token == &pool[2][1] && frames[2].ntoken == cnt[2] - 1), "the next token of that context is delivered and the context advances by one");
	for (i = 0; i < 3; i++) {
		bool popped = i < in_n && (top == 3 || i > top);
		if (popped && hasm[i]) npop++;
		__CPROVER_assert(mac[i].hide == !(popped && hasm[i]), "a macro whose replacement list is used up is replaceable again; every other macro keeps its mark");
		__CPROVER_assert(IMP(popped && hasm[i], !pool[i][0].hide && !pool[i][1].hide), "6.10.3.4p2 speaks of the token INSTANCES of one replacement: when it is finished the stored replacement list is as defined again, so that 'each subsequent instance of the macro name' (6.10.3p9) is replaced by the same list");
		__CPROVER_assert(IMP(i < in_n && top != 3 && i < top, frames[i].ntoken == cnt[i] && frames[i].token == &pool[i][0]), "enclosing contexts are untouched");
	}
	__CPROVER_assert(macrodepth == in_depth - npop, "nesting depth drops by the number of finished replacements");
#ifdef VERIF_CANARY
	__CPROVER_assert(!(top == 1 && in_n == 3 && npop == 1), "CANARY");
#endif
#else
	/* one frame of f(a, b): next tokens  t0 [t1]  */
	enum { K_A, K_B, K_C, K_NUM, K_HASH_A, K_HASH_B, K_N };
	static struct macroparam params[2]; static struct macroarg args[2]; static struct token at[2][2]; static struct token body[3];
	static char n_a[] = "a", n_b[] = "b", n_c[] = "c";
	IN(unsigned, in_k); IN(bool, in_space); IN(unsigned, in_na); IN(unsigned, in_nb); IN(bool, in_more);
	struct token *r; unsigned which, used, narg;

	__CPROVER_assume(in_k < K_N && in_na <= 2 && in_nb <= 2);
	params[0].name = n_a; params[1].name = n_b;
	mac[0].kind = MACROFUNC; mac[0].hide = true; mac[0].nparam = 2; mac[0].param = params; mac[0].arg = args; mac[0].token = body; mac[0].ntoken = 3;
	args[0].token = at[0]; args[0].ntoken = in_na; args[1].token = at[1]; args[1].ntoken = in_nb;
	args[0].str.kind = TSTRINGLIT; args[1].str.kind = TSTRINGLIT;
	at[0][0].kind = at[0][1].kind = at[1][0].kind = at[1][1].kind = TNUMBER;
	used = (in_k == K_HASH_A || in_k == K_HASH_B) ? 2 : 1;
	if (used == 2) { body[0].kind = THASH; body[0].lit = 0; body[1].kind = TIDENT; body[1].lit = in_k == K_HASH_A ? n_a : n_b; }
	else { body[0].kind = in_k == K_NUM ? TNUMBER : TIDENT; body[0].lit = in_k == K_A ? n_a : in_k == K_B ? n_b : n_c; body[1].kind = TNUMBER; body[1].lit = n_c; }
	body[0].space = in_space; body[2].kind = TNUMBER; body[2].lit = n_c;
	frames[0].token = body; frames[0].ntoken = used + (in_more ? 1 : 0); frames[0].macro = &mac[0];
	ctx.val = frames; ctx.cap = sizeof(frames); ctx.len = sizeof(frames[0]);
	macrodepth = 1;

	r = ctxnext();

	which = (in_k == K_A || in_k == K_HASH_A) ? 0 : 1;
	narg = which == 0 ? in_na : in_nb;
	if (in_k == K_C || in_k == K_NUM) {
		__CPROVER_assert(r == &body[0] && ctx.len == sizeof(frames[0]) && frames[0].token == &body[1], "tokens that are not parameters pass unchanged");
	} else if (used == 2) {
		__CPROVER_assert(r == &args[which].str && r->kind == TSTRINGLIT, "`# parameter` is replaced by the string literal made from that parameter's argument");
		__CPROVER_assert(r->space == in_space, "it takes the white-space separation of the # token");
		__CPROVER_assert(frames[0].token == &body[2] && frames[0].ntoken == (in_more ? 1 : 0), "both the # and the parameter are consumed");
		__CPROVER_assert(ctx.len == 2 * sizeof(frames[0]) && frames[1].ntoken == 0 && frames[1].macro == 0, "the literal is delivered once");
	} else if (narg > 0) {
		__CPROVER_assert(r == &at[which][0], "a parameter is replaced by the first token of ITS argument ...");
		__CPROVER_assert(r->space == in_space, "... which takes the parameter's white-space separation");
		__CPROVER_assert(ctx.len == 2 * sizeof(frames[0]) && frames[1].token == &at[which][1] && frames[1].ntoken == narg - 1 && frames[1].macro == 0, "... followed by the rest of that argument");
		__CPROVER_assert(frames[0].token == &body[1] && frames[0].ntoken == (in_more ? 1 : 0), "the parameter itself is consumed");
	} else if (in_more) {
		__CPROVER_assert(r == &body[1] && ctx.len == sizeof(frames[0]) && frames[0].ntoken == 0, "an empty argument contributes no token: the token after the parameter is next");
	} else {
		__CPROVER_assert(r == 0 && ctx.len == 0 && !mac[0].hide && macrodepth == 0, "an empty argument at the end of the list ends the replacement");
	}
	__CPROVER_assert(IMP(r != 0, mac[0].hide && macrodepth == 1), "the macro stays marked while its list is not used up");
#ifdef VERIF_CANARY
	__CPROVER_assert(!(in_k == K_HASH_B && in_more), "CANARY");
#endif
#endif
}
