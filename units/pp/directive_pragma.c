/* UNIT
{
 "id": "PP.directive.pragma",
 "file": "pp.c", "function": "directive",
 "properties": {"C12": "contract", "C19": "safety"},
 "mode": "harness",
 "replace_calls": {"next": "stub_next"},
 "unwind": 8, "unwindset": ["strcmp.0:8"],
 "kind": "proof-const-unwind",
 "bound": "`# pragma t1 .. tN new-line` and the null directive `# new-line`, N = 0..3 tokens of any kind (identifiers may name function-like macros)",
 "timeout": 200, "replay": false,
 "assumes": ["scan() is a token-script stand-in; tokencheck() returns the token text or diagnoses",
             "next() (macro-expanding, with look-ahead for '(' ACROSS line ends, PP.peekparen.bnd) is replaced by a stub that fails when reached"]
}
*/
/*
 * C11 6.10.6p1: "A preprocessing directive of the form # pragma pp-tokens(opt) new-line ... Any such pragma that is not recognized
 * by the implementation is ignored."  6.10p2: the directive ends at the first new-line.  6.10.7: `# new-line` has no effect.
 * So the line is skipped as raw preprocessing tokens up to ITS new-line: skipping must not run the macro-expanding next(), whose
 * look-ahead after a function-like macro name reads past the new-line and leaves tokens of the NEXT line pending behind the
 * directive (`#define pack(x) x` / `#pragma pack` / `int v;` was rejected).
 */
#include <stdlib.h>
#define free(p) ((void)(p))
#include "pp.c"
#undef free
#include "verif.h"

struct token tok;
extern int g_no_error;
#define NTOK 6
static enum tokenkind s_kind[NTOK]; static char *s_lit[NTOK]; static unsigned s_n, s_pos;
void scan(struct token *t) { __CPROVER_assert(s_pos < s_n, "directive() does not read past the end of its line"); t->kind = s_kind[s_pos]; t->lit = s_lit[s_pos]; s_pos++; }
void stub_next(void) { __CPROVER_assert(0, "the rest of a #pragma line is skipped as raw tokens: no macro expansion, no look-ahead beyond the new-line"); __CPROVER_assume(0); }
char *tokencheck(const struct token *t, enum tokenkind k, const char *msg) { if (t->kind != k) verif_noreturn(); return t->lit; }
void tokenprint(const struct token *t) { }
void scanfrom(const char *f, FILE *fp) { }
void scanopen(void) { }
void scansetloc(struct location loc) { __CPROVER_assert(0, "no #line here"); }
void *arrayadd(struct array *a, size_t n) { __CPROVER_assert(0, "not reached"); return 0; }
void *arraylast(struct array *a, size_t n) { return 0; }

void
harness(void)
{
	static char n_pragma[] = "pragma", n_f[] = "f";
	IN(bool, in_null); IN(unsigned, in_n); IN(int, in_k0); IN(int, in_k1); IN(int, in_k2); IN(int, in_flags);
	int k[3]; unsigned i, base;

	__CPROVER_assume(in_n <= 3 && (in_flags & ~PPNEWLINE) == 0);
	k[0] = in_k0; k[1] = in_k1; k[2] = in_k2;
	for (i = 0; i < 3; i++) __CPROVER_assume(k[i] != TNEWLINE && k[i] != TEOF);
	if (in_null) { s_kind[0] = TNEWLINE; s_lit[0] = 0; s_n = 1; }
	else {
		s_kind[0] = TIDENT; s_lit[0] = n_pragma; base = 1;
		for (i = 0; i < 4; i++) {
			if (i < in_n) { s_kind[1 + i] = k[i]; s_lit[1 + i] = k[i] == TIDENT ? n_f : (char *)0; }
			else if (i == in_n) { s_kind[1 + i] = TNEWLINE; s_lit[1 + i] = 0; }
		}
		s_n = 2 + in_n;
	}
	s_pos = 0; ppflags = in_flags; g_no_error = 1;

	directive();

	__CPROVER_assert(s_pos == s_n && tok.kind == TNEWLINE, "the whole directive line, and nothing more, is consumed");
	__CPROVER_assert(ppflags == (enum ppflags)in_flags, "the scanner mode is as before the directive");
#ifdef VERIF_CANARY
	__CPROVER_assert(!(in_n == 3 && in_k1 == TIDENT), "CANARY");
#endif
}
