/* UNIT
{
 "id": "PP.stringize.seq.bnd",
 "file": "pp.c", "function": "expandfunc",
 "properties": {"C12": "contract", "C14": "contract", "C19": "safety"},
 "mode": "harness",
 "unwind": 17,
 "replace_calls": {"rawnext": "stub_rawnext", "expand": "stub_expand"},
 "variants": {"flat": ["-DV_NESTED=0"], "nested": ["-DV_NESTED=1"]},
 "kind": "bounded",
 "bound": "the argument of one invocation of `#define h(x) #x`: up to 4 tokens, each an identifier `a`/`bc` (with or without preceding white space) or a new-line, then ')'; variant nested: the argument `bc(a)` of `#define S(x) #x x`, where bc is a function-like macro whose invocation expand() consumes from the same token stream",
 "timeout": 300, "replay": false,
 "assumes": ["rawnext() is a token-script stand-in, expand() answers `not replaced`; stringize() is the REAL one; arrayaddbuf() is a fixed-capacity append (UTIL.arrayaddbuf); xreallocarray() hands out a static array"]
}
*/
/*
 * C11 6.10.3.2p2: the # operator yields "a single character string literal preprocessing token that contains the spelling of the
 * preprocessing token sequence for the corresponding argument.  Each occurrence of white space between the argument's
 * preprocessing tokens becomes a single space character in the character string literal.  White space before the first
 * preprocessing token and after the last preprocessing token composing the argument is deleted."  New-lines inside an invocation
 * are white space (6.10.3p10).  This unit runs the real expandfunc() WITH the real stringize() over the whole argument.
 */
#include <stdlib.h>
#include "pp.c"
#include "verif.h"

struct token tok;
extern int g_no_error;
#define NS 4
static struct token script[NS + 2]; static unsigned s_pos;
struct token *stub_rawnext(void) { __CPROVER_assert(s_pos < NS + 2, "nothing is read after the closing parenthesis"); return &script[s_pos++]; }
#if V_NESTED
/* expand() of a function-like macro name reads its invocation `( a )` from the same stream (PP.expand -> expandfunc -> rawnext) */
bool stub_expand(struct token *t) { if (t == &script[0]) { s_pos += 3; return true; } return false; }
#else
bool stub_expand(struct token *t) { return false; }
#endif
static char strbuf[16];
void
arrayaddbuf(struct array *a, const void *src, size_t n)
{
	size_t i;
	if (!a->val) { a->val = strbuf; a->cap = sizeof(strbuf); }
	__CPROVER_assert(a->val == strbuf && a->cap - a->len >= n, "stays inside the buffer this unit provides");
	for (i = 0; i < 3; i++) if (i < n) ((char *)a->val)[a->len + i] = ((const char *)src)[i];
	a->len += n;
}
static struct macroarg argbuf[1];
void *xreallocarray(void *b, size_t n, size_t m) { return argbuf; }
void *xmalloc(size_t n) { void *p = malloc(n); __CPROVER_assume(p != 0); return p; }
char *tokencheck(const struct token *t, enum tokenkind k, const char *msg) { return t->lit; }
void tokenprint(const struct token *t) { }
void scan(struct token *t) { __CPROVER_assert(0, "not reached"); }
void scanfrom(const char *f, FILE *fp) { }
void scanopen(void) { }
void scansetloc(struct location loc) { }
void *arrayadd(struct array *a, size_t n) { __CPROVER_assert(0, "not reached"); return 0; }
void *arraylast(struct array *a, size_t n) { return 0; }
const char *tokstr[200] = {[TLPAREN] = "(", [TRPAREN] = ")"};    /* punctuator spellings (token.c): none needed here, new-line has none */

void
harness(void)
{
	static struct macro mac; static struct macroparam params[1]; static char n_a[] = "a", n_bc[] = "bc";
	IN(unsigned, in_n); IN(unsigned, in_c0); IN(unsigned, in_c1); IN(unsigned, in_c2); IN(unsigned, in_c3);
	IN(bool, in_s0); IN(bool, in_s1); IN(bool, in_s2); IN(bool, in_s3);
	unsigned c[NS], i, n = 0; bool sp[NS], ws = false;
	char want[16];

	__CPROVER_assume(in_n <= NS && in_c0 <= 2 && in_c1 <= 2 && in_c2 <= 2 && in_c3 <= 2);
	c[0] = in_c0; c[1] = in_c1; c[2] = in_c2; c[3] = in_c3; sp[0] = in_s0; sp[1] = in_s1; sp[2] = in_s2; sp[3] = in_s3;
	for (i = 0; i < NS + 2; i++) { script[i].kind = TEOF; script[i].lit = 0; script[i].space = false; }
	/* class 0: `a`, 1: `bc`, 2: new-line */
	for (i = 0; i < NS; i++)
		if (i < in_n) { script[i].kind = c[i] == 2 ? TNEWLINE : TIDENT; script[i].lit = c[i] == 0 ? n_a : c[i] == 1 ? n_bc : (char *)0; script[i].space = sp[i]; }
	if (in_n == 0) script[0].kind = TRPAREN; else if (in_n == 1) script[1].kind = TRPAREN; else if (in_n == 2) script[2].kind = TRPAREN; else if (in_n == 3) script[3].kind = TRPAREN; else script[4].kind = TRPAREN;
	s_pos = 0;
	for (i = 0; i < 16; i++) strbuf[i] = 'Z';     /* fresh storage is not zeroed */
	params[0].name = "x"; params[0].flags = PARAMSTR;
	mac.kind = MACROFUNC; mac.name = "h"; mac.param = params; mac.nparam = 1; mac.arg = 0;
	macrodepth = 0;

	/* 6.10.3.2p2 */
	want[n++] = '"';
	for (i = 0; i < NS; i++)
		if (i < in_n) {
			if (c[i] == 2) ws = true;
			else {
				if (n > 1 && (ws || sp[i])) want[n++] = ' ';
				want[n++] = c[i] == 0 ? 'a' : 'b';
				if (c[i] == 1) want[n++] = 'c';
				ws = false;
			}
		}
	want[n++] = '"'; want[n++] = 0;

#if V_NESTED
	/* S(bc(a)) with #define S(x) #x x: the spelling is that of the argument AS WRITTEN, `bc(a)` */
	script[0].kind = TIDENT; script[0].lit = n_bc; script[0].space = false;
	script[1].kind = TLPAREN; script[1].lit = 0; script[1].space = false;
	script[2].kind = TIDENT; script[2].lit = n_a; script[2].space = false;
	script[3].kind = TRPAREN; script[3].lit = 0; script[3].space = false;
	script[4].kind = TRPAREN; script[4].lit = 0;
	in_n = 4;
	params[0].flags = PARAMSTR | PARAMTOK;
	n = 0; want[n++] = '"'; want[n++] = 'b'; want[n++] = 'c'; want[n++] = '('; want[n++] = 'a'; want[n++] = ')'; want[n++] = '"'; want[n++] = 0;
#endif
	g_no_error = 1;
	expandfunc(&mac);

	__CPROVER_assert(s_pos == in_n + 1 && mac.arg == argbuf, "the invocation is read up to its closing parenthesis");
	__CPROVER_assert(mac.arg[0].str.kind == TSTRINGLIT && mac.arg[0].str.lit == strbuf, "# parameter gives ONE string literal token");
	for (i = 0; i < 16; i++)
		if (i < n)
			__CPROVER_assert(strbuf[i] == want[i], "6.10.3.2p2: spellings in order, each run of white space (new-lines included) between tokens one space, none before the first or after the last token");
#ifdef VERIF_CANARY
	__CPROVER_assert(!(in_n == 4 && n == (V_NESTED ? 8 : 9)), "CANARY");
#endif
}
