/* UNIT
{
 "id": "PP.macroequal",
 "file": "pp.c", "function": "macroequal",
 "properties": {"C12": "contract", "C10": "contract", "C19": "safety"},
 "mode": "harness",
 "unwind": 4,
 "kind": "bounded",
 "bound": "macros with up to 2 parameters and up to 2 replacement tokens; identifiers/spellings of 1 character; every combination of kinds, names, flags, spellings and white-space separation",
 "timeout": 200,
 "assumes": ["tokens of the same kind either both carry a spelling or neither does (the scanner attaches a spelling by token kind)"]
}
*/
#include "pp.c"
#include "verif.h"

struct token tok;

/*
 * C11 6.10.3p1-2: a macro may be redefined only by a definition that "is of the same kind, has the same number and
 * spelling of parameters, and the two replacement lists are identical": "the same number, ordering, spelling, and
 * white-space separation of their preprocessing tokens" (all white-space separations are considered identical).
 * macroequal() decides "benign redefinition" (C12: accepted) against "incompatible redefinition" (rejected).
 */
struct mdesc { int kind; unsigned np, nt; u8 pname[2]; int pflags[2]; int tkind[2]; u8 tlit[2]; bool thaslit[2]; bool tspace[2]; };

static void
build(struct macro *m, struct macroparam *ps, struct token *ts, char names[2][2], char lits[2][2], struct mdesc *d)
{
	unsigned i;
	m->kind = d->kind; m->name = "M"; m->hide = false; m->arg = 0;
	m->param = ps; m->nparam = d->np; m->token = ts; m->ntoken = d->nt;
	for (i = 0; i < 2; i++) {
		names[i][0] = d->pname[i]; names[i][1] = 0;
		ps[i].name = names[i]; ps[i].flags = d->pflags[i];
		lits[i][0] = d->tlit[i]; lits[i][1] = 0;
		ts[i].kind = d->tkind[i]; ts[i].lit = d->thaslit[i] ? &lits[i][0] : (char *)0; ts[i].space = d->tspace[i]; ts[i].hide = false;
	}
}

static bool
spec_equal(struct mdesc *a, struct mdesc *b)
{
	unsigned i;
	if (a->kind != b->kind) return false;
	if (a->kind == MACROFUNC) {
		if (a->np != b->np) return false;
		for (i = 0; i < 2; i++)
			if (i < a->np && (a->pname[i] != b->pname[i] || a->pflags[i] != b->pflags[i])) return false;
	}
	if (a->nt != b->nt) return false;
	for (i = 0; i < 2; i++) {
		if (i >= a->nt) continue;
		if (a->tkind[i] != b->tkind[i]) return false;
		if (a->thaslit[i] && a->tlit[i] != b->tlit[i]) return false;
		/* white-space separation BETWEEN tokens (space before the first token of the list is not part of it) */
		if (i > 0 && a->tspace[i] != b->tspace[i]) return false;
	}
	return true;
}

void
harness(void)
{
	static struct macro m1, m2; static struct macroparam p1[2], p2[2]; static struct token t1[2], t2[2];
	static char n1[2][2], n2[2][2], l1[2][2], l2[2][2];
	struct mdesc a, b;
	bool r;
	IN(int, a_kind); IN(unsigned, a_np); IN(unsigned, a_nt); IN(u8, a_p0); IN(u8, a_p1); IN(int, a_f0); IN(int, a_f1);
	IN(int, a_k0); IN(int, a_k1); IN(u8, a_l0); IN(u8, a_l1); IN(bool, a_h0); IN(bool, a_h1); IN(bool, a_s0); IN(bool, a_s1);
	IN(int, b_kind); IN(unsigned, b_np); IN(unsigned, b_nt); IN(u8, b_p0); IN(u8, b_p1); IN(int, b_f0); IN(int, b_f1);
	IN(int, b_k0); IN(int, b_k1); IN(u8, b_l0); IN(u8, b_l1); IN(bool, b_s0); IN(bool, b_s1);

	a = (struct mdesc){a_kind, a_np, a_nt, {a_p0, a_p1}, {a_f0, a_f1}, {a_k0, a_k1}, {a_l0, a_l1}, {a_h0, a_h1}, {a_s0, a_s1}};
	/* same kind => same "has a spelling" */
	b = (struct mdesc){b_kind, b_np, b_nt, {b_p0, b_p1}, {b_f0, b_f1}, {b_k0, b_k1}, {b_l0, b_l1}, {b_k0 == a_k0 ? a_h0 : !a_h0, b_k1 == a_k1 ? a_h1 : !a_h1}, {b_s0, b_s1}};
	__CPROVER_assume((a_kind == MACROOBJ || a_kind == MACROFUNC) && (b_kind == MACROOBJ || b_kind == MACROFUNC));
	__CPROVER_assume(a_np <= 2 && b_np <= 2 && a_nt <= 2 && b_nt <= 2);
	__CPROVER_assume(a_p0 && a_p1 && b_p0 && b_p1 && a_l0 && a_l1 && b_l0 && b_l1);
	build(&m1, p1, t1, n1, l1, &a);
	build(&m2, p2, t2, n2, l2, &b);

	r = macroequal(&m1, &m2);

	__CPROVER_assert(r == spec_equal(&a, &b), "identical iff same kind, same parameters (count, spelling, use), same tokens (count, order, spelling) and same white-space separation");
#ifdef VERIF_CANARY
	__CPROVER_assert(!(r && a_nt == 2 && a_kind == MACROFUNC), "CANARY");
#endif
}
