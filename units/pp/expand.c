/* UNIT
{
 "id": "PP.expand",
 "file": "pp.c", "function": "expand",
 "properties": {"C12": "contract", "C19": "safety"},
 "mode": "harness",
 "replace_calls": {"macroget": "stub_macroget", "peekparen": "stub_peekparen", "expandfunc": "rec_expandfunc", "ctxpush": "rec_ctxpush"},
 "kind": "proof",
 "timeout": 100, "replay": false,
 "assumes": ["macroget() is the table lookup (MAP.* units): it yields the definition entered for that spelling or NULL, here an arbitrary one of the two",
             "peekparen() is replaced by its verdict (is the next token a '('), expandfunc() (argument collection, PP.expandfunc.bnd) and ctxpush() (one-liner that records the frame) by recorders"]
}
*/
/*
 * C11 6.10.3p10: a function-like macro name is replaced only when the next preprocessing token is '('.
 * 6.10.3.4p2: "If the name of the macro being replaced is found during this scan of the replacement list ..., it is not
 * replaced.  Furthermore ... These nonreplaced macro name preprocessing tokens are no longer available for further
 * replacement even if they are later (re)examined in contexts in which that macro name preprocessing token would
 * otherwise have been replaced."   cproc: m->hide is "being replaced", t->hide is "no longer available".
 * Tokens that are not identifiers, and identifiers that name no macro, are never replaced.
 * A replacement pushes exactly the macro's replacement list (with the invocation's white-space flag), marks the macro as
 * being replaced and counts one more nesting level, which macrodone() undoes (PP.macrodone).
 */
#include "pp.c"
#include "verif.h"

struct token tok;
struct macro *g_m; bool g_paren;
static int g_nget, g_npeek, g_nfunc, g_npush, g_seq, g_func_at, g_push_at;
static struct token *g_pt; static size_t g_pn; static struct macro *g_pm; static bool g_pspace; static char *g_getname;
static bool g_hide_at_func, g_hide_at_peek;
static struct frame g_frame;

struct macro *stub_macroget(char *name) { g_nget++; g_getname = name; return g_m; }
bool stub_peekparen(void) { g_npeek++; if (g_m) g_hide_at_peek = g_m->hide; return g_paren; }
void rec_expandfunc(struct macro *m) { g_nfunc++; g_func_at = ++g_seq; g_pm = m; if (m) g_hide_at_func = m->hide; }
struct frame *rec_ctxpush(struct token *t, size_t n, struct macro *m, bool space) { g_npush++; g_push_at = ++g_seq; g_pt = t; g_pn = n; g_pm = m; g_pspace = space; return &g_frame; }

void
harness(void)
{
	static struct macro mac; static struct token t; static struct token body[4]; static char name[2] = "M";
	IN(int, in_kind); IN(bool, in_thide); IN(bool, in_space); IN(bool, in_has); IN(bool, in_mhide); IN(int, in_mkind);
	IN(size_t, in_ntoken); IN(size_t, in_depth);
	ING(bool, g_paren);
	bool r, replaced;

	__CPROVER_assume(in_mkind == MACROOBJ || in_mkind == MACROFUNC);
	__CPROVER_assume(in_depth < (size_t)-1);
	mac.kind = in_mkind; mac.name = name; mac.hide = in_mhide; mac.token = body; mac.ntoken = in_ntoken; mac.nparam = 0;
	t.kind = in_kind; t.lit = name; t.hide = in_thide; t.space = in_space;
	g_m = in_has ? &mac : (struct macro *)0;
	g_nget = g_npeek = g_nfunc = g_npush = g_seq = g_func_at = g_push_at = 0; g_hide_at_func = g_hide_at_peek = true;
	macrodepth = in_depth;

	r = expand(&t);

	replaced = in_kind == TIDENT && in_has && !in_mhide && !in_thide && (in_mkind == MACROOBJ || g_paren);
	__CPROVER_assert(r == replaced, "a token is replaced iff it is an identifier that names a macro which is not being replaced, is still available for replacement, and (function-like macro) is followed by '('");
	__CPROVER_assert(IMP(in_kind != TIDENT, g_nget == 0 && t.hide == in_thide), "tokens other than identifiers are left alone");
	__CPROVER_assert(IMP(in_kind == TIDENT, g_nget == 1 && g_getname == name), "the macro is looked up by the token's spelling");
	__CPROVER_assert(IMP(in_kind == TIDENT && (!in_has || in_mhide), t.hide), "6.10.3.4p2: a name met while its own macro is being replaced (or that names no macro) is marked no longer available for replacement");
	__CPROVER_assert(IMP(in_kind == TIDENT && in_has && !in_mhide, t.hide == in_thide), "otherwise the token's availability is unchanged");
	__CPROVER_assert(g_npeek == (in_kind == TIDENT && in_has && !in_mhide && !in_thide && in_mkind == MACROFUNC ? 1 : 0), "the token after the name is inspected only for an available function-like macro");
	__CPROVER_assert(IMP(g_npeek, !g_hide_at_peek), "while looking for '(' the macro is not yet marked as being replaced");
	__CPROVER_assert(g_nfunc == (replaced && in_mkind == MACROFUNC ? 1 : 0) && g_npush == (replaced ? 1 : 0), "arguments are collected once for a function-like replacement; one frame is pushed per replacement and none otherwise");
	__CPROVER_assert(IMP(g_nfunc, g_func_at < g_push_at && !g_hide_at_func), "arguments are collected before the replacement list is pushed, with the macro itself still replaceable inside its arguments (6.10.3.1)");
	__CPROVER_assert(IMP(replaced, g_pt == body && g_pn == in_ntoken && g_pm == &mac && g_pspace == in_space), "the frame is the macro's replacement list, attributed to the macro, with the invocation's white-space flag");
	__CPROVER_assert(mac.hide == (in_mhide || (replaced && in_has)), "the macro is marked as being replaced iff it was, or has just been replaced");
	__CPROVER_assert(macrodepth == in_depth + (replaced ? 1 : 0), "nesting depth counts the replacements in progress");
	__CPROVER_assert(t.kind == in_kind && t.lit == name && t.space == in_space, "the token itself is not rewritten");
#ifdef VERIF_CANARY
	__CPROVER_assert(!(replaced && in_mkind == MACROFUNC), "CANARY");
#endif
}
