/* UNIT
{
 "id": "PP.keyword",
 "file": "pp.c", "function": "keyword",
 "properties": {"C13": "contract", "C19": "safety"},
 "mode": "dfcc", "enforce": "keyword/keyword_contract", "post_macro": "POST_KW",
 "kind": "proof-const-unwind",
 "bound": "identifier spellings of at most 16 bytes (longest keyword spelling: 14); the bisection loop is unwound 8 times (70 entries need 7), strcmp 18",
 "unwindset": ["keyword_wrapped_for_contract_checking.0:8", "strcmp.0:18"],
 "cbmc_flags": ["--drop-unused-functions"],
 "timeout": 200,
 "expects": ["postcondition", "assigns"],
 "assumes": ["strcmp/free are CBMC's library models",
             "the C23 keyword _BitInt is excluded here and stated separately in PP.keyword.bitint (a finding on the pinned tree)"]
}
*/
#include "keyword_common.h"

/*
 * C11 6.4.2.1p4 / 6.4.1: an identifier token whose spelling is a keyword is that keyword (translation phase 7).
 * For EVERY spelling in the oracle's list the token kind becomes the kind of the standard's keyword of that name
 * (all spellings of one keyword give one kind); for EVERY other string the token stays an identifier and keeps its
 * spelling.  Keyword tokens carry no spelling (tokstr[kind] gives it): lit is reset; the storage is NOT released: the token is a copy and the spelling may belong to a macro replacement list (PP.next), so the contract has no frees clause.
 */
#define POST_KW(X) \
	X(IMP(!lex_is_bitint(g_b), tok->kind == lex_keyword_kind(g_b))) \
	X(IMP(lex_keyword_kind(g_b) != TIDENT, tok->lit == 0)) \
	X(IMP(lex_keyword_kind(g_b) == TIDENT && !lex_is_bitint(g_b), tok->lit == g_lit && B_SAME)) \
	X(tok->kind == TIDENT || tok->lit == 0) \
	CANARY(X, !(g_b[0] == 'w' && g_b[1] == 'h' && g_b[2] == 'i' && g_b[3] == 'l' && g_b[4] == 'e' && g_b[5] == 0))

static void keyword_contract(struct token *tok)
REQUIRES(PRE_KW)
__CPROVER_assigns(tok->kind, tok->lit)
ENSURES(POST_KW);

void
harness(void)
{
	static struct token t;
	struct token *tok = &t;
	IN(u64, in_w0);
	IN(u64, in_w1);

	kw_fill(tok, in_w0, in_w1);
	CALL(PRE_KW, POST_KW, keyword(tok));
}
