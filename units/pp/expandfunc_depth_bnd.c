/* UNIT
{
 "id": "PP.expandfunc.depth.bnd",
 "file": "pp.c", "function": "expandfunc",
 "properties": {"C12": "contract", "C19": "safety"},
 "mode": "harness",
 "unwind": 8,
 "replace_calls": {"rawnext": "stub_rawnext", "expand": "stub_expand", "stringize": "rec_stringize"},
 "variants": {"p1": ["-DV_NP=1", "-DV_VAR=0"], "p2": ["-DV_NP=2", "-DV_VAR=0"], "p1var": ["-DV_NP=1", "-DV_VAR=1"]},
 "kind": "bounded",
 "bound": "the tokens after the '(' of one invocation: up to 5 tokens drawn from {number, ',', '(', ')', one object-like macro name} then end of file; the macro name is replaced by 0..2 tokens (number, ',', '(' or ')') delivered one expansion level deeper; the invocation itself starts at expansion depth 0 or 1 and in the latter case the enclosing replacement list runs out (depth drops) before any one of the tokens",
 "timeout": 600, "replay": false,
 "assumes": ["rawnext()/expand() are stand-ins that deliver a token script TOGETHER WITH the expansion depth (macrodepth) the real expand()/ctxnext()/macrodone() would have established for each token (PP.expand: +1 per replacement in progress; PP.ctxnext.bnd: -1 per finished replacement list); stringize() is a recorder; arrayaddbuf()/xreallocarray() as in PP.expandfunc.bnd"]
}
*/
/*
 * C11 6.10.3p11 + 6.10.3.1p1: the arguments are identified in the token sequence AT THE LEVEL OF THE INVOCATION, before any
 * macro inside them is expanded; a comma or parenthesis that results from expanding a macro inside an argument is an ordinary
 * token of that argument.  cproc expands while collecting and tells the two kinds of token apart by the expansion depth, which
 * may also DROP during the collection: an invocation can begin in a replacement list (`#define h f(` ... `h w, 9)`) and
 * continue in the enclosing context or the source file once that list is used up.
 */

#include <stdlib.h>
#include "pp.c"
#include "verif.h"

struct token tok;
extern int g_no_error;

#ifndef NS
#define NS 5
#endif
static struct token script[NS + 2];
static unsigned s_n, s_pos;
static unsigned g_d0, g_drop, g_mpos, g_mlen;
#define INNER(p) ((p) > g_mpos && (p) <= g_mpos + g_mlen)
struct token *
stub_rawnext(void)
{
	__CPROVER_assert(s_pos <= s_n, "nothing is read after the end of file");
	/* the depth the real machinery would have established when it delivers this token */
	macrodepth = (g_d0 && s_pos < g_drop ? 1 : 0) + (INNER(s_pos) ? 1 : 0);
	return &script[s_pos++];
}
bool stub_expand(struct token *t) { return t->loc.col == g_mpos; }
static unsigned g_nstr; static int g_strcol[NS];
void rec_stringize(struct array *buf, struct token *t) { if (g_nstr < NS) g_strcol[g_nstr] = t->loc.col; g_nstr++; }

static struct token tokbuf[NS + 1]; static char strbuf[8];
void
arrayaddbuf(struct array *a, const void *src, size_t n)
{
	if (!a->val) {
		if (n == sizeof(struct token)) { a->val = tokbuf; a->cap = sizeof(tokbuf); }
		else { a->val = strbuf; a->cap = sizeof(strbuf); }
	}
	__CPROVER_assert(a->cap - a->len >= n, "stays inside the buffer this unit provides");
	if (n == sizeof(struct token)) *(struct token *)((char *)a->val + a->len) = *(const struct token *)src;
	else { size_t i; for (i = 0; i < n && i < 2; i++) ((char *)a->val)[a->len + i] = ((const char *)src)[i]; }
	a->len += n;
}
static struct macroarg argbuf[3];
void *xreallocarray(void *b, size_t n, size_t m) { __CPROVER_assert(b == 0 && n <= 3 && m == sizeof(struct macroarg), "argument table for nparam arguments"); return argbuf; }
void *xmalloc(size_t n) { void *p = malloc(n); __CPROVER_assume(p != 0); return p; }

/*
 * C11 6.10.3p11: "The sequence of preprocessing tokens bounded by the outside-most matching parentheses forms the list of
 * arguments for the function-like macro.  The individual arguments within the list are separated by comma preprocessing
 * tokens, but comma preprocessing tokens between matching inner parentheses do not separate arguments."  p12: with `...`
 * the trailing arguments "including any separating comma preprocessing tokens, are merged to form a single item".
 * p4: the number of arguments shall equal the number of parameters (more than the named ones when variadic); an invocation
 * that does not is diagnosed, as is an unterminated one (p11 requires the closing parenthesis).
 */
void
harness(void)
{
	static struct macro mac; static struct macroparam params[2]; static char n_a[] = "a", n_b[] = "b", n_w[] = "w";
	IN(unsigned, in_n); IN(int, in_k0); IN(int, in_k1); IN(int, in_k2); IN(int, in_k3); IN(int, in_k4); IN(int, in_k5);
	IN(unsigned, in_d0); IN(unsigned, in_drop); IN(unsigned, in_mpos); IN(unsigned, in_mlen);
	int k[NS]; unsigned i, np = V_NP;
	/* oracle state */
	unsigned cur = 0, depth = 0, cnt[3] = {0, 0, 0}, end = NS + 1, want[2][NS]; bool done = false, toomany = false;

	__CPROVER_assume(in_n <= NS && in_d0 <= 1 && in_drop <= NS && in_mlen <= 2 && (in_mpos == NS + 4 || in_mpos + in_mlen < in_n));
	__CPROVER_assume(!(in_drop >= in_mpos + 1 && in_drop <= in_mpos + in_mlen));   /* the enclosing list is only dropped once the inner replacement above it is used up (ctxnext pops from the top) */
	k[0] = in_k0; k[1] = in_k1; k[2] = in_k2; k[3] = in_k3; k[4] = in_k4; (void)in_k5;
	g_d0 = in_d0; g_drop = in_drop; g_mpos = in_mpos; g_mlen = in_mlen;
	for (i = 0; i < NS; i++) {
		__CPROVER_assume(k[i] == TNUMBER || k[i] == TCOMMA || k[i] == TLPAREN || k[i] == TRPAREN);
		script[i].kind = i < in_n ? (i == in_mpos ? TIDENT : k[i]) : TEOF; script[i].loc.col = i; script[i].lit = i == in_mpos ? n_w : (char *)0; script[i].space = false; script[i].hide = false;
	}
	script[NS].kind = TEOF; script[NS].loc.col = NS; script[NS + 1].kind = TEOF; script[NS + 1].loc.col = NS + 1;
	s_n = NS + 1; s_pos = 0; g_nstr = 0;
	params[0].name = n_a; params[0].flags = PARAMTOK;
	params[1].name = n_b; params[1].flags = PARAMTOK;
	if (V_VAR) params[np - 1].flags |= PARAMVAR;
	mac.kind = MACROFUNC; mac.name = "f"; mac.param = params; mac.nparam = np; mac.hide = false; mac.arg = 0;
	macrodepth = in_d0;
	{ IN(size_t, in_junk0); IN(size_t, in_junk1); argbuf[0].ntoken = in_junk0; argbuf[1].ntoken = in_junk1; }  /* fresh storage is not zeroed */

	/* what 6.10.3p11/p12 + 6.10.3.1 say about this token sequence: only tokens at the level of the invocation separate or nest */
	for (i = 0; i < NS; i++) {
		if (i < in_n && !done) {
			bool var = V_VAR && cur == np - 1;
			if (INNER(i)) { want[cur][cnt[cur]] = i; cnt[cur]++; }
			else if (i == in_mpos) { /* the macro name is replaced: not part of the argument */ }
			else if (depth == 0 && k[i] == TRPAREN) { done = true; end = i; }
			else if (depth == 0 && k[i] == TCOMMA && !var) { cur++; if (cur >= np) { toomany = true; done = true; } }
			else { if (k[i] == TLPAREN) depth++; if (k[i] == TRPAREN) depth--; want[cur][cnt[cur]] = i; cnt[cur]++; }
		}
	}
	{
		bool wf = done && !toomany && end <= NS && cur + 1 == np;
		g_no_error = wf;

		expandfunc(&mac);

		__CPROVER_assert(wf, "6.10.3p4/p11: an invocation with too few or too many arguments AT ITS OWN LEVEL, or without its closing parenthesis, is diagnosed");
		__CPROVER_assume(wf);
	}
	__CPROVER_assert(s_pos == end + 1, "the invocation ends at the parenthesis of its own level matching the opening one");
	__CPROVER_assert(mac.arg == argbuf, "the arguments are attached to the macro");
	for (i = 0; i < 2; i++)
		if (i < np) {
			unsigned j;
			__CPROVER_assert(mac.arg[i].ntoken == cnt[i], "6.10.3.1: commas and parentheses produced by expanding a macro inside an argument neither separate arguments nor nest; they are tokens of the argument");
			for (j = 0; j < NS; j++)
				if (j < cnt[i])
					__CPROVER_assert(mac.arg[i].token[j].loc.col == want[i][j], "argument tokens in order: own-level tokens and the expansion of the inner macro, the macro name itself replaced");
		}
#ifdef VERIF_CANARY
	__CPROVER_assert(!(in_d0 == 1 && in_drop >= 1 && in_drop <= in_mpos && in_mlen >= 1 && end == 4), "CANARY");
#endif
}
