/* UNIT
{
 "id": "PP.macroparam",
 "file": "pp.c", "function": "macroparam",
 "properties": {"C12": "contract", "C19": "safety"},
 "mode": "dfcc", "enforce": "macroparam/macroparam_contract",
 "loop_contracts": {"macroparam": [{"loop_id": "0",
     "assigns": "i",
     "invariants": "i <= m->nparam && (g_j < i ==> g_ne[g_j] != 0)",
     "decreases": "m->nparam - i",
     "symbol_map": "i,macroparam::1::i;m,macroparam::m"}]},
 "loops_expected": {"macroparam": 1},
 "unwind": 66, "replay": false,
 "kind": "proof",
 "timeout": 200,
 "expects": ["postcondition", "loop_invariant_step", "loop_decreases", "pointer_dereference"],
 "assumes": ["strcmp (libc, external) is represented by its verdict per parameter: g_ne[k] != 0 iff the k-th parameter's name differs from the token's spelling; name storage is one byte per parameter in this unit so that the stand-in can tell WHICH parameter it was asked about",
             "at most 64 parameters (size of the parameter array object in the harness; the loop contract itself is independent of the count)"]
}
*/
/*
 * C12 (C11 6.10.3p10, 6.10.3.1): a parameter is recognised in the replacement list by its NAME; with uniquely declared
 * parameters (6.10.3p6, PP.define.bnd) the index returned for an identifier token is that of the parameter of that name,
 * and (size_t)-1 for every other token.  The ghost index g_j ranges over all smaller indices ("first match").
 */
#include "pp.c"
#include "verif.h"

#define NPARAM 64
char g_names[NPARAM];          /* g_names[k] is the storage of the k-th parameter's name */
int g_ne[NPARAM];              /* verdict of strcmp(param k's name, token spelling) */
size_t g_j;                    /* ghost: any index */
char g_lit[1];
struct macroparam *g_param; size_t g_nparam; int g_kind;

int
strcmp(const char *a, const char *b)
{
	__CPROVER_assert(__CPROVER_same_object(a, g_names) && b == g_lit, "strcmp is asked about a parameter name and the token's spelling");
	return g_ne[__CPROVER_POINTER_OFFSET(a)];
}

#define PRE(X) \
	X(m != 0 && t != 0) \
	X(m->param == g_param && m->nparam == g_nparam && g_nparam <= NPARAM) \
	X(t->kind == g_kind && t->lit == g_lit)

#define POST(X) \
	X(IMP(g_kind != TIDENT, RET == (size_t)-1)) \
	X(RET == (size_t)-1 || RET < g_nparam) \
	X(IMP(RET != (size_t)-1, g_ne[RET] == 0)) \
	X(IMP(g_kind == TIDENT && g_j < g_nparam && (RET == (size_t)-1 || g_j < RET), g_ne[g_j] != 0)) \
	CANARY(X, !(RET == 5))

static size_t macroparam_contract(struct macro *m, struct token *t)
REQUIRES(PRE)
__CPROVER_assigns()
ENSURES(POST);

void
harness(void)
{
	static struct macro mac; static struct token tk; static struct macroparam params[NPARAM];
	IN(size_t, in_nparam); IN(int, in_kind); IN(size_t, in_j);
	struct macro *m = &mac; struct token *t = &tk;
	size_t k;

	__CPROVER_assume(in_nparam <= NPARAM);
	for (k = 0; k < NPARAM; k++) { params[k].name = &g_names[k]; params[k].flags = 0; }
	mac.kind = MACROFUNC; mac.param = params; mac.nparam = in_nparam;
	tk.kind = in_kind; tk.lit = g_lit;
	g_param = params; g_nparam = in_nparam; g_kind = in_kind; g_j = in_j;
	CALLR(size_t, PRE, POST, macroparam(m, t));
}
