/* UNIT
{
 "id": "INIT.subobj",
 "file": "init.c", "function": "subobj",
 "properties": {"C19": "contract", "C07": "contract"},
 "mode": "dfcc", "enforce": "subobj/subobj_contract",
 "kind": "proof",
 "timeout": 120,
 "expects": ["postcondition", "assigns"],
 "assumes": ["p->sub points into p->obj[0..31] on entry (established by parseinit: p.sub = p.obj; every other update of p->sub is this function, --p->sub in advance()/findmember() after a matching push, or p->sub = p->cur)"]
}
*/
#include "init.c"
#include "verif.h"

/* ghosts */
unsigned g_i;                  /* depth on entry: p->sub == &p->obj[g_i] */
u64 g_off0;                    /* p->sub->offset on entry */
unsigned g_j;                  /* an arbitrary OTHER stack slot ("for all slots" without a quantifier) */
struct type *g_jtype; u64 g_joff; bool g_jcur; u64 g_jidx;     /* its content on entry */
struct type *g_topt; u64 g_topoff;                             /* type of the entry slot (must not change either) */

extern int g_no_error;         /* stubs/base.c */
#define NOBJ 32                /* LEN(p->obj) */

#define PRE(X) \
	X(p != 0) \
	X(g_i < NOBJ && p->sub == &p->obj[g_i]) \
	X(g_off0 == p->sub->offset && g_topt == p->sub->type) \
	X(g_j < NOBJ && g_j != g_i + 1) \
	X(g_jtype == p->obj[g_j].type && g_joff == p->obj[g_j].offset && g_jcur == p->obj[g_j].iscur && g_jidx == p->obj[g_j].u.idx)

#define POST(X) \
	/* C19: the designator stack never leaves obj[0..31]: a normal return means the push fitted (the 33rd level is diagnosed) */ \
	X(g_i + 1 < NOBJ) \
	X(p->sub == &p->obj[g_i + 1]) \
	/* the pushed sub-object: the given type, at the enclosing object's offset + off, not a brace level */ \
	X(p->sub->type == t) \
	X(p->sub->offset == g_off0 + off) \
	X(p->sub->iscur == false) \
	/* every other slot (in particular the enclosing levels) is unchanged */ \
	X(p->obj[g_j].type == g_jtype && p->obj[g_j].offset == g_joff && p->obj[g_j].iscur == g_jcur && p->obj[g_j].u.idx == g_jidx) \
	CANARY(X, !(g_i == 30 && g_j == 0))

static void subobj_contract(struct initparser *p, struct type *t, unsigned long long off)
REQUIRES(PRE)
__CPROVER_assigns(p->sub, __CPROVER_object_whole(p->obj))
ENSURES(POST);

void
harness(void)
{
	static struct initparser P;
	static struct type ty[2];
	struct initparser *p = &P;
	struct type *t;
	IN(unsigned, in_i); IN(unsigned, in_j); IN(u64, off); IN(u64, in_off0); IN(bool, in_t);
	IN(u64, in_joff); IN(bool, in_jcur); IN(u64, in_jidx);

	__CPROVER_assume(in_i < NOBJ && in_j < NOBJ && in_j != in_i + 1);
	t = &ty[in_t];
	P.sub = &P.obj[in_i];
	P.obj[in_i].offset = in_off0;
	P.obj[in_i].type = &ty[0];
	P.obj[in_j].type = in_j == in_i ? &ty[0] : &ty[1];
	if (in_j != in_i) {
		P.obj[in_j].offset = in_joff;
	}
	P.obj[in_j].iscur = in_jcur;
	P.obj[in_j].u.idx = in_jidx;
	g_i = in_i; g_j = in_j;
	g_no_error = 0;        /* under --dfcc file-scope objects start nondeterministic: say explicitly that a diagnostic is allowed */
	g_off0 = P.obj[in_i].offset; g_topt = P.obj[in_i].type;
	g_jtype = P.obj[g_j].type; g_joff = P.obj[g_j].offset; g_jcur = P.obj[g_j].iscur; g_jidx = P.obj[g_j].u.idx;
	CALL(PRE, POST, subobj(p, t, off));
}
