/* UNIT
{
 "id": "INIT.initadd",
 "file": "init.c", "function": "initadd",
 "properties": {"C07": "contract", "C19": "safety"},
 "mode": "harness",
 "kind": "bounded",
 "bound": "initialiser lists of <= 3 nodes before the insertion; all byte ranges below 2^32 and all bit-field before/after pairs symbolic; every scan start position p->last",
 "cflags": ["-DN=3"],
 "unwindset": ["initadd.0:5", "initadd.1:5", "build.0:4", "walk.0:6", "listinv.0:6", "listinv.1:6", "pos_of.0:6", "harness.0:4", "harness.1:4", "harness.2:4", "harness.3:4", "observe_post.0:4", "idx_of.0:4"],
 "timeout": 300,
 "tiers": {"thorough": {"cflags": ["-DN=5"], "timeout": 1500,
           "unwindset": ["initadd.0:7", "initadd.1:7", "build.0:6", "walk.0:8", "listinv.0:8", "listinv.1:8", "pos_of.0:8", "harness.0:6", "harness.1:6", "harness.2:6", "harness.3:6", "observe_post.0:6", "idx_of.0:6"],
           "bound": "initialiser lists of <= 5 nodes before the insertion; all byte ranges below 2^32 and all bit-field before/after pairs symbolic; every scan start position p->last"}},
 "expects": ["assertion_verif"],
 "assumes": ["the statement is for lists of ANY length; it is checked up to the stated bound only",
             "byte offsets are below 2^32 (so start*8, end*8 do not wrap; objects larger than 4 GiB are not initialised member-wise)",
             "list invariant INV: any two initialisers i before j are either disjoint with i first, or i strictly covers j (a struct-valued or string initialiser followed by patches of its sub-objects, C11 6.7.9p19)",
             "nodes before the scan start p->last lie before the new initialiser or cover it: positional initialisers move forward through the object, designator() resets p->last to the list head"]
}
*/
#include "init.c"
#include "verif.h"

#ifndef N
#define N 3
#endif

/* bit range [BS, BE) of an initialiser: byte range [start, end) narrowed by the bit-field offsets (cc.h struct bitfield) */
#define BS(x) ((x)->start * 8 + (u64)(x)->bits.before)
#define BE(x) ((x)->end * 8 - (u64)(x)->bits.after)
#define DISJ(a, b)   (BE(a) <= BS(b))                                     /* a entirely before b */
#define COVERS(a, b) (BS(a) <= BS(b) && BE(b) <= BE(a))                   /* a covers b */
#define SCOVERS(a, b) (COVERS(a, b) && (BS(a) < BS(b) || BE(b) < BE(a)))  /* strictly */
#define VALIDNODE(x) ((x)->start < (x)->end && (x)->end <= (1ull << 32) && (x)->bits.before >= 0 && (x)->bits.after >= 0 && \
                      (u64)(x)->bits.before + (u64)(x)->bits.after < ((x)->end - (x)->start) * 8)

static struct init nd[N], nw;        /* the old list is nd[0..g_n) in list order; nw is the initialiser being added */
static struct initparser P;

/* ghosts */
unsigned g_n;                        /* length of the old list */
unsigned g_k;                        /* scan start: p->last == (g_k == 0 ? &p->init : &nd[g_k-1].next) */
struct init g_nd0[N], g_nw0;         /* pre-state copies (frame) */
bool g_pre_inv;                      /* INV(old list) */
bool g_nosameend;                    /* no old initialiser strictly covers nw and ends at the same bit */
bool g_laminar;                      /* no old initialiser overlaps nw only in part */
bool g_pre_prefix;                   /* nodes before the scan start are before nw or strictly cover it */

/* same pointer?  (object number + offset instead of ==: keeps CBMC's value-set based simplifier quiet; identical natively) */
#ifdef VERIF_REPLAY
#define SAMEP(p, q) ((const void *)(p) == (const void *)(q))
#else
#define SAMEP(p, q) (__CPROVER_POINTER_OBJECT(p) == __CPROVER_POINTER_OBJECT(q) && __CPROVER_POINTER_OFFSET(p) == __CPROVER_POINTER_OFFSET(q))
#endif

/*
 * observations of a list: the nodes reachable from the head, as node INDICES (0..N-1 = nd[i], N = nw, NOIDX = something
 * else), so that the contract speaks about scalars only; bit ranges are taken from the pre-state copies (the frame
 * clauses say they do not change)
 */
#define NOIDX (N + 1)
struct lobs {
	unsigned len;                /* nodes reachable from p->init (capped at N+2) */
	bool terminated;             /* the walk reached NULL within N+1 nodes */
	unsigned at[N + 2];
};
static struct lobs g_post;
bool g_post_inv;
int g_pos[N], g_posnew;              /* position of each old node / of nw in the new list, -1 = not in the list */
bool g_lastok;                       /* p->last == &nw.next */
u64 g_bs[N + 2], g_be[N + 2];        /* bit range of node index i (pre-state); [NOIDX] = empty */

static unsigned
idx_of(const struct init *x)
{
	unsigned i, r = NOIDX;

	for (i = 0; i < N; ++i) {
		if (SAMEP(x, &nd[i]))
			r = i;
	}
	if (SAMEP(x, &nw))
		r = N;
	return r;
}

static struct init *
node_of(unsigned i)
{
	return i < N ? &nd[i] : i == N ? &nw : 0;
}

static void
walk(struct init *head, struct lobs *o)
{
	unsigned k, i;

	for (k = 0; k < N + 2 && head; ++k) {
		i = idx_of(head);
		o->at[k] = i;
		head = i == NOIDX ? 0 : node_of(i)->next;
	}
	o->len = k;
	o->terminated = head == 0;
}

#define IDISJ(a, b)    (g_be[a] <= g_bs[b])
#define ISCOVERS(a, b) (g_bs[a] <= g_bs[b] && g_be[b] <= g_be[a] && (g_bs[a] < g_bs[b] || g_be[b] < g_be[a]))

/* INV: for i before j: disjoint with i first, or i strictly covers j.  (=> sorted by bit start; no duplicates) */
static bool
listinv(const struct lobs *o)
{
	unsigned i, j;
	bool ok = true;

	for (i = 0; i < N + 2; ++i) {
		for (j = 0; j < N + 2; ++j) {
			if (i < j && j < o->len && !(IDISJ(o->at[i], o->at[j]) || ISCOVERS(o->at[i], o->at[j])))
				ok = false;
		}
	}
	return ok;
}

static int
pos_of(const struct lobs *o, unsigned idx)
{
	unsigned k;
	int r = -1;

	for (k = 0; k < N + 2; ++k) {
		if (k < o->len && o->at[k] == idx && r < 0)
			r = (int)k;
	}
	return r;
}

static void
build(unsigned n)
{
	unsigned i;

	for (i = 0; i < N; ++i)
		nd[i].next = i + 1 < n ? &nd[i + 1] : 0;
	P.init = n ? &nd[0] : 0;
}

#define UNCHANGED(x, x0) ((x).start == (x0).start && (x).end == (x0).end && (x).bits.before == (x0).bits.before && \
                          (x).bits.after == (x0).bits.after && (x).expr == (x0).expr)
/* old node i relative to the new initialiser */
#define INLIST(i)      ((i) < g_n)
#define O_COVERED(i)   (INLIST(i) && COVERS(&g_nw0, &g_nd0[i]))                          /* nw covers it (incl. same range) */
#define O_DISJOINT(i)  (INLIST(i) && (DISJ(&g_nd0[i], &g_nw0) || DISJ(&g_nw0, &g_nd0[i])))
#define O_SCOVERS(i)   (INLIST(i) && SCOVERS(&g_nd0[i], &g_nw0))                         /* it strictly covers nw */
#define O_PARTIAL(i)   (INLIST(i) && !O_COVERED(i) && !O_DISJOINT(i) && !O_SCOVERS(i))   /* proper partial overlap */
/* one clause per old node (N <= 5) */
#define EACH(X, M) X(M(0)) X(M(1)) X(M(2)) EACH45(X, M)
#if N > 3
#define EACH45(X, M) X(M(3)) X(M(4))
#else
#define EACH45(X, M)
#endif
#define C_GONE(i)     IMP(O_COVERED(i), g_pos[i] < 0)
#define C_KEPT(i)     IMP(O_DISJOINT(i), g_pos[i] >= 0)
#define C_BEFORE(i)   IMP(O_DISJOINT(i) && DISJ(&g_nd0[i], &g_nw0), g_pos[i] >= 0 && g_pos[i] < g_posnew)
#define C_AFTER(i)    IMP(O_DISJOINT(i) && DISJ(&g_nw0, &g_nd0[i]), g_pos[i] > g_posnew)
#define C_COVER(i)    IMP(O_SCOVERS(i), g_pos[i] >= 0 && g_pos[i] < g_posnew)
#define C_PARTIAL(i)  IMP(O_PARTIAL(i), g_pos[i] < 0)
#define C_ORDER(i)    IMP((i) + 1 < g_n && g_pos[i] >= 0 && g_pos[(i) + 1 < N ? (i) + 1 : 0] >= 0, g_pos[i] < g_pos[(i) + 1 < N ? (i) + 1 : 0])
#define C_FRAME(i)    UNCHANGED(nd[i], g_nd0[i])

/*
 * INIT.initadd: sub-objects form a laminar family (every old initialiser is disjoint from, covered by, or strictly covers
 * the new one) -- always the case without unions, since the members of a struct / elements of an array nest.
 * INIT.initadd.partial (initadd_partial.c, -DPARTIAL): no such assumption; members of a union may overlap in part.
 */
#if defined(PARTIAL)
#define PRE_CASE(X)
#elif defined(NOSAMEEND)
/* INIT.initadd.nosameend (initadd_nosameend.c): additionally no old initialiser strictly covers the new one AND ends at
   the same bit -- the case in which INIT.initadd fails on the pinned tree (`struct S l = { 1, .t = x, .t.l = 41 };`);
   this carve-out exists only so that the rest of the contract is a passing unit the mutants can be run against */
#define PRE_CASE(X) X(g_laminar) X(g_nosameend)
#else
#define PRE_CASE(X) X(g_laminar)
#endif

#define PRE(X) \
	X(p == &P && new == &nw) \
	X(g_n <= N && g_k <= g_n) \
	X(p->last == (g_k == 0 ? &p->init : &nd[g_k < N + 1 && g_k > 0 ? g_k - 1 : 0].next)) \
	X(VALIDNODE(new)) \
	X(g_pre_inv) \
	X(g_pre_prefix) \
	PRE_CASE(X)

#define POST(X) \
	/* the list is still a NULL-terminated list with the invariant (sorted by bit start; overlap only as strict cover) */ \
	X(g_post.terminated && g_post.len <= g_n + 1) \
	X(g_post_inv) \
	/* the new initialiser is in the list */ \
	X(g_posnew >= 0) \
	/* C11 6.7.9p19: an earlier initialiser for a sub-object the new one covers is overridden: it is gone */ \
	EACH(X, C_GONE) \
	/* an initialiser of a disjoint sub-object is kept, on the same side of the new one, in the old relative order */ \
	EACH(X, C_KEPT) \
	EACH(X, C_BEFORE) \
	EACH(X, C_AFTER) \
	EACH(X, C_ORDER) \
	/* an initialiser that strictly covers the new one (struct value / string being patched) is kept, before it */ \
	EACH(X, C_COVER) \
	/* an earlier initialiser that the new one overwrites only in part (union members) does not survive */ \
	EACH(X, C_PARTIAL) \
	/* the scan start for the next positional initialiser is right after the new one */ \
	X(g_lastok) \
	/* frame: no initialiser's range or expression is modified */ \
	EACH(X, C_FRAME) \
	X(UNCHANGED(nw, g_nw0)) \
	CANARY(X, !(g_n == 2 && g_k == 0 && BS(&g_nw0) == 8 && BE(&g_nw0) == 16))

/* every harness input (textually here so that the runner finds the names for counterexample replay) */
#ifndef HARNESS_INPUTS
#define HARNESS_INPUTS \
	IN(unsigned, in_n); IN(unsigned, in_k); \
	IN(u64, in_s0); IN(u64, in_e0); IN(short, in_b0); IN(short, in_a0); \
	IN(u64, in_s1); IN(u64, in_e1); IN(short, in_b1); IN(short, in_a1); \
	IN(u64, in_s2); IN(u64, in_e2); IN(short, in_b2); IN(short, in_a2); \
	IN(u64, in_s3); IN(u64, in_e3); IN(short, in_b3); IN(short, in_a3); \
	IN(u64, in_s4); IN(u64, in_e4); IN(short, in_b4); IN(short, in_a4); \
	IN(u64, in_sn); IN(u64, in_en); IN(short, in_bn); IN(short, in_an);
#endif

static void
observe_post(void)
{
	unsigned i;

	walk(P.init, &g_post);
	g_post_inv = g_post.terminated && listinv(&g_post);
	for (i = 0; i < N; ++i)
		g_pos[i] = pos_of(&g_post, i);
	g_posnew = pos_of(&g_post, N);
	g_lastok = SAMEP(P.last, &nw.next);
}

void
harness(void)
{
	static struct lobs pre;
	static struct expr ex[N + 1];
	struct initparser *p = &P;
	struct init *new = &nw;
	unsigned i;
	HARNESS_INPUTS
	u64 s[5] = {in_s0, in_s1, in_s2, in_s3, in_s4}, e[5] = {in_e0, in_e1, in_e2, in_e3, in_e4};
	short b[5] = {in_b0, in_b1, in_b2, in_b3, in_b4}, a[5] = {in_a0, in_a1, in_a2, in_a3, in_a4};

	__CPROVER_assume(in_n <= N && in_k <= in_n);
	g_n = in_n; g_k = in_k;
	for (i = 0; i < N; ++i) {
		nd[i].start = s[i]; nd[i].end = e[i]; nd[i].bits.before = b[i]; nd[i].bits.after = a[i]; nd[i].expr = &ex[i];
		__CPROVER_assume(i >= in_n || VALIDNODE(&nd[i]));
		g_nd0[i] = nd[i];
	}
	nw.start = in_sn; nw.end = in_en; nw.bits.before = in_bn; nw.bits.after = in_an; nw.expr = &ex[N]; nw.next = 0;
	__CPROVER_assume(VALIDNODE(&nw));
	g_nw0 = nw;
	for (i = 0; i < N; ++i) {
		g_bs[i] = BS(&nd[i]);
		g_be[i] = BE(&nd[i]);
	}
	g_bs[N] = BS(&nw); g_be[N] = BE(&nw);
	g_bs[NOIDX] = g_be[NOIDX] = 0;
	build(in_n);
	P.last = in_k == 0 ? &P.init : &nd[in_k - 1].next;
	walk(P.init, &pre);
	g_pre_inv = listinv(&pre);
	g_pre_prefix = true;
	for (i = 0; i < N; ++i) {
		if (i < in_k && !(DISJ(&nd[i], &nw) || SCOVERS(&nd[i], &nw)))
			g_pre_prefix = false;
	}
	g_laminar = g_nosameend = true;
	for (i = 0; i < N; ++i) {
		if (O_PARTIAL(i))
			g_laminar = false;
		if (O_SCOVERS(i) && BE(&nd[i]) == BE(&nw))
			g_nosameend = false;
	}
	HCALL(PRE, POST, (initadd(p, new), observe_post()));
}
