/* UNIT
{
 "id": "INIT.cursor.array",
 "file": "init.c", "function": "designator", "also_functions": ["advance", "focus", "subobj"],
 "properties": {"C07": "contract", "C10": "contract", "C19": "safety"},
 "mode": "harness",
 "variants": {"designator": ["-DV_WHAT=0"], "advance": ["-DV_WHAT=1"], "focus": ["-DV_WHAT=2"]},
 "unwind": 4,
 "kind": "proof-const-unwind",
 "timeout": 200,
 "assumes": ["one array level under the cursor: an array (complete, or of unknown size being sized by its initialiser) of elements of 1..16 bytes, at an arbitrary offset inside the object; next/expect/intconstexpr are token stand-ins (the index value is an arbitrary constant)",
             "struct/union members and nested levels go through the same subobj() push; they are not varied here"]
}
*/
#include "init.c"
#include "verif.h"

struct token tok;
extern int g_no_error;
static u64 g_idx;
void next(void) { }
char *expect(enum tokenkind k, const char *msg) { if (k == TRBRACK) tok.kind = TASSIGN; return 0; }
unsigned long long intconstexpr(struct scope *s, bool allowneg) { __CPROVER_assert(!allowneg, "an array index designator must not be negative"); return g_idx; }

/*
 * C11 6.7.9p6,p17,p22: a designator [k] makes the k-th element the current object; k must be inside a complete array
 * (constraint), and "if an array of unknown size is initialized, its size is determined by the LARGEST indexed element
 * with an explicit initializer" -- the size only ever grows, by whole elements.  Without designators the elements are
 * initialised in increasing order; running off the end of a complete array returns to the enclosing object; an array
 * of unknown size grows by one element.
 */
void
harness(void)
{
	static struct initparser ip;
	static struct type t_arr, t_el;
	struct initparser *p = &ip;
	IN(u64, in_es); IN(u64, in_n); IN(bool, in_incomplete); IN(u64, in_off); IN(u64, in_k); IN(u64, in_cur);
	u64 size0;

	__CPROVER_assume(in_es >= 1 && in_es <= 16 && in_n <= 1000 && in_off <= 1000000 && in_k <= 100000 && in_cur <= 1000);
	__CPROVER_assume(in_incomplete || in_n >= 1);
	t_el.kind = TYPEINT; t_el.size = in_es; t_el.align = 1;
	t_arr.kind = TYPEARRAY; t_arr.base = &t_el; t_arr.incomplete = in_incomplete; t_arr.size = in_es * in_n; t_arr.align = 1;
	size0 = t_arr.size;
	ip.obj[0].type = &t_arr; ip.obj[0].offset = in_off; ip.obj[0].iscur = true;
	ip.cur = &ip.obj[0]; ip.sub = &ip.obj[0]; ip.init = 0; ip.last = &ip.init;
	g_no_error = 0;
#if V_WHAT == 0
	g_idx = in_k;
	tok.kind = TLBRACK;
	designator(0, p);
	__CPROVER_assert(in_incomplete || in_k < in_n, "an index outside a complete array is diagnosed (normal return => inside)");
	__CPROVER_assert(t_arr.size == (in_incomplete && (in_k + 1) * in_es > size0 ? (in_k + 1) * in_es : size0),
	                 "an array of unknown size grows to hold the largest designated element and NEVER shrinks; a complete array keeps its size");
	__CPROVER_assert(p->sub == &ip.obj[1] && p->sub->type == &t_el && p->sub->offset == in_off + in_k * in_es, "the current object is element k, at its byte offset");
	__CPROVER_assert(ip.obj[0].u.idx == in_k * in_es && p->cur == &ip.obj[0], "the array level remembers where it is");
#elif V_WHAT == 1
	/* cursor stands on element in_cur of the array; advance() moves on */
	__CPROVER_assume(in_cur < in_n || (in_incomplete && in_cur == 0 && in_n == 0));
	__CPROVER_assume(in_n >= 1);
	ip.obj[0].u.idx = in_cur * in_es;
	ip.obj[1].type = &t_el; ip.obj[1].offset = in_off + in_cur * in_es; ip.obj[1].iscur = false;
	ip.sub = &ip.obj[1];
	advance(p);
	__CPROVER_assert(in_incomplete || in_cur + 1 < in_n, "running off the end of the outermost complete array is 'too many initializers' (diagnosed)");
	__CPROVER_assert(p->sub == &ip.obj[1] && p->sub->offset == in_off + (in_cur + 1) * in_es && p->sub->type == &t_el, "next element in increasing order");
	__CPROVER_assert(t_arr.size == (in_incomplete && in_cur + 1 == in_n ? size0 + in_es : size0), "an array of unknown size grows by exactly one element when its end is reached");
#else
	focus(p);
	__CPROVER_assert(p->sub == &ip.obj[1] && p->sub->type == &t_el && p->sub->offset == in_off && ip.obj[0].u.idx == 0, "entering an array starts at element 0");
	__CPROVER_assert(t_arr.size == (in_incomplete ? in_es : size0), "an array of unknown size has one element once its first element is being initialised");
#endif
#ifdef VERIF_CANARY
	__CPROVER_assert(!(in_incomplete && in_es == 4), "CANARY");
#endif
}
