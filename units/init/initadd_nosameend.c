/* UNIT
{
 "id": "INIT.initadd.nosameend",
 "file": "init.c", "function": "initadd",
 "properties": {"C07": "contract", "C19": "safety"},
 "mode": "harness",
 "kind": "bounded",
 "bound": "initialiser lists of <= 3 nodes before the insertion; all byte ranges below 2^32 and all bit-field before/after pairs symbolic; every scan start position p->last",
 "cflags": ["-DN=3", "-DNOSAMEEND"],
 "unwindset": ["initadd.0:5", "initadd.1:5", "build.0:4", "walk.0:6", "listinv.0:6", "listinv.1:6", "pos_of.0:6", "harness.0:4", "harness.1:4", "harness.2:4", "harness.3:4", "observe_post.0:4", "idx_of.0:4"],
 "timeout": 300,
 "tiers": {"thorough": {"cflags": ["-DN=5", "-DNOSAMEEND"], "timeout": 1500,
           "unwindset": ["initadd.0:7", "initadd.1:7", "build.0:6", "walk.0:8", "listinv.0:8", "listinv.1:8", "pos_of.0:8", "harness.0:6", "harness.1:6", "harness.2:6", "harness.3:6", "observe_post.0:6", "idx_of.0:6"],
           "bound": "initialiser lists of <= 5 nodes before the insertion; all byte ranges below 2^32 and all bit-field before/after pairs symbolic; every scan start position p->last"}},
 "expects": ["assertion_verif"], "post_macro": "POST",
 "assumes": ["CARVE-OUT: no old initialiser strictly covers the new one and ends at the same bit (that class is the failing obligation of INIT.initadd)",
             "the statement is for lists of ANY length; it is checked up to the stated bound only",
             "byte offsets are below 2^32 (so start*8, end*8 do not wrap; objects larger than 4 GiB are not initialised member-wise)",
             "list invariant INV: any two initialisers i before j are either disjoint with i first, or i strictly covers j (a struct-valued or string initialiser followed by patches of its sub-objects, C11 6.7.9p19)",
             "nodes before the scan start p->last lie before the new initialiser or cover it: positional initialisers move forward through the object, designator() resets p->last to the list head"]
}
*/
/*
 * Same contract as INIT.initadd (initadd.c, included below) MINUS the one input class on which INIT.initadd fails on the
 * pinned tree: an old initialiser that strictly covers the new one and ends at the same bit.  Passing unit for the
 * mutants; the excluded class is a reported defect, not an assumption of the property.
 */
#define NOSAMEEND 1
/* every harness input (textually here so that the runner finds the names for counterexample replay) */
#define HARNESS_INPUTS \
	IN(unsigned, in_n); IN(unsigned, in_k); \
	IN(u64, in_s0); IN(u64, in_e0); IN(short, in_b0); IN(short, in_a0); \
	IN(u64, in_s1); IN(u64, in_e1); IN(short, in_b1); IN(short, in_a1); \
	IN(u64, in_s2); IN(u64, in_e2); IN(short, in_b2); IN(short, in_a2); \
	IN(u64, in_s3); IN(u64, in_e3); IN(short, in_b3); IN(short, in_a3); \
	IN(u64, in_s4); IN(u64, in_e4); IN(short, in_b4); IN(short, in_a4); \
	IN(u64, in_sn); IN(u64, in_en); IN(short, in_bn); IN(short, in_an);
#include "initadd.c"
