/* UNIT
{
 "id": "UTIL.reallocarray",
 "file": "util.c", "function": "reallocarray",
 "properties": {"C19": "all"},
 "mode": "dfcc", "enforce": "reallocarray/reallocarray_contract",
 "kind": "proof",
 "noreturn_macros": false, "stubs": [],
 "cbmc_flags": ["--smt2"], "retry_no_simplify": false,
 "timeout": 120,
 "expects": ["postcondition", "assigns"],
 "assumes": ["decided by Z3 (cbmc --smt2): the 64-bit division in the guard against the oracle does not finish with the SAT back end",
             "realloc is the wrapper of util_common.h: fails (NULL, ENOMEM) when the environment says so, otherwise CBMC's realloc model"]
}
*/
#include "util_common.h"

size_t g_n, g_m;
int g_errno0;

#define PRE(X) \
	X(n == g_n && m == g_m) \
	X(g_nalloc == 0 && g_errno == &errno && g_errno0 == *g_errno)

#define POST(X) \
	/* the overflow guard: a request whose byte count does not fit size_t is refused, the allocator never sees it */ \
	X(IMP(MUL_OVERFLOWS(n, m), RET == 0 && *g_errno == ENOMEM && g_nalloc == 0)) \
	/* otherwise exactly one realloc of exactly n*m bytes (never a short allocation), result passed through */ \
	X(IMP(!MUL_OVERFLOWS(n, m), g_nalloc == 1 && g_alloc_size == n * m && g_alloc_ptr == buf && RET == g_alloc_ret)) \
	X(IMP(!MUL_OVERFLOWS(n, m) && !g_alloc_fails, RET != 0 && *g_errno == g_errno0)) \
	/* two characterisations that do not use the division: 32 x 32 bits always fits, 33 x 33 bits never does */ \
	X(IMP(n <= 0xffffffffu && m <= 0xffffffffu, g_nalloc == 1)) \
	X(IMP(n > 0xffffffffu && m > 0xffffffffu, g_nalloc == 0 && RET == 0)) \
	X(n == g_n && m == g_m) \
	CANARY(X, !(g_n == 0 && g_m == 5 && !g_alloc_fails))

void util_at_exit(int status) { __CPROVER_assert(0, "reallocarray never exits"); }

void *reallocarray_contract(void *buf, size_t n, size_t m)
REQUIRES(PRE)
__CPROVER_assigns(*g_errno, g_nalloc, g_alloc_size, g_alloc_ptr, g_alloc_ret)
__CPROVER_frees(buf)
ENSURES(POST);

void
harness(void)
{
	void *buf;
	size_t n, m;

	IN(size_t, in_n);
	IN(size_t, in_m);
	IN(bool, in_fail);
	IN(bool, in_hasbuf);

	buf = 0;
	if (in_hasbuf) {
		buf = malloc(16);
		__CPROVER_assume(buf != 0);
	}
	n = in_n; m = in_m;
	g_n = n; g_m = m; g_alloc_fails = in_fail; g_nalloc = 0; g_exited = 0;
	g_errno = &errno; g_errno0 = errno;

	CALLR(void *, PRE, POST, reallocarray(buf, n, m));
}
