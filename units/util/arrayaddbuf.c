/* UNIT
{
 "id": "UTIL.arrayaddbuf",
 "file": "util.c", "function": "arrayaddbuf", "also_functions": ["arrayadd"],
 "properties": {"C19": "all"},
 "mode": "dfcc", "enforce": "arrayaddbuf/arrayaddbuf_contract",
 "loop_contracts": {"arrayadd": [{"loop_id": "0",
     "assigns": "a->cap",
     "invariants": "a->len == g_len0 && a->cap >= g_cap0 && a->len <= a->cap && a->cap - a->len < n && a->cap <= (1ul << 41)",
     "decreases": "(1ul << 42) - a->cap",
     "symbol_map": "a,arrayadd::a;n,arrayadd::n;g_len0,g_len0;g_cap0,g_cap0"}]},
 "loops_expected": {"arrayadd": 1},
 "kind": "bounded", "bound": "block and source sizes up to 64 bytes (symbolic); with sizes up to 2^40 the proof also goes through (thorough tier) but CBMC then cannot produce counterexamples for the mutants within 120 s",
 "tiers": {"thorough": {"cflags": ["-DNMAX=1099511627776"], "bound": "block and source sizes up to 2^40 bytes"}},
 "noreturn_macros": false, "stubs": [],
 "timeout": 120,
 "expects": ["postcondition", "loop_invariant_step"],
 "assumes": ["machine arithmetic: len <= cap <= 2^40, 1 <= n <= 2^40 (see UTIL.arrayadd); src is an object of at least n bytes that is not the array's own block",
             "realloc is the wrapper of util_common.h; memcpy is CBMC's model; stdio output of vwarn() is dropped"]
}
*/
#include "util_common.h"

size_t g_len0, g_cap0, g_n;
void *g_val0;
const void *g_src;
size_t g_j, g_k;           /* arbitrary index of an old byte / of a source byte */
unsigned char g_old, g_new;/* their values at entry */

#define LIM   ((size_t)1 << 40)
#ifndef NMAX
#define NMAX  64          /* harness bound on the block and source sizes */
#endif
#define BYTES ((unsigned char *)a->val)

#define PRE(X) \
	X(a != 0 && src == g_src && src != 0 && n == g_n && n >= 1 && n <= LIM) \
	X(a->len == g_len0 && a->cap == g_cap0 && a->val == g_val0 && g_len0 <= g_cap0 && g_cap0 <= LIM) \
	X(IMP(g_cap0 == 0, g_val0 == 0) && IMP(g_cap0 != 0, g_val0 != 0)) \
	X(IMP(g_j < g_len0, ((unsigned char *)g_val0)[g_j] == g_old)) \
	X(IMP(g_k < g_n, ((const unsigned char *)g_src)[g_k] == g_new)) \
	X(g_nalloc == 0 && g_exited == 0 && g_errno == &errno)

#define POST(X) \
	/* the n source bytes follow the old contents, which are kept; the source is not modified */ \
	X(a->len == g_len0 + g_n && a->cap >= a->len && a->val != 0) \
	X(IMP(g_k < g_n, BYTES[g_len0 + g_k] == g_new)) \
	X(IMP(g_j < g_len0, BYTES[g_j] == g_old)) \
	X(IMP(g_k < g_n, ((const unsigned char *)g_src)[g_k] == g_new)) \
	CANARY(X, !(g_cap0 == 16 && g_len0 == 16 && g_n == 48 && g_k == 47 && g_j == 1))

void
util_at_exit(int status)
{
	__CPROVER_assert(status == 1, "EXIT status 1");
	__CPROVER_assert(g_alloc_fails && g_cap0 - g_len0 < g_n, "EXIT only if the array had to grow and realloc failed");
}

void arrayaddbuf_contract(struct array *a, const void *src, size_t n)
REQUIRES(PRE)
__CPROVER_assigns(a->val, a->len, a->cap, *g_errno, g_nalloc, g_alloc_size, g_alloc_ptr, g_alloc_ret, g_exited, g_exit_status;
                  g_cap0 != 0: __CPROVER_object_whole(a->val))
__CPROVER_frees(a->val)
ENSURES(POST);

void
harness(void)
{
	struct array arr, *a = &arr;
	unsigned char *sbuf;
	const void *src;
	size_t n;

	IN(size_t, in_cap);
	IN(size_t, in_len);
	IN(size_t, in_n);
	IN(bool, in_fail);
	IN(u8, in_old);
	IN(u8, in_new);
	ING(size_t, g_j);
	ING(size_t, g_k);

	__CPROVER_assume(in_cap <= NMAX && in_len <= in_cap && in_n >= 1 && in_n <= NMAX);
	arr.val = 0;
	if (in_cap != 0) {
		arr.val = malloc(in_cap);
		__CPROVER_assume(arr.val != 0);
		if (g_j < in_len)
			((unsigned char *)arr.val)[g_j] = in_old;
	}
	arr.cap = in_cap;
	arr.len = in_len;
	sbuf = malloc(in_n);
	__CPROVER_assume(sbuf != 0);
	if (g_k < in_n)
		sbuf[g_k] = in_new;
	src = sbuf; n = in_n;
	g_len0 = arr.len; g_cap0 = arr.cap; g_val0 = arr.val; g_src = src; g_n = n; g_old = in_old; g_new = in_new;
	g_alloc_fails = in_fail; g_nalloc = 0; g_exited = 0; g_errno = &errno;

	CALL(PRE, POST, arrayaddbuf(a, src, n));
}
