/* UNIT
{
 "id": "UTIL.listremove",
 "file": "util.c", "function": "listremove",
 "properties": {"C19": "all"},
 "mode": "dfcc", "enforce": "listremove/listremove_contract",
 "kind": "proof",
 "variants": {"ring2": ["-DV_SHAPE=2"], "ring3": ["-DV_SHAPE=3"]},
 "canary_variant": "ring3",
 "noreturn_macros": false, "stubs": [],
 "timeout": 120,
 "expects": ["postcondition", "assigns"],
 "assumes": ["the node is on a circular doubly-linked ring with at least one other node (the head), linked consistently with both neighbours; listremove has no caller in the pinned tree"]
}
*/
#include "util_common.h"

struct list *g_list, *g_next, *g_prev;

#define PRE(X) \
	X(list == g_list && list != 0 && list->next == g_next && list->prev == g_prev) \
	X(g_next != 0 && g_prev != 0 && g_next != list && g_prev != list) \
	X(g_next->prev == list && g_prev->next == list)

#define POST(X) \
	/* the neighbours are linked to each other, both ways */ \
	X(g_prev->next == g_next && g_next->prev == g_prev) \
	/* the removed node points nowhere */ \
	X(g_list->next == 0 && g_list->prev == 0) \
	CANARY(X, !(g_next != g_prev))

void util_at_exit(int status) { __CPROVER_assert(0, "listremove never exits"); }

void listremove_contract(struct list *list)
REQUIRES(PRE)
__CPROVER_assigns(list->next, list->prev, g_next->prev, g_prev->next)
ENSURES(POST);

void
harness(void)
{
	struct list l, a, b;
	struct list *list = &l;

	IN(int, in_shape);
#ifdef V_SHAPE
	__CPROVER_assume(in_shape == V_SHAPE);
#else
	__CPROVER_assume(in_shape >= 2 && in_shape <= 3);
#endif
	if (in_shape == 2) {            /* ring: a l */
		l.next = &a; a.next = &l; l.prev = &a; a.prev = &l;
	} else {                        /* ring: a l b */
		a.next = &l; l.prev = &a; l.next = &b; b.prev = &l;
		b.next = &a; a.prev = &b;
	}
	g_list = list; g_next = l.next; g_prev = l.prev;

	CALL(PRE, POST, listremove(list));
}
