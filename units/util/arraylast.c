/* UNIT
{
 "id": "UTIL.arraylast",
 "file": "util.c", "function": "arraylast",
 "properties": {"C19": "all"},
 "mode": "dfcc", "enforce": "arraylast/arraylast_contract",
 "kind": "proof",
 "noreturn_macros": false, "stubs": [],
 "timeout": 120,
 "expects": ["postcondition"],
 "assumes": ["the element size does not exceed the length of a non-empty array (the function's own assert(); its callers pp.c:ctxnext and pp.c:peekparen pass sizeof(struct frame) on an array of frames)"]
}
*/
#include "util_common.h"

size_t g_len0, g_cap0, g_n;
void *g_val0;

#define PRE(X) \
	X(a != 0 && n == g_n && a->len == g_len0 && a->cap == g_cap0 && a->val == g_val0 && g_len0 <= g_cap0) \
	X(IMP(g_len0 != 0, g_val0 != 0 && g_n <= g_len0))

#define POST(X) \
	X(IMP(g_len0 == 0, RET == 0)) \
	/* the last n bytes of the array: [len - n, len) lies inside the block */ \
	X(IMP(g_len0 != 0, RET == (char *)g_val0 + (g_len0 - g_n))) \
	X(a->len == g_len0 && a->cap == g_cap0 && a->val == g_val0) \
	CANARY(X, !(g_len0 == 24 && g_n == 8))

void util_at_exit(int status) { __CPROVER_assert(0, "arraylast never exits"); }

void *arraylast_contract(struct array *a, size_t n)
REQUIRES(PRE)
__CPROVER_assigns()
ENSURES(POST);

void
harness(void)
{
	struct array arr, *a = &arr;
	size_t n;

	IN(size_t, in_cap);
	IN(size_t, in_len);
	IN(size_t, in_n);

	__CPROVER_assume(in_cap <= ((size_t)1 << 40) && in_len <= in_cap);
	arr.val = 0;
	if (in_cap != 0) {
		arr.val = malloc(in_cap);
		__CPROVER_assume(arr.val != 0);
	}
	arr.cap = in_cap; arr.len = in_len; n = in_n;
	g_len0 = arr.len; g_cap0 = arr.cap; g_val0 = arr.val; g_n = n;

	CALLR(void *, PRE, POST, arraylast(a, n));
}
