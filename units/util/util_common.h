/*
 * util_common.h -- shared by the units on /repo/util.c.  util.c DEFINES fatal/xmalloc/..., so these units include
 * the real util.c themselves ("noreturn_macros": false, "stubs": []).  The system headers come first (include
 * guards make util.c's own #includes no-ops), then function-like macros rewrite util.c's CALLS to
 *   exit            -> util_exit: records the status, runs the unit's exit-time clauses, ends the path
 *   malloc, realloc -> util_malloc / util_realloc: fail when the harness says so (ENOMEM), otherwise the real
 *                      (CBMC-modelled / libc) allocator, which then does not fail; size and result are recorded
 *   fputc, perror, fprintf, vfprintf, strlen -> nothing (stdio output of vwarn has no effect on the contracts' state;
 *                      strlen's library loop trips DFCC's loop instrumentation when loop contracts are applied)
 */
#ifndef UTIL_COMMON_H
#define UTIL_COMMON_H

#include <assert.h>
#include <errno.h>
#include <stdarg.h>
#include <stdbool.h>
#include <stdint.h>
#include <stdio.h>
#include <stdlib.h>
#include <string.h>
#include "verif.h"

bool g_alloc_fails;          /* environment: the next allocation fails */
int g_nalloc;                /* allocator calls made by the function under contract */
size_t g_alloc_size;         /* size of the last request */
void *g_alloc_ptr;           /* pointer argument of the last realloc */
void *g_alloc_ret;           /* its result */
int g_exited, g_exit_status;
int *g_errno;                /* &errno */

void util_at_exit(int status);       /* provided by the unit: exit-time clauses */

static void *
util_realloc(void *p, size_t n)
{
	void *r;

	++g_nalloc;
	g_alloc_size = n;
	g_alloc_ptr = p;
	if (g_alloc_fails) {
		errno = ENOMEM;
		g_alloc_ret = 0;
		return 0;
	}
	r = realloc(p, n);
	__CPROVER_assume(r != 0);
	g_alloc_ret = r;
	return r;
}

static void *
util_malloc(size_t n)
{
	void *r;

	++g_nalloc;
	g_alloc_size = n;
	g_alloc_ptr = 0;
	if (g_alloc_fails) {
		errno = ENOMEM;
		g_alloc_ret = 0;
		return 0;
	}
	r = malloc(n);
	__CPROVER_assume(r != 0);
	g_alloc_ret = r;
	return r;
}

static void
util_exit(int status)
{
	g_exited = 1;
	g_exit_status = status;
	util_at_exit(status);
#ifdef VERIF_REPLAY
	fprintf(stderr, "replay: real code called exit(%d) and every exit-time clause held\n", status);
	fflush(0);
	_Exit(0);
#else
	__CPROVER_assume(0);
#endif
}

#define exit(s)        util_exit(s)
#define malloc(n)      util_malloc(n)
#define realloc(p, n)  util_realloc(p, n)
#define strlen(s)      ((size_t)1)      /* vwarn only looks at fmt[strlen(fmt) - 1] to choose between perror and a newline */
#define fputc(c, f)    ((void)0)
#define perror(s)      ((void)0)
#define fprintf(...)   ((void)0)
#define vfprintf(...)  ((void)0)

#include "util.c"

#undef malloc
#undef realloc
#undef exit
#undef strlen

/* n * m does not fit a size_t:  n*m > MAX  <=>  n != 0 and m > floor(MAX / n).  Written with the same division as
   util.c (SIZE_MAX / n) on the same operands: CBMC then shares the 64-bit divider between code and oracle; with the
   mirrored form (n > SIZE_MAX / m) the equivalence did not finish in 120 s */
#define MUL_OVERFLOWS(n, m) ((n) != 0 && (m) > SIZE_MAX / (n))

#endif
