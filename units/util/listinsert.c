/* UNIT
{
 "id": "UTIL.listinsert",
 "file": "util.c", "function": "listinsert",
 "properties": {"C19": "all"},
 "mode": "dfcc", "enforce": "listinsert/listinsert_contract",
 "kind": "proof",
 "variants": {"ring1": ["-DV_SHAPE=1"], "ring2": ["-DV_SHAPE=2"], "ring3": ["-DV_SHAPE=3"]},
 "canary_variant": "ring3",
 "noreturn_macros": false, "stubs": [],
 "timeout": 120,
 "expects": ["postcondition", "assigns"],
 "assumes": ["the list is a circular doubly-linked ring (decl.c: struct list head initialised to itself); the insertion point and its successor are linked consistently; the new node is not yet on the ring. Shapes: the successor of the insertion point is the point itself (ring of 1), its predecessor too (ring of 2), or a third node (ring of >= 3)"]
}
*/
#include "util_common.h"

struct list *g_list, *g_new, *g_next, *g_prev;   /* insertion point, new node, successor / predecessor at entry */

#define PRE(X) \
	X(list == g_list && new == g_new && list != 0 && new != 0 && new != list) \
	X(list->next == g_next && list->prev == g_prev && g_next != 0 && g_prev != 0 && g_next != new && g_prev != new) \
	/* consistent links around the insertion point */ \
	X(g_next->prev == list && g_prev->next == list)

#define POST(X) \
	/* new sits between the insertion point and its old successor, every link is mirrored by its inverse */ \
	X(g_list->next == g_new && g_new->prev == g_list) \
	X(g_new->next == g_next && g_next->prev == g_new) \
	/* the link on the other side of the insertion point is untouched (unless the ring had one node) */ \
	X(IMP(g_prev != g_list, g_list->prev == g_prev && g_prev->next == g_list)) \
	X(IMP(g_prev == g_list, g_list->prev == g_new)) \
	CANARY(X, !(g_next != g_list && g_prev != g_next))

void util_at_exit(int status) { __CPROVER_assert(0, "listinsert never exits"); }

void listinsert_contract(struct list *list, struct list *new)
REQUIRES(PRE)
__CPROVER_assigns(new->next, new->prev, list->next, g_next->prev)
ENSURES(POST);

void
harness(void)
{
	struct list l, nw, a, b;
	struct list *list = &l, *new = &nw;

	IN(int, in_shape);
#ifdef V_SHAPE
	__CPROVER_assume(in_shape == V_SHAPE);
#else
	__CPROVER_assume(in_shape >= 1 && in_shape <= 3);
#endif
	if (in_shape == 1) {            /* ring: l */
		l.next = &l; l.prev = &l;
	} else if (in_shape == 2) {     /* ring: l a */
		l.next = &a; a.next = &l; l.prev = &a; a.prev = &l;
	} else {                        /* ring: l a ... b */
		l.next = &a; a.prev = &l; l.prev = &b; b.next = &l;
		a.next = &b; b.prev = &a;
	}
	nw.next = nw.prev = 0;
	g_list = list; g_new = new; g_next = l.next; g_prev = l.prev;

	CALL(PRE, POST, listinsert(list, new));
}
