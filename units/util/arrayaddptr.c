/* UNIT
{
 "id": "UTIL.arrayaddptr",
 "file": "util.c", "function": "arrayaddptr", "also_functions": ["arrayadd"],
 "properties": {"C19": "all"},
 "mode": "dfcc", "enforce": "arrayaddptr/arrayaddptr_contract",
 "loop_contracts": {"arrayadd": [{"loop_id": "0",
     "assigns": "a->cap",
     "invariants": "a->len == g_len0 && a->cap >= g_cap0 && a->len <= a->cap && a->cap - a->len < n && a->cap <= (1ul << 41)",
     "decreases": "(1ul << 42) - a->cap",
     "symbol_map": "a,arrayadd::a;n,arrayadd::n;g_len0,g_len0;g_cap0,g_cap0"}]},
 "loops_expected": {"arrayadd": 1},
 "kind": "proof",
 "noreturn_macros": false, "stubs": [],
 "timeout": 120,
 "expects": ["postcondition", "loop_invariant_step"],
 "assumes": ["machine arithmetic: len <= cap <= 2^40 (see UTIL.arrayadd); the vector holds pointers (len is a multiple of the pointer size), as at every call site in driver.c",
             "realloc is the wrapper of util_common.h; stdio output of vwarn() is dropped"]
}
*/
#include "util_common.h"

size_t g_len0, g_cap0;
void *g_val0, *g_v;
size_t g_j;                /* arbitrary index of an old word */
void *g_word;              /* its value at entry */

#define LIM   ((size_t)1 << 40)
#define W     sizeof(void *)
#define WORDS ((void **)a->val)

#define PRE(X) \
	X(a != 0 && v == g_v) \
	X(a->len == g_len0 && a->cap == g_cap0 && a->val == g_val0 && g_len0 <= g_cap0 && g_cap0 <= LIM && g_len0 % W == 0) \
	X(IMP(g_cap0 == 0, g_val0 == 0) && IMP(g_cap0 != 0, g_val0 != 0)) \
	X(IMP(g_j < g_len0 / W, ((void **)g_val0)[g_j] == g_word)) \
	X(g_nalloc == 0 && g_exited == 0 && g_errno == &errno)

#define POST(X) \
	/* the vector is one word longer, the new last word is v, the words before it are kept */ \
	X(a->len == g_len0 + W && a->cap >= a->len && a->val != 0) \
	X(WORDS[g_len0 / W] == g_v) \
	X(IMP(g_j < g_len0 / W, WORDS[g_j] == g_word)) \
	X(IMP(g_cap0 - g_len0 >= W, a->val == g_val0 && a->cap == g_cap0)) \
	CANARY(X, !(g_cap0 == 16 && g_len0 == 16 && g_j == 1))

void
util_at_exit(int status)
{
	__CPROVER_assert(status == 1, "EXIT status 1");
	__CPROVER_assert(g_alloc_fails && g_cap0 - g_len0 < W, "EXIT only if the vector had to grow and realloc failed");
}

void arrayaddptr_contract(struct array *a, void *v)
REQUIRES(PRE)
__CPROVER_assigns(a->val, a->len, a->cap, *g_errno, g_nalloc, g_alloc_size, g_alloc_ptr, g_alloc_ret, g_exited, g_exit_status;
                  g_cap0 != 0: __CPROVER_object_whole(a->val))
__CPROVER_frees(a->val)
ENSURES(POST);

void
harness(void)
{
	struct array arr, *a = &arr;
	int dummy;
	void *v;

	IN(size_t, in_cap);
	IN(size_t, in_len);
	IN(bool, in_fail);
	IN(bool, in_vnull);
	IN(u64, in_word);
	ING(size_t, g_j);

	__CPROVER_assume(in_cap <= LIM && in_len <= in_cap && in_len % W == 0);
	arr.val = 0;
	if (in_cap != 0) {
		arr.val = malloc(in_cap);
		__CPROVER_assume(arr.val != 0);
		if (g_j < in_len / W)
			((void **)arr.val)[g_j] = (void *)(uintptr_t)in_word;
	}
	arr.cap = in_cap;
	arr.len = in_len;
	v = in_vnull ? (void *)0 : (void *)&dummy;
	g_len0 = arr.len; g_cap0 = arr.cap; g_val0 = arr.val; g_v = v; g_word = (void *)(uintptr_t)in_word;
	g_alloc_fails = in_fail; g_nalloc = 0; g_exited = 0; g_errno = &errno;

	CALL(PRE, POST, arrayaddptr(a, v));
}
