/* UNIT
{
 "id": "UTIL.arrayadd",
 "file": "util.c", "function": "arrayadd", "also_functions": ["fatal", "vwarn"],
 "properties": {"C19": "all"},
 "mode": "dfcc", "enforce": "arrayadd/arrayadd_contract",
 "loop_contracts": {"arrayadd": [{"loop_id": "0",
     "assigns": "a->cap",
     "invariants": "a->len == g_len0 && a->cap >= g_cap0 && a->len <= a->cap && a->cap - a->len < n && a->cap <= (1ul << 41)",
     "decreases": "(1ul << 42) - a->cap",
     "symbol_map": "a,arrayadd::a;n,arrayadd::n;g_len0,g_len0;g_cap0,g_cap0"}]},
 "loops_expected": {"arrayadd": 1},
 "kind": "proof",
 "noreturn_macros": false, "stubs": [],
 "timeout": 120,
 "expects": ["postcondition", "loop_invariant_step", "loop_decreases", "assertion_verif"],
 "assumes": ["machine arithmetic: len <= cap <= 2^40 and 1 <= n <= 2^40, so that cap*2 and len+n do not wrap (a request near SIZE_MAX makes cap*2 wrap to 0 and the doubling loop never ends)",
             "realloc is the wrapper of util_common.h (fails when the environment says so, otherwise CBMC's realloc model, which keeps the old contents); stdio output of vwarn() is dropped",
             "CBMC models the block as one object of symbolic size"]
}
*/
#include "util_common.h"

size_t g_len0, g_cap0;     /* a->len, a->cap at entry */
void *g_val0;              /* a->val at entry */
size_t g_n;
size_t g_j;                /* arbitrary index of an old element byte */
unsigned char g_byte;      /* its value at entry */

#define LIM   ((size_t)1 << 40)
#define ROOM  (g_cap0 - g_len0 >= g_n)

#define PRE(X) \
	X(a != 0 && n == g_n && n >= 1 && n <= LIM) \
	X(a->len == g_len0 && a->cap == g_cap0 && a->val == g_val0 && g_len0 <= g_cap0 && g_cap0 <= LIM) \
	X(IMP(g_cap0 == 0, g_val0 == 0) && IMP(g_cap0 != 0, g_val0 != 0)) \
	X(IMP(g_j < g_len0, ((unsigned char *)g_val0)[g_j] == g_byte)) \
	X(g_nalloc == 0 && g_exited == 0 && g_errno == &errno)

#define POST(X) \
	/* the new element: n bytes right after the old ones, inside the block */ \
	X(RET == (char *)a->val + g_len0) \
	X(a->len == g_len0 + g_n) \
	X(a->cap >= a->len && a->cap - g_len0 >= g_n) \
	X(a->val != 0) \
	/* room left: nothing moves */ \
	X(IMP(ROOM, a->cap == g_cap0 && a->val == g_val0 && g_nalloc == 0)) \
	/* no room: the block is reallocated once, to the new capacity; capacity only grows */ \
	X(IMP(!ROOM, g_nalloc == 1 && g_alloc_ptr == g_val0 && g_alloc_size == a->cap && a->val == g_alloc_ret)) \
	X(IMP(!ROOM, a->cap > g_cap0)) \
	/* ... by doubling (from 256 for an empty array): the candidate before the last one did not have room */ \
	X(IMP(!ROOM, (g_cap0 == 0 && a->cap == 256) || (a->cap % 2 == 0 && a->cap / 2 - g_len0 < g_n))) \
	/* the old elements are kept */ \
	X(IMP(g_j < g_len0, ((unsigned char *)a->val)[g_j] == g_byte)) \
	CANARY(X, !(g_cap0 == 16 && g_len0 == 8 && g_n == 300 && g_j == 3))

void
util_at_exit(int status)
{
	__CPROVER_assert(status == 1, "EXIT status 1");
	__CPROVER_assert(g_alloc_fails && !ROOM, "EXIT only if the array had to grow and realloc failed");
}

void *arrayadd_contract(struct array *a, size_t n)
REQUIRES(PRE)
__CPROVER_assigns(a->val, a->len, a->cap, *g_errno, g_nalloc, g_alloc_size, g_alloc_ptr, g_alloc_ret, g_exited, g_exit_status)
__CPROVER_frees(a->val)
ENSURES(POST);

void
harness(void)
{
	struct array arr, *a = &arr;
	size_t n;

	IN(size_t, in_cap);
	IN(size_t, in_len);
	IN(size_t, in_n);
	IN(bool, in_fail);
	IN(u8, in_byte);
	ING(size_t, g_j);

	/* the block has symbolic size up to 2^40 */
	__CPROVER_assume(in_cap <= LIM && in_len <= in_cap);
	arr.val = 0;
	if (in_cap != 0) {
		arr.val = malloc(in_cap);
		__CPROVER_assume(arr.val != 0);
		if (g_j < in_len)
			((unsigned char *)arr.val)[g_j] = in_byte;
	}
	arr.cap = in_cap;
	arr.len = in_len;
	n = in_n;
	g_len0 = arr.len; g_cap0 = arr.cap; g_val0 = arr.val; g_n = n; g_byte = in_byte;
	g_alloc_fails = in_fail; g_nalloc = 0; g_exited = 0; g_errno = &errno;

	CALLR(void *, PRE, POST, arrayadd(a, n));
}
