/* UNIT
{
 "id": "UTIL.xreallocarray",
 "file": "util.c", "function": "xreallocarray", "also_functions": ["reallocarray", "fatal", "vwarn"],
 "properties": {"C19": "all"},
 "mode": "dfcc", "enforce": "xreallocarray/xreallocarray_contract",
 "kind": "proof",
 "noreturn_macros": false, "stubs": [],
 "timeout": 120,
 "expects": ["postcondition", "assertion_verif"],
 "assumes": ["when the guard of reallocarray refuses a request is UTIL.reallocarray's contract; here: a refusal or an allocator failure ends the run, anything else returns the block",
             "realloc is the wrapper of util_common.h; stdio output of vwarn() is dropped"]
}
*/
#include "util_common.h"

size_t g_n, g_m;

#define PRE(X) \
	X(n == g_n && m == g_m) \
	X(g_nalloc == 0 && g_exited == 0 && g_errno == &errno)

/* normal return: the caller may use RET as an array of n elements of m bytes without checking it */
#define POST(X) \
	X(IMP(n != 0 && m != 0, RET != 0)) \
	X(IMP(n != 0 && m != 0, g_nalloc == 1 && !g_alloc_fails)) \
	X(IMP(RET != 0, g_nalloc == 1 && RET == g_alloc_ret)) \
	X(n == g_n && m == g_m) \
	CANARY(X, !(g_n == 3 && g_m == 5))

/* fatal(): the failure is reported by ending the run with status 1, and only a real failure is */
void
util_at_exit(int status)
{
	__CPROVER_assert(status == 1, "EXIT status 1");
	__CPROVER_assert(g_n != 0 && g_m != 0, "EXIT only for a non-empty request");
	__CPROVER_assert(g_nalloc == 0 || g_alloc_fails, "EXIT only if reallocarray refused the request (overflow guard) or the allocator failed");
}

void *xreallocarray_contract(void *buf, size_t n, size_t m)
REQUIRES(PRE)
__CPROVER_assigns(*g_errno, g_nalloc, g_alloc_size, g_alloc_ptr, g_alloc_ret, g_exited, g_exit_status)
__CPROVER_frees(buf)
ENSURES(POST);

void
harness(void)
{
	void *buf;
	size_t n, m;

	IN(size_t, in_n);
	IN(size_t, in_m);
	IN(bool, in_fail);
	IN(bool, in_hasbuf);

	buf = 0;
	if (in_hasbuf) {
		buf = malloc(16);
		__CPROVER_assume(buf != 0);
	}
	n = in_n; m = in_m;
	g_n = n; g_m = m; g_alloc_fails = in_fail; g_nalloc = 0; g_exited = 0;
	g_errno = &errno;

	CALLR(void *, PRE, POST, xreallocarray(buf, n, m));
}
