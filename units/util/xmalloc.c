/* UNIT
{
 "id": "UTIL.xmalloc",
 "file": "util.c", "function": "xmalloc", "also_functions": ["fatal", "vwarn"],
 "properties": {"C19": "all"},
 "mode": "dfcc", "enforce": "xmalloc/xmalloc_contract",
 "kind": "proof",
 "noreturn_macros": false, "stubs": [],
 "timeout": 120,
 "expects": ["postcondition", "assertion_verif"],
 "assumes": ["malloc is the wrapper of util_common.h; stdio output of vwarn() is dropped"]
}
*/
#include "util_common.h"

size_t g_len;

#define PRE(X) \
	X(len == g_len) \
	X(g_nalloc == 0 && g_exited == 0 && g_errno == &errno)

#define POST(X) \
	X(IMP(len != 0, RET != 0 && !g_alloc_fails)) \
	X(g_nalloc == 1 && g_alloc_size == len && RET == g_alloc_ret) \
	CANARY(X, !(g_len == 24))

void
util_at_exit(int status)
{
	__CPROVER_assert(status == 1, "EXIT status 1");
	__CPROVER_assert(g_len != 0 && g_alloc_fails, "EXIT only if a non-empty allocation failed");
}

void *xmalloc_contract(size_t len)
REQUIRES(PRE)
__CPROVER_assigns(*g_errno, g_nalloc, g_alloc_size, g_alloc_ptr, g_alloc_ret, g_exited, g_exit_status)
ENSURES(POST);

void
harness(void)
{
	size_t len;

	IN(size_t, in_len);
	IN(bool, in_fail);

	len = in_len;
	g_len = len; g_alloc_fails = in_fail; g_nalloc = 0; g_exited = 0; g_errno = &errno;

	CALLR(void *, PRE, POST, xmalloc(len));
}
