/* UNIT
{
 "id": "DECL.addmember.fam-position",
 "file": "decl.c", "function": "addmember",
 "properties": {"C10": "contract"},
 "mode": "dfcc", "enforce": "addmember/addmember_contract",
 "kind": "proof",
 "timeout": 200,
 "expects": ["postcondition"],
 "assumes": ["FAILS on the pinned tree (genuine defect, see report): `union u { int a[]; };` and `struct s { int a[]; };` are accepted",
             "'more than one named member' is approximated from below by 'the member list is not empty' (an anonymous struct/union member counts)"]
}
*/
/*
 * C10, C11 6.7.2.1p3: "A structure or union shall not contain a member with incomplete or function type [...],
 * except that the last member of a structure with more than one named member may have incomplete array type".
 * So on normal return a member of incomplete array type (a) is being added to a STRUCT, not a union, and
 * (b) is not the first member.  (That nothing follows it is DECL.addmember.flex.)
 */
#include "addmember_common.h"

bool g_first;   /* the member list is empty: b->last is the head link of the type */

#define PRE(X) \
	VALID_BUILDER(X) \
	X(mt.type->size <= (1ull << 40) && g_msize == mt.type->size && g_S == g_msize && g_malign == mt.type->align && g_W == width) \
	X(IMP(mt.type->kind != TYPEFUNC && !(mt.type->prop & PROPVM) && (!mt.type->incomplete || mt.type->kind == TYPEARRAY), \
	      ISPOW2(mt.type->align) && mt.type->align <= (1 << 28))) \
	X(IMP(mt.type->prop & PROPINT, INTTYPE(mt.type))) \
	X(g_first == (b->last == &T->u.structunion.members))

#define ISSTRUCT (T->kind == TYPESTRUCT)
#define FAM      (mt.type->incomplete && mt.type->kind == TYPEARRAY)
#define POST(X) \
	X(IMP(FAM, ISSTRUCT))        /* no flexible array member in a union */ \
	X(IMP(FAM, !g_first))        /* not the only/first member */ \
	CANARY(X, !(FAM && ISSTRUCT && !g_first && g_size0 == 4))

static void addmember_contract(struct structbuilder *b, struct qualtype mt, char *name, int align, unsigned long long width)
REQUIRES(PRE)
__CPROVER_assigns(*b->last, b->last, b->bits, b->type->size, b->type->align, b->type->flexible)
ENSURES(POST);

void
harness(void)
{
	IN(int, in_tkind); IN(u64, in_size0); IN(unsigned, in_bits0); IN(int, in_align0); IN(bool, in_flex0); IN(bool, in_pack);
	IN(int, in_mkind); IN(int, in_mprop); IN(u64, in_msize); IN(int, in_malign); IN(bool, in_minc); IN(bool, in_mflex);
	IN(int, in_qual); IN(bool, in_named); IN(int, in_align); IN(u64, in_width);
	IN(bool, in_first);
	AM_BUILD;

	if (in_first) {
		am_sb.last = &am_st.u.structunion.members;
		g_last = am_sb.last;
	}
	g_first = in_first;
	CALL(PRE, POST, addmember(b, mt, name, align, width));
}
