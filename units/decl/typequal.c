/* UNIT
{
 "id": "DECL.typequal",
 "file": "decl.c", "function": "typequal",
 "properties": {"C10": "contract", "C19": "safety"},
 "mode": "dfcc", "enforce": "typequal/typequal_contract",
 "kind": "proof",
 "timeout": 100,
 "expects": ["postcondition", "assertion_verif"],
 "assumes": ["next() replaced by a counting stub", "tq != NULL (all four call sites pass the address of a local or of a type field)",
             "g_no_error is set for const/volatile/restrict: they must not be diagnosed"]
}
*/
/*
 * C10: `_Atomic` as a type qualifier is documented as unsupported => it must be diagnosed, never accepted
 *      (normal return => the token was not _Atomic).
 * C11 6.7.3p1/p5: const, restrict, volatile are recorded; repeating a qualifier is the same as giving it once
 *      (the accumulated mask is exactly the set of qualifiers seen); any other token: 0, nothing changes.
 */
#include "specifiers_common.h"

#define ISTQ(k)  ((k) == TCONST || (k) == TVOLATILE || (k) == TRESTRICT)
#define BIT(k)   ((k) == TCONST ? QUALCONST : (k) == TVOLATILE ? QUALVOLATILE : (k) == TRESTRICT ? QUALRESTRICT : 0)

#define PRE(X) \
	X(tq != 0 && g_old == (int)*tq) \
	X(g_tok == (int)tok.kind && g_next_calls == 0) \
	X(g_no_error == ISTQ(g_tok))

#define POST(X) \
	X(g_tok != T_ATOMIC)                                     /* _Atomic never accepted */ \
	X(RET == ISTQ(g_tok)) \
	X((int)*tq == (g_old | BIT(g_tok)))                      /* exactly the set seen */ \
	X(g_next_calls == (unsigned)ISTQ(g_tok))                 /* consumed iff recognised */ \
	X((int)tok.kind == g_tok) \
	CANARY(X, !(g_tok == TVOLATILE && g_old == QUALCONST))

static int typequal_contract(enum typequal *tq)
REQUIRES(PRE)
__CPROVER_assigns(g_next_calls, *tq)
ENSURES(POST);

void
harness(void)
{
	static enum typequal am_tq;
	IN(int, in_tok); IN(int, in_old);
	enum typequal *tq = &am_tq;

	tok.kind = in_tok;
	am_tq = in_old;
	g_tok = in_tok; g_old = in_old; g_next_calls = 0;
	g_no_error = ISTQ(g_tok);
	CALLR(int, PRE, POST, typequal(tq));
}
