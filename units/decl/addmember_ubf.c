/* UNIT
{
 "id": "DECL.addmember.ubf",
 "file": "decl.c", "function": "addmember",
 "properties": {"C06": "contract", "C19": "safety"},
 "mode": "dfcc", "enforce": "addmember/addmember_contract",
 "kind": "proof",
 "timeout": 200,
 "expects": ["postcondition", "assigns"],
 "assumes": ["integer types have align == size in {1,2,4,8} (LP64)",
             "the size clause for UNNAMED union bit-fields is stated in DECL.addmember.unnamed-bf (fails on the pinned tree: finding)"]
}
*/
/*
 * C06, union bit-field members (width != -1 on a union).  Oracle: spec/abi.h A1, A3, A4, B4, B5.
 */
#include "addmember_common.h"

#define PRE(X) \
	VALID_BUILDER(X) \
	X(T->kind == TYPEUNION) \
	X(width != NOBF && g_W == width) \
	X(INTTYPE(mt.type) && g_S == mt.type->size && g_malign == mt.type->align)

#define NAMED (name != 0)
#define POST(X) \
	/* (A4) every union member starts at offset 0, bit 0 (little endian: least significant bit of the unit) */ \
	X(IMP(NAMED, M != 0 && M->offset == 0 && M->bits.before == 0)) \
	X(IMP(NAMED, M->bits.after >= 0 && 8 * g_S - M->bits.after == g_W)) \
	X(IMP(NAMED, M->type == mt.type && M->qual == mt.qual && M->name == name && M->next == 0 && b->last == &M->next)) \
	X(IMP(!NAMED, M == 0 && b->last == g_last)) \
	/* the union is large enough for the field and never shrinks */ \
	X(IMP(NAMED, 8 * T->size >= g_W)) \
	X(T->size >= g_size0) \
	/* (A3)+(A4) after the final rounding to the alignment the size is that of the largest member */ \
	X(IMP(NAMED, abi_final_size(T->size, T->align) == abi_final_size(abi_max(g_size0, abi_bytes(g_W)), T->align))) \
	/* (A1)(B5) alignment = max; (B4) unnamed fields do not contribute */ \
	X(IMP(NAMED, T->align == MAXI(g_align0, (int)g_S))) \
	X(IMP(!NAMED, T->align == g_align0)) \
	X(b->bits == 0 && T->flexible == g_flex0) \
	FRAME(X) \
	CANARY(X, !(g_W == 13 && g_S == 2 && g_size0 == 1 && NAMED))

static void addmember_contract(struct structbuilder *b, struct qualtype mt, char *name, int align, unsigned long long width)
REQUIRES(PRE)
__CPROVER_assigns(*b->last, b->last, b->bits, b->type->size, b->type->align, b->type->flexible)
ENSURES(POST);

void
harness(void)
{
	IN(int, in_tkind); IN(u64, in_size0); IN(unsigned, in_bits0); IN(int, in_align0); IN(bool, in_flex0); IN(bool, in_pack);
	IN(int, in_mkind); IN(int, in_mprop); IN(u64, in_msize); IN(int, in_malign); IN(bool, in_minc); IN(bool, in_mflex);
	IN(int, in_qual); IN(bool, in_named); IN(int, in_align); IN(u64, in_width);
	AM_BUILD;

	CALL(PRE, POST, addmember(b, mt, name, align, width));
}
