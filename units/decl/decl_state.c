/* UNIT
{
 "id": "DECL.decl.state",
 "file": "decl.c", "function": "decl",
 "properties": {"C09": "contract", "C10": "contract", "C19": "safety"},
 "mode": "harness",
 "replace_calls": {"declspecs": "stub_declspecs", "declarator": "stub_declarator", "declcommon": "stub_declcommon", "staticassert": "stub_staticassert", "defineobj": "rec_defineobj"},
 "variants": {"func": ["-DV_FUNC=1"], "object": ["-DV_FUNC=0"]},
 "unwind": 3,
 "kind": "proof-const-unwind",
 "timeout": 200, "replay": false,
 "assumes": ["one declarator per declaration; declspecs/declarator/declcommon/defineobj/staticassert (static) are redirected to stand-ins: declspecs yields the storage-class and function specifiers of the declaration, declarator the declared name and type, declcommon the (prior or new) declaration with the linkage DECL.getlinkage/DECL.declcommon establish, defineobj RECORDS the definition request (DECL.defineobj); mkglobal/mkfunc/stmt/emitfunc/funchlt/delscope/delfunc/parseinit are recorders",
             "native replay impossible (static callees redirected)"]
}
*/
#include "decl.c"
#include "verif.h"

extern int g_no_error;
struct token tok;

/* ---- ghost inputs of the declaration being parsed ---- */
static enum storageclass g_sc; static enum funcspec g_fs;
static bool g_hasprior, g_hasbody, g_hasinit, g_empty;
static struct decl g_prior, g_new, *g_d;
static struct type t_fn, t_obj, t_ret, t_par; static struct decl g_param;
static char nm[2] = "f";
static int g_linkage;
static int n_emit, g_emit_global, n_stmt, n_define, g_def_hasinit, n_hlt;
static struct init g_init;
static struct scope sc_file_dummy, sc_func;
static struct value val0;

bool stub_staticassert(struct scope *s) { return false; }
bool attr(struct attr *a, enum attrkind k) { return false; }
bool gnuattr(struct attr *a, enum attrkind k) { return false; }
struct qualtype
stub_declspecs(struct scope *s, enum storageclass *sc, enum funcspec *fs, int *align)
{
	struct qualtype q = {V_FUNC ? &t_ret : &t_obj, QUALNONE, 0};
	*sc = g_sc; *fs = g_fs; *align = 0;
	tok.kind = g_empty ? TSEMICOLON : TIDENT;
	return q;
}
struct qualtype
stub_declarator(struct scope *s, struct qualtype base, char **name, struct scope **funcscope, bool allowabstract)
{
	struct qualtype q = {V_FUNC ? &t_fn : &t_obj, QUALNONE, 0};
	*name = nm;
	if (funcscope) *funcscope = V_FUNC ? &sc_func : 0;
	tok.kind = V_FUNC ? (g_hasbody ? TLBRACE : TSEMICOLON) : (g_hasinit ? TASSIGN : TSEMICOLON);
	return q;
}
bool consume(int k) { if (tok.kind == k && k != TLBRACE) { tok.kind = k == TASSIGN ? TNUMBER : TEOF; return true; } return false; }
char *expect(enum tokenkind k, const char *msg) { return 0; }
void next(void) { }
struct decl *scopegetdecl(struct scope *s, const char *name, bool recurse) { return g_hasprior ? &g_prior : 0; }
void scopeputdecl(struct scope *s, struct decl *d) { }
struct decl *
stub_declcommon(struct scope *s, enum declkind kind, char *name, char *asmname, struct type *t, enum typequal tq, enum storageclass sc, struct decl *prior)
{
	if (prior) { g_d = prior; return prior; }
	g_new.name = name; g_new.kind = kind; g_new.type = t; g_new.linkage = g_linkage;
	g_d = &g_new;
	return &g_new;
}
struct value *mkglobal(struct decl *d) { return &val0; }
struct func *mkfunc(struct decl *d, char *name, struct type *t, struct scope *s) { return (struct func *)&val0; }
void stmt(struct func *f, struct scope *s) { n_stmt++; tok.kind = TEOF; }
void funchlt(struct func *f) { n_hlt++; }
void emitfunc(struct func *f, bool global) { n_emit++; g_emit_global = global; }
struct scope *delscope(struct scope *s) { return &sc_file_dummy; }
void delfunc(struct func *f) { }
struct value *funcexpr(struct func *f, struct expr *e) { return &val0; }
struct init *parseinit(struct scope *s, struct type *t) { tok.kind = TSEMICOLON; return &g_init; }
void rec_defineobj(struct decl *d, struct init *init, bool hasinit, struct func *f) { n_define++; g_def_hasinit = hasinit; d->defined = true; }
bool typesame(struct type *a, struct type *b) { return a == b; }

/*
 * C09 / C11 6.7.4p7: "If all of the file scope declarations for a function in a translation unit include the inline
 * function specifier without extern, then the definition in that translation unit is an inline definition. An inline
 * definition does not provide an external definition" -- cproc does not emit it.  C11 6.9.2: a file-scope object
 * declaration without initializer and without extern is a TENTATIVE definition (exactly one zero-initialised
 * definition at the end of the unit: it is queued once); with extern it defines nothing; with an initializer it is a
 * definition now; redefinitions are constraint violations (6.9p3).
 */
void
harness(void)
{
	IN(int, in_sc); IN(int, in_fs); IN(bool, in_hasprior); IN(bool, in_body); IN(bool, in_init); IN(bool, in_parinc); IN(bool, in_empty); IN(bool, in_tag);
	IN(int, in_linkage); IN(bool, in_prior_inline); IN(bool, in_prior_defined); IN(bool, in_prior_tentative);
	struct decl **end0;
	bool r;

	__CPROVER_assume(in_sc == SCNONE || in_sc == SCEXTERN || in_sc == SCSTATIC);
	__CPROVER_assume((in_fs & ~(FUNCINLINE|FUNCNORETURN)) == 0);
	__CPROVER_assume(in_linkage == LINKEXTERN || in_linkage == LINKINTERN);
	/* linkage consistent with the specifiers at file scope (6.2.2), as DECL.getlinkage proves */
	__CPROVER_assume(in_sc != SCSTATIC || in_linkage == LINKINTERN || in_hasprior);
	g_sc = in_sc; g_fs = in_fs; g_hasprior = in_hasprior; g_hasbody = in_body; g_hasinit = in_init; g_linkage = in_linkage;
	t_ret.kind = TYPEINT; t_fn.kind = TYPEFUNC; t_fn.base = &t_ret;
	/* one parameter, of struct type that is complete or not yet */
	t_par.kind = TYPESTRUCT; t_par.incomplete = in_parinc; g_param.kind = DECLOBJECT; g_param.type = &t_par; g_param.name = nm; g_param.next = 0;
	t_fn.u.func.params = &g_param; t_fn.u.func.nparam = 1; t_fn.u.func.isvararg = false;
	t_obj.kind = TYPEINT; t_obj.prop = PROPSCALAR|PROPARITH|PROPREAL|PROPINT; t_obj.size = t_obj.align = 4;
	g_prior.name = nm; g_prior.kind = V_FUNC ? DECLFUNC : DECLOBJECT; g_prior.type = V_FUNC ? &t_fn : &t_obj; g_prior.linkage = in_linkage;
	g_prior.defined = in_prior_defined; g_prior.tentative = in_prior_tentative; g_prior.next = 0;
	if (V_FUNC) g_prior.u.func.inlinedefn = in_prior_inline;
	else { g_prior.u.obj.storage = SDSTATIC; g_prior.u.obj.align = 4; }
	g_new = (struct decl){0};
	n_emit = n_stmt = n_define = n_hlt = 0; g_no_error = 0;
	tentativedefns = 0; tentativedefnsend = &tentativedefns;
	end0 = tentativedefnsend;
	tok.kind = TINT;
	g_empty = !V_FUNC && in_empty;
	if (g_empty) { t_obj.kind = in_tag ? TYPESTRUCT : TYPEINT; g_no_error = in_tag; }    /* `struct S;` must not be rejected */

	r = decl(&filescope, 0);

	__CPROVER_assert(r, "a declaration was parsed");
	if (g_empty) {
		__CPROVER_assert(in_tag, "C11 6.7p2: a declaration shall declare at least a declarator, a tag, or the members of an enumeration: `int;` is diagnosed, `struct S;` is not");
		__CPROVER_assert(n_define == 0 && n_emit == 0 && tentativedefnsend == end0, "and declares no object or function");
		return;
	}
#if V_FUNC
	{
		bool want_inline = g_d->linkage == LINKEXTERN && (in_fs & FUNCINLINE) && !(in_sc & SCEXTERN) && (!in_hasprior || in_prior_inline);
		__CPROVER_assert(g_d->u.func.inlinedefn == want_inline,
		                 "inline definition iff external linkage and EVERY file-scope declaration so far has inline without extern");
		__CPROVER_assert(g_d->u.func.isnoreturn == ((in_fs & FUNCNORETURN) != 0), "_Noreturn recorded");
		if (in_body) {
			__CPROVER_assert(!(in_hasprior && in_prior_defined), "a second definition of a function is diagnosed (normal return => first definition)");
			__CPROVER_assert(!in_parinc, "C11 6.7.6.3p4 / 6.9.1p7: in a function DEFINITION a parameter of incomplete type is diagnosed (a mere declaration may have one)");
			__CPROVER_assert(n_stmt == 1 && g_d->defined, "the body is compiled once and the function is marked defined");
			__CPROVER_assert(n_emit == (want_inline ? 0 : 1), "an inline definition is not emitted; every other definition is emitted exactly once");
			__CPROVER_assert(want_inline || g_emit_global == (g_d->linkage == LINKEXTERN), "exported iff external linkage");
			__CPROVER_assert(n_hlt == ((in_fs & FUNCNORETURN) ? 1 : 0), "a _Noreturn function ends in hlt");
		} else {
			__CPROVER_assert(n_stmt == 0 && n_emit == 0 && g_d->defined == (in_hasprior && in_prior_defined), "a declaration without body defines nothing");
		}
	}
#else
	if (in_init) {
		__CPROVER_assert(!(in_hasprior && in_prior_defined), "a second definition of an object is diagnosed");
		__CPROVER_assert(n_define == 1 && g_def_hasinit, "an object declared with an initializer is defined now, with it");
		__CPROVER_assert(tentativedefnsend == end0, "and is not queued as tentative");
	} else if (in_sc & SCEXTERN) {
		__CPROVER_assert(n_define == 0 && tentativedefnsend == end0 && g_d->tentative == (in_hasprior && in_prior_tentative),
		                 "extern without initializer defines nothing and queues nothing");
	} else {
		bool already = in_hasprior && (in_prior_defined || in_prior_tentative);
		__CPROVER_assert(n_define == 0, "a tentative definition is not emitted now");
		__CPROVER_assert(already ? tentativedefnsend == end0 : (tentativedefns == g_d && tentativedefnsend == &g_d->next && g_d->tentative),
		                 "a tentative definition is queued exactly once (not again when already queued or defined)");
	}
#endif
#ifdef VERIF_CANARY
	__CPROVER_assert(!(in_hasprior && in_sc == SCNONE), "CANARY");
#endif
}
