/*
 * Shared by DECL.tagspec.enum and DECL.tagspec.enum.fixed-unsigned: the TYPEENUM branch of decl.c:tagspec() run for
 * real on the token stream   enum [: T] { A [= e] , B [= e] , C [= e] [,] } ;   with at most 3 enumerators.
 * Outside the claim, by stub: next/attr/gnuattr/scopegettag/scopeputtag (tagspec_common.h), consume/expect (re-stated on
 * next()), condexpr (returns the k-th prepared constant expression, consumes nothing), eval (identity on constants),
 * mkintconst, scopeputdecl (records the enumeration constants), declspecs (static; returns the ghost fixed underlying type).
 * Real: tagspec, mkdecl, type.c (typehasint, mktype, the integer type objects).
 */
#include "tagspec_common.h"

#define NE 3
static struct expr am_e[NE];
unsigned g_expr_k;
struct decl *g_decl[NE];
unsigned g_ndecl;
struct type *g_fixed;            /* fixed underlying type (C23 6.7.2.2p5) or NULL */

/* oracle-side description of the enumerator list */
unsigned g_n;                    /* number of enumerators 1..3 */
bool g_has[NE];                  /* has "= constant-expression" */
u64 g_v[NE];                     /* its value (two's complement carrier) */
bool g_vsg[NE];                  /* its type is signed */

bool
consume(int kind)
{
	if ((int)tok.kind != kind)
		return 0;
	next();
	return 1;
}

char *
expect(enum tokenkind kind, const char *msg)
{
	(void)msg;
	if (tok.kind != kind)
		verif_noreturn();
	next();
	return 0;
}

struct expr *
condexpr(struct scope *s)
{
	(void)s;
	if (g_expr_k < NE)
		return &am_e[g_expr_k++];
	g_script_overrun = 1;
	return &am_e[0];
}

struct expr *
eval(struct expr *e)
{
	return e;
}

struct value *
mkintconst(unsigned long long v)
{
	(void)v;
	return 0;
}

void
scopeputdecl(struct scope *s, struct decl *d)
{
	(void)s;
	if (g_ndecl < NE)
		g_decl[g_ndecl] = d;
	++g_ndecl;
}

struct qualtype
stub_declspecs(struct scope *s, enum storageclass *sc, enum funcspec *fs, int *align)
{
	struct qualtype qt = {g_fixed, QUALNONE, 0};

	(void)s; (void)sc; (void)fs; (void)align;
	return qt;
}

/* ---- oracle: the value of each enumeration constant (C11 6.7.2.2p3: "= constant" or previous + 1, first 0) as a
   two's complement u64 plus "is negative" */
#define VAL0   (g_has[0] ? g_v[0] : 0ull)
#define NEG0   (g_has[0] && g_vsg[0] && (g_v[0] >> 63))
#define VAL1   (g_has[1] ? g_v[1] : VAL0 + 1)
#define NEG1   (g_has[1] ? (g_vsg[1] && (g_v[1] >> 63)) : (NEG0 && VAL0 != ~0ull))
#define VAL2   (g_has[2] ? g_v[2] : VAL1 + 1)
#define NEG2   (g_has[2] ? (g_vsg[2] && (g_v[2] >> 63)) : (NEG1 && VAL1 != ~0ull))
#define VAL(k) ((k) == 0 ? VAL0 : (k) == 1 ? VAL1 : VAL2)
#define NEG(k) ((k) == 0 ? NEG0 : (k) == 1 ? NEG1 : NEG2)
/* range of the list */
#define INL(k)     ((k) < g_n)
#define ANYNEG     ((INL(0) && NEG0) || (INL(1) && NEG1) || (INL(2) && NEG2))
#define MIN2(a, b) ((a) < (b) ? (a) : (b))
#define MAX2(a, b) ((a) > (b) ? (a) : (b))
#define NEGV(k)    (INL(k) && NEG(k) ? VAL(k) : ~0ull)              /* negatives only, others neutral */
#define POSV(k)    (INL(k) && !NEG(k) ? VAL(k) : 0ull)
#define MINV       MIN2(NEGV(0), MIN2(NEGV(1), NEGV(2)))
#define MAXV       MAX2(POSV(0), MAX2(POSV(1), POSV(2)))
#define FITS1(k, size, sg) (NEG(k) ? abi_enum_fits(VAL(k), 1, 0, size, sg) : abi_enum_fits(0, 0, VAL(k), size, sg))
/* implicit increments stay far away from the end of every type (the exact C23 rule for running out of types is not
   modelled; such lists are simply not claimed to be accepted) */
#define SMALLSTEP(k) (g_has[k] || (k) == 0 || NEG((k) - 1) || VAL((k) - 1) < (1ull << 62))

/* DFCC havocs every static object, type.c's basic types included: the harness re-establishes the values of type.c's
   initialisers (LP64: INTTYPE(kind, size, signed)) and the precondition states them */
static void
am_inttype(struct type *t, enum typekind kind, unsigned size, bool sg)
{
	t->kind = kind; t->size = size; t->align = size; t->u.basic.issigned = sg;
	t->prop = PROPSCALAR | PROPARITH | PROPREAL | PROPINT | (kind == TYPECHAR ? PROPCHAR : 0);
	t->incomplete = 0; t->flexible = 0; t->base = 0; t->value = 0; t->qual = QUALNONE;
}
#define TYOK(t, n, s) ((t).size == (n) && (t).align == (n) && (t).u.basic.issigned == (s) && ((t).prop & PROPINT) && !(t).incomplete)
#define PRE_TYPES(X) \
	X(TYOK(typeschar, 1, 1) && TYOK(typeuchar, 1, 0) && TYOK(typeshort, 2, 1) && TYOK(typeushort, 2, 0)) \
	X(TYOK(typeint, 4, 1) && TYOK(typeuint, 4, 0) && TYOK(typelong, 8, 1) && TYOK(typeulong, 8, 0) && TYOK(typellong, 8, 1) && TYOK(typeullong, 8, 0))
#define ENUM_TYPES_INIT \
	am_inttype(&typeschar, TYPECHAR, 1, 1); am_inttype(&typeuchar, TYPECHAR, 1, 0); am_inttype(&typeshort, TYPESHORT, 2, 1); \
	am_inttype(&typeushort, TYPESHORT, 2, 0); am_inttype(&typeint, TYPEINT, 4, 1); am_inttype(&typeuint, TYPEINT, 4, 0); \
	am_inttype(&typelong, TYPELONG, 8, 1); am_inttype(&typeulong, TYPELONG, 8, 0); am_inttype(&typellong, TYPELLONG, 8, 1); \
	am_inttype(&typeullong, TYPELLONG, 8, 0)

#define PRE_ENUM(X) \
	PRE_TYPES(X) \
	X(tok.kind == TENUM && g_pos == 0 && !g_script_overrun && g_expr_k == 0 && g_ndecl == 0 && g_puttag_n == 0) \
	X(g_n >= 1 && g_n <= NE && !g_packed && g_fwd == 0)

static struct type *tagspec_contract(struct scope *s);

#define ENUM_HARNESS_INPUTS /* textual IN() lines are in the unit files */
#define ENUM_BUILD \
	static struct scope am_scope; \
	static struct type *const fx[8] = {&typeschar, &typeuchar, &typeshort, &typeushort, &typeint, &typeuint, &typelong, &typeulong}; \
	static struct type *const ety[4] = {&typeint, &typeuint, &typelong, &typeulong}; \
	struct scope *s = &am_scope; \
	ENUM_TYPES_INIT; \
	u64 v[NE] = {in_v0, in_v1, in_v2}; bool has[NE] = {in_has0, in_has1, in_has2}; unsigned ty[NE] = {in_ty0, in_ty1, in_ty2}; \
	unsigned k = 0, i; \
	__CPROVER_assume(in_n >= 1 && in_n <= NE && in_fx < 8 && in_ty0 < 4 && in_ty1 < 4 && in_ty2 < 4); \
	tok.kind = TENUM; tok.lit = 0; \
	g_fixed = in_fixed ? fx[in_fx] : (struct type *)0; \
	if (in_fixed) g_script[k++] = TCOLON; \
	g_script[k++] = TLBRACE; \
	for (i = 0; i < NE; ++i) { \
		if (i < in_n) { \
			g_script[k++] = TIDENT; \
			if (has[i]) g_script[k++] = TASSIGN; \
			if (i + 1 < in_n || in_trailing) g_script[k++] = TCOMMA; \
		} \
	} \
	g_script[k++] = TRBRACE; \
	g_script[k++] = TSEMICOLON; \
	for (i = 0; i < NE; ++i) { \
		g_has[i] = has[i]; g_v[i] = v[i]; g_vsg[i] = ety[ty[i]]->u.basic.issigned; \
	} \
	/* the prepared constant expressions, in order of the enumerators that have one */ \
	{ unsigned j = 0; \
	  for (i = 0; i < NE; ++i) { \
		if (i < in_n && has[i]) { \
			am_e[j].kind = EXPRCONST; am_e[j].type = ety[ty[i]]; am_e[j].u.constant.u = v[i]; \
			/* canonical constant of its type (what eval() produces) */ \
			__CPROVER_assume(ety[ty[i]]->size == 8 || (ety[ty[i]]->u.basic.issigned ? v[i] == (u64)(i64)(int)v[i] : v[i] == (u64)(unsigned)v[i])); \
			++j; \
		} \
	  } \
	} \
	g_n = in_n; g_pos = 0; g_script_overrun = 0; g_expr_k = 0; g_ndecl = 0; g_puttag_n = 0; g_structdecl_n = 0; \
	g_packed = 0; g_fwd = 0; g_decl[0] = g_decl[1] = g_decl[2] = 0
