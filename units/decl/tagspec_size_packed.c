/* UNIT
{
 "id": "DECL.tagspec.size.packed",
 "file": "decl.c", "function": "tagspec",
 "properties": {"C06": "contract"},
 "mode": "dfcc", "enforce": "tagspec/tagspec_contract",
 "replace_calls": {"structdecl": "stub_structdecl"},
 "link_repo": ["type.c"],
 "kind": "proof-const-unwind",
 "replay": false,
 "unwind": 3,
 "timeout": 200,
 "expects": ["postcondition"],
 "assumes": ["next(), attr(), gnuattr(), scopegettag(), scopeputtag() replaced by stubs; structdecl() replaced by a stub standing for any member sequence (see tagspec_common.h); token stream = `struct|union [tag] { ... }`",
             "member layout state left by the member parser: size <= 2^40, alignment a power of two <= 2^28 (postconditions of DECL.addmember.*)",
             "FAILS on the pinned tree (genuine defect): a packed struct is not rounded up to its alignment: `struct __attribute__((packed)) S { _Alignas(4) int x; char c; };` has sizeof 5, alignof 4 (gcc/clang: 8, 4); arrays of S then place elements at misaligned addresses and struct copies run past the object",
             "no native replay: a replaced callee is static"]
}
*/
/*
 * (packed variant: __attribute__((packed)) on the tag; members then have alignment 1 unless _Alignas/aligned raises it)
 * C06, psABI (A3) "The size of any object is always a multiple of the object's alignment": the completed struct/union
 * has size == alignup(bytes used by the members, max member alignment), the alignment the members gave it, and is
 * complete; a forward-declared tag is completed in place (same type object).
 */
#include "tagspec_common.h"

#define PRE(X) \
	X(g_end <= (1ull << 40) && g_k <= 28 && g_align == (int)(1u << g_k) && g_bitsleft <= 7) \
	X(tok.kind == TSTRUCT || tok.kind == TUNION) \
	X(g_pos == 0 && !g_script_overrun && g_structdecl_n == 0 && g_puttag_n == 0) \
	X(IMP(g_fwd != 0, g_fwd->incomplete || !g_fwd->incomplete)) \
	X(g_packed)

#define POST(X) \
	X(RET != 0 && RET == g_t && g_structdecl_n == 1) \
	X(RET->align == g_align) \
	X(abi_lowest_aligned(RET->size, g_end, g_k))                         /* (A3): the smallest multiple of the alignment that holds the members */ \
	X(!RET->incomplete && RET->u.structunion.members != 0) \
	X((int)RET->kind == g_kind && RET->flexible == g_flex) \
	X(IMP(g_fwd != 0, RET == g_fwd && g_puttag_n == 0))                  /* completes the forward declaration */ \
	X(IMP(g_fwd == 0 && g_hastag, g_puttag_n == 1 && g_puttag_t == RET)) \
	X(!g_script_overrun && g_seenpack == g_packed) \
	CANARY(X, !(g_end == 5 && g_k == 2 && g_kind == TYPESTRUCT))

int g_kind; bool g_hastag;
unsigned g_k;             /* log2 of the alignment */

static struct type *tagspec_contract(struct scope *s)
REQUIRES(PRE)
__CPROVER_assigns(tok, g_pos, g_script_overrun, g_structdecl_n, g_puttag_n, g_puttag_t, g_t, g_seenpack, am_member)
__CPROVER_assigns(g_fwd != 0: *g_fwd)
ENSURES(POST);

void
harness(void)
{
	static struct type am_fwd;
	static struct scope am_scope;
	static char am_tag[2] = "S";
	IN(bool, in_union); IN(bool, in_hastag); IN(bool, in_hasfwd); IN(bool, in_fwdinc); IN(bool, in_packed);
	IN(u64, in_end); IN(unsigned, in_k); IN(unsigned, in_bitsleft); IN(bool, in_flex);
	struct scope *s = &am_scope;

	tok.kind = in_union ? TUNION : TSTRUCT;
	tok.lit = 0;
	/* script after the struct/union keyword: [tag] '{' <first member token, consumed by the member-parser stub> then ';' after '}' */
	g_script[0] = in_hastag ? TIDENT : TLBRACE;
	g_script[1] = in_hastag ? TLBRACE : TINT;
	g_script[2] = in_hastag ? TINT : TSEMICOLON;
	g_script[3] = in_hastag ? TSEMICOLON : TEOF;
	g_script[4] = TEOF; g_script[5] = TEOF;
	/* next() copies only the kind: the tag spelling is what the scanner left in tok.lit */
	tok.lit = in_hastag ? &am_tag[0] : (char *)0;
	g_pos = 0; g_script_overrun = 0; g_structdecl_n = 0; g_puttag_n = 0; g_puttag_t = 0; g_t = 0;
	g_packed = in_packed;
	am_fwd.kind = in_union ? TYPEUNION : TYPESTRUCT; am_fwd.incomplete = in_fwdinc; am_fwd.size = 0; am_fwd.align = 0;
	g_fwd = in_hastag && in_hasfwd ? &am_fwd : (struct type *)0;
	__CPROVER_assume(in_k <= 28);
	g_end = in_end; g_k = in_k; g_align = (int)(1u << in_k); g_bitsleft = in_bitsleft; g_flex = in_flex;
	g_kind = in_union ? TYPEUNION : TYPESTRUCT; g_hastag = in_hastag;
	g_no_error = 0;
	CALLR(struct type *, PRE, POST, tagspec(s));
}
