/*
 * Shared by the DECL.tagspec.* units: decl.c:tagspec() run for real on a scripted token stream.
 * Outside the claim and replaced by stubs (all listed in the unit headers):
 *   next()            pp.c; advances `tok` through the script g_script[] (token kinds only)
 *   attr()/gnuattr()  attr.c; gnuattr reports `packed` iff the ghost g_packed says so (diagnosing it where not allowed)
 *   structdecl()      the member-declaration parser (static, replaced with --replace-calls): stands for "any sequence of
 *                     member declarations": it leaves the builder in an arbitrary state addmember() can produce
 *                     (DECL.addmember.*: size <= 2^40, power-of-two alignment, a member list) and moves to '}'
 *   scopegettag/scopeputtag  scope.c; ghost answer / recorded
 * type.c (mktype, typehasint, the basic type objects) is the real code, linked.
 */
#include "decl.c"
#include "verif.h"
#include "abi.h"

extern int g_no_error;

#define NSCRIPT 16
int g_script[NSCRIPT];
unsigned g_pos;
bool g_script_overrun;

void
next(void)
{
	if (g_pos < NSCRIPT)
		tok.kind = g_script[g_pos++];
	else {
		g_script_overrun = 1;
		tok.kind = TEOF;
	}
}

bool g_packed;           /* the tag carries __attribute__((packed)) */
bool
attr(struct attr *a, enum attrkind allowed)
{
	(void)a; (void)allowed;
	return 0;
}

bool
gnuattr(struct attr *a, enum attrkind allowed)
{
	if (!g_packed)
		return 0;
	if (!(allowed & ATTRPACKED))
		verif_noreturn();        /* "attribute 'packed' is not supported here" */
	if (a)
		a->kind |= ATTRPACKED;
	return 1;
}

struct type *g_fwd;      /* answer of scopegettag: an earlier (forward) declaration of the tag or NULL */
unsigned g_puttag_n; struct type *g_puttag_t;
struct type *
scopegettag(struct scope *s, const char *name, bool recurse)
{
	(void)s; (void)name; (void)recurse;
	return g_fwd;
}

void
scopeputtag(struct scope *s, const char *name, struct type *t)
{
	(void)s; (void)name;
	++g_puttag_n;
	g_puttag_t = t;
}

/* state the member parser leaves behind */
u64 g_end;               /* bytes used by the members */
int g_align;             /* max member alignment */
unsigned g_bitsleft;
bool g_flex;
bool g_seenpack;         /* b->pack as the member parser saw it */
struct type *g_t;        /* the type object being completed */
unsigned g_structdecl_n;
static struct member am_member;

void
stub_structdecl(struct scope *s, struct structbuilder *b)
{
	(void)s;
	++g_structdecl_n;
	g_t = b->type;
	g_seenpack = b->pack;
	b->type->size = g_end;
	b->type->align = g_align;
	b->type->flexible = g_flex;
	b->bits = g_bitsleft;
	b->type->u.structunion.members = &am_member;
	tok.kind = TRBRACE;
}
