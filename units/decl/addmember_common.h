/*
 * Shared by the DECL.addmember.* units: ghosts (logical variables), validity predicates of the builder state
 * and the harness that builds the argument objects of decl.c:addmember() from scalar inputs.
 *
 * Call sites (structdecl, the only caller): `b` is tagspec's builder: b->type the struct/union under
 * construction (size/align start at 0 and are only written by addmember), b->last the tail link of its member
 * list (always a NULL link), b->bits in 0..7 the number of still free bits in the last allocated byte,
 * b->pack from the packed attribute.  mt/name come from declarator(); align from declspecs() (0 or a power of
 * two <= INT_MAX, checked there); width is -1 for "no ':'", else the value of the width constant expression.
 */
#include "decl.c"
#include "verif.h"
#include "abi.h"

u64 g_size0;             /* b->type->size before the call: bytes allocated so far                  */
unsigned g_bits0;        /* b->bits before the call                                                */
u64 g_P;                 /* first free bit of the struct before the call: 8*size0 - bits0          */
int g_align0;            /* b->type->align before                                                  */
bool g_flex0;            /* b->type->flexible before                                               */
bool g_pack;             /* b->pack                                                                */
struct member **g_last;  /* b->last before: the link the new member (if any) is appended to        */
u64 g_S, g_W;            /* size of the member's declared type, bit-field width                    */
u64 g_msize;             /* == g_S (plain member units use this name)                              */
int g_malign;            /* alignment of the member's type                                         */
unsigned g_k;            /* log2 of the alignment the ABI places the member with                   */

#define ISPOW2(x)   ((x) > 0 && (((x) & ((x) - 1)) == 0))
#define MAXI(a, b)  ((a) > (b) ? (a) : (b))
#define M           (*g_last)             /* the member appended by the call */
#define T           (b->type)
#define NOBF        (-1ull)

/* the builder state tagspec/addmember maintain */
#define VALID_BUILDER(X) \
	X(b != 0 && b->type != 0 && b->last != 0 && mt.type != 0 && b->type != mt.type) \
	X(T->kind == TYPESTRUCT || T->kind == TYPEUNION) \
	X(*b->last == 0 && g_last == b->last) \
	X(T->size <= (1ull << 40) && b->bits <= 7 && IMP(b->bits != 0, T->size >= 1)) \
	X(IMP(T->kind == TYPEUNION, b->bits == 0)) \
	X(T->align == 0 || (ISPOW2(T->align) && T->align <= (1 << 28))) \
	X(align == 0 || (ISPOW2(align) && align <= (1 << 28))) \
	X(g_size0 == T->size && g_bits0 == b->bits && g_P == 8 * T->size - b->bits) \
	X(g_align0 == T->align && g_flex0 == T->flexible && g_pack == b->pack)

/* integer types of the LP64 targets: bool, char, short, int, long, long long and enums over them */
#define INTTYPE(t) (((t)->prop & PROPINT) && !((t)->prop & (PROPFLOAT | PROPVM)) && (t)->kind != TYPEFUNC && \
	((t)->size == 1 || (t)->size == 2 || (t)->size == 4 || (t)->size == 8) && (t)->align == (int)(t)->size && \
	!(t)->incomplete && !(t)->flexible)

/* what the call must leave alone */
#define FRAME(X) \
	X(b->pack == g_pack && T->kind == g_kind0) \
	X(mt.type->size == g_S && mt.type->align == g_malign)

int g_kind0;
extern int g_no_error;   /* stubs/base.c; DFCC havocs every static, so the harness sets it */

static struct structbuilder am_sb;
static struct type am_st, am_mt;
static struct member *am_head;
static char am_name[2] = "m";

/* the IN(..) lines live in each unit file: the runner extracts input names from the unit file text */

#define AM_BUILD \
	struct structbuilder *b = &am_sb; \
	struct qualtype mt; \
	char *name = in_named ? &am_name[0] : (char *)0; \
	int align = in_align; \
	unsigned long long width = in_width; \
	am_st.kind = in_tkind; am_st.size = in_size0; am_st.align = in_align0; am_st.flexible = in_flex0; am_st.incomplete = 1; \
	am_st.u.structunion.members = 0; \
	am_sb.type = &am_st; am_sb.last = &am_head; am_sb.bits = in_bits0; am_sb.pack = in_pack; \
	am_head = 0; \
	am_mt.kind = in_mkind; am_mt.prop = in_mprop; am_mt.size = in_msize; am_mt.align = in_malign; \
	am_mt.incomplete = in_minc; am_mt.flexible = in_mflex; \
	mt.type = &am_mt; mt.qual = in_qual; mt.expr = 0; \
	g_size0 = in_size0; g_bits0 = in_bits0; g_P = 8 * in_size0 - in_bits0; g_align0 = in_align0; g_flex0 = in_flex0; \
	g_pack = in_pack; g_last = &am_head; g_S = in_msize; g_msize = in_msize; g_W = in_width; g_malign = in_malign; \
	g_kind0 = in_tkind; g_no_error = 0
