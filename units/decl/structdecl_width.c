/* UNIT
{
 "id": "DECL.structdecl.width",
 "file": "decl.c", "function": "structdecl",
 "properties": {"C10": "contract", "C06": "contract"},
 "mode": "dfcc", "enforce": "structdecl/structdecl_contract",
 "replace_calls": {"declspecs": "stub_declspecs", "declarator": "stub_declarator", "addmember": "rec_addmember"},
 "kind": "proof-const-unwind",
 "unwind": 3,
 "replay": false,
 "timeout": 100,
 "expects": ["postcondition"],
 "assumes": ["FAILS on the pinned tree (genuine defect): structdecl() uses width == -1 (ULLONG_MAX) as 'not a bit-field': `struct s { int x : 18446744073709551615ull; };` is accepted as a plain int member (sizeof 4) instead of 'bit-field exceeds width of underlying type' (C11 6.7.2.1p4)",
             "token stream: one member declaration `T declarator [: width] ;` or `T : width ;`; declspecs/declarator/addmember (static) replaced by stubs, addmember by a recorder; next/consume/expect/attr/intconstexpr stubs; intconstexpr returns the ghost width value",
             "no native replay: replaced callees are static"]
}
*/
/*
 * C10/C06: a member declared with `: constant-expression` IS a bit-field of that width (C11 6.7.2.1p9-10): what
 * structdecl hands to addmember() for it must be distinguishable from a plain member, whatever the width's value, so
 * that 6.7.2.1p4 ("shall not exceed the width of an object of the type") can be checked there.
 */
#include "decl.c"
#include "verif.h"

extern int g_no_error;
#define NSCRIPT 6
int g_script[NSCRIPT];
unsigned g_pos;
u64 g_widthval;
bool g_colon, g_anon;           /* the declaration has ': width'; it has no declarator */
unsigned g_am_n; u64 g_am_width; char *g_am_name; int g_am_align; struct type *g_am_type;
static struct type am_int;
static char am_name[2] = "x";

void
next(void)
{
	tok.kind = g_pos < NSCRIPT ? g_script[g_pos] : TEOF;
	if (g_pos < NSCRIPT)
		++g_pos;
}

bool
consume(int kind)
{
	if ((int)tok.kind != kind)
		return 0;
	next();
	return 1;
}

char *
expect(enum tokenkind kind, const char *msg)
{
	(void)msg;
	if (tok.kind != kind)
		verif_noreturn();
	next();
	return 0;
}

bool
attr(struct attr *a, enum attrkind allowed)
{
	(void)a; (void)allowed;
	return 0;
}

unsigned long long
intconstexpr(struct scope *s, bool allowneg)
{
	(void)s; (void)allowneg;
	return g_widthval;
}

struct qualtype
stub_declspecs(struct scope *s, enum storageclass *sc, enum funcspec *fs, int *align)
{
	struct qualtype qt = {&am_int, QUALNONE, 0};

	(void)s; (void)sc; (void)fs;
	if (align)
		*align = 0;
	next();                  /* the type specifier token */
	return qt;
}

struct qualtype
stub_declarator(struct scope *s, struct qualtype base, char **name, struct scope **funcscope, bool allowabstract)
{
	(void)s; (void)funcscope; (void)allowabstract;
	if (name)
		*name = &am_name[0];
	next();                  /* the identifier */
	return base;
}

void
rec_addmember(struct structbuilder *b, struct qualtype mt, char *name, int align, unsigned long long width)
{
	(void)b;
	++g_am_n;
	g_am_width = width; g_am_name = name; g_am_align = align; g_am_type = mt.type;
}

#define PRE(X) \
	X(tok.kind == TINT && g_pos == 0 && g_am_n == 0)

#define POST(X) \
	X(g_am_n == 1 && g_am_type == &am_int) \
	X(IMP(!g_colon, g_am_width == -1ull && g_am_name == &am_name[0]))         /* plain member */ \
	X(IMP(g_colon, g_am_width == g_widthval))                                    /* the declared width is passed on ... */ \
	X(IMP(g_colon, g_am_width != -1ull))                                         /* ... and the member is marked as a bit-field */ \
	X(IMP(g_anon, g_am_name == 0)) \
	X(tok.kind == TEOF || tok.kind == TRBRACE) \
	CANARY(X, !(g_colon && g_widthval == 3 && !g_anon))

static void structdecl_contract(struct scope *s, struct structbuilder *b)
REQUIRES(PRE)
__CPROVER_assigns(tok, g_pos, g_am_n, g_am_width, g_am_name, g_am_align, g_am_type)
ENSURES(POST);

void
harness(void)
{
	static struct structbuilder am_sb;
	static struct scope am_scope;
	IN(bool, in_colon); IN(bool, in_anon); IN(u64, in_width);
	struct scope *s = &am_scope;
	struct structbuilder *b = &am_sb;
	unsigned k = 0;

	__CPROVER_assume(!in_anon || in_colon);      /* `int ;` is another diagnostic */
	/* after the type specifier (tok): [x] [: w] ; }   -- the width expression's tokens are not in the script */
	if (!in_anon)
		g_script[k++] = TIDENT;
	if (in_colon)
		g_script[k++] = TCOLON;
	g_script[k++] = TSEMICOLON;
	g_script[k++] = TRBRACE;
	g_script[k++] = TEOF; 
	if (k < NSCRIPT) g_script[k++] = TEOF;
	if (k < NSCRIPT) g_script[k++] = TEOF;
	/* stub_declspecs consumes the type specifier: put the script one step behind */
	tok.kind = TINT;
	g_pos = 0; g_am_n = 0; g_widthval = in_width; g_colon = in_colon; g_anon = in_anon;
	am_int.kind = TYPEINT; am_int.size = 4; am_int.align = 4; am_int.prop = PROPSCALAR | PROPARITH | PROPREAL | PROPINT;
	g_no_error = 0;
	CALL(PRE, POST, structdecl(s, b));
}
