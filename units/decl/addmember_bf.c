/* UNIT
{
 "id": "DECL.addmember.bf",
 "file": "decl.c", "function": "addmember",
 "properties": {"C06": "contract", "C19": "safety"},
 "mode": "dfcc", "enforce": "addmember/addmember_contract",
 "kind": "proof",
 "timeout": 200,
 "expects": ["postcondition", "assigns"],
 "assumes": ["struct size so far <= 2^40 bytes (layout arithmetic does not wrap)",
             "integer types have align == size in {1,2,4,8} (LP64: bool, char, short, int, long, long long, enums over them)",
             "rule (B4) of spec/abi.h as in the x86-64 and RISC-V psABIs: an unnamed bit-field does not contribute alignment; AAPCS64 differs (reported as a finding, cproc has no per-target layout)"]
}
*/
/*
 * C06, struct bit-field members: addmember(b, mt, name, align, width) with width != -1 on a struct.
 * Oracle: spec/abi.h abi_bitpos (psABI "Bit-Fields" rules B1-B5).
 */
#include "addmember_common.h"

#define PRE(X) \
	VALID_BUILDER(X) \
	X(T->kind == TYPESTRUCT) \
	X(width != NOBF && g_W == width) \
	X(INTTYPE(mt.type) && g_S == mt.type->size && g_malign == mt.type->align)

#define NAMED (name != 0)
#define POS1  (8 * T->size - b->bits)       /* first free bit after the call */
#define POST(X) \
	/* (B1)(B2) the field starts at the ABI's bit position, expressed as storage unit offset + bits before */ \
	X(IMP(NAMED, M != 0 && 8 * M->offset + M->bits.before == abi_bitpos(g_P, g_S, g_W))) \
	/* the recorded storage unit is an aligned unit of the declared type */ \
	X(IMP(NAMED, M->offset % g_S == 0)) \
	/* before + width + after fill the unit exactly */ \
	X(IMP(NAMED, M->bits.before >= 0 && M->bits.after >= 0 && 8 * g_S - M->bits.before - M->bits.after == g_W)) \
	/* the member is appended at the tail with the declared type, qualifiers and name */ \
	X(IMP(NAMED, M->type == mt.type && M->qual == mt.qual && M->name == name && M->next == 0 && b->last == &M->next)) \
	/* unnamed bit-fields (padding, zero width) create no member */ \
	X(IMP(!NAMED, M == 0 && b->last == g_last)) \
	/* builder position advances to the end of the field (named or not); zero width: to the unit boundary (B3) */ \
	X(POS1 == abi_bitpos(g_P, g_S, g_W) + g_W) \
	X(b->bits <= 7) \
	X(IMP(g_W == 0, POS1 % (8 * g_S) == 0 && b->bits == 0)) \
	/* (A1)(B5) struct alignment = max; (B4) unnamed fields do not contribute */ \
	X(IMP(NAMED, T->align == MAXI(g_align0, (int)g_S))) \
	X(IMP(!NAMED, T->align == g_align0)) \
	X(T->flexible == g_flex0) \
	FRAME(X) \
	CANARY(X, !(g_W == 13 && g_S == 2 && g_P == 7 && NAMED))

static void addmember_contract(struct structbuilder *b, struct qualtype mt, char *name, int align, unsigned long long width)
REQUIRES(PRE)
__CPROVER_assigns(*b->last, b->last, b->bits, b->type->size, b->type->align, b->type->flexible)
ENSURES(POST);

void
harness(void)
{
	IN(int, in_tkind); IN(u64, in_size0); IN(unsigned, in_bits0); IN(int, in_align0); IN(bool, in_flex0); IN(bool, in_pack);
	IN(int, in_mkind); IN(int, in_mprop); IN(u64, in_msize); IN(int, in_malign); IN(bool, in_minc); IN(bool, in_mflex);
	IN(int, in_qual); IN(bool, in_named); IN(int, in_align); IN(u64, in_width);
	AM_BUILD;

	CALL(PRE, POST, addmember(b, mt, name, align, width));
}
