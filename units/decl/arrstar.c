/* UNIT
{
 "id": "DECL.declarator.arrstar",
 "file": "decl.c", "function": "declarator",
 "also_functions": ["declaratortypes"],
 "properties": {"C10": "contract", "C19": "safety"},
 "mode": "harness",
 "link_repo": ["type.c"],
 "unwind": 4,
 "variants": {"decl": ["-DV_CTX=0"], "param": ["-DV_CTX=1"], "typename": ["-DV_CTX=2"]}, "canary_variant": "param",
 "kind": "proof-const-unwind",
 "bound": "the declarators `a [ * ]` and `[ * ]` (array of unspecified size) in the three contexts declarator() is called from: ordinary declaration, parameter declaration, type name",
 "timeout": 120, "replay": false,
 "assumes": ["next()/consume()/peek() are a token-script stand-in (PP.peek, PP.next); attr()/gnuattr() see no attribute; util.c listinsert re-stated; type.c is the real file"]
}
*/
/*
 * C11 6.7.6.2p4: "If the size is * instead of being an expression, the array type is a variable length array type of
 * unspecified size, which can only be used in declarations or type names with function prototype scope."
 * A block-scope `int a[*];` reached qbe.c with a VLA type that has no length expression:
 * "calcvla: Assertion `t->u.array.length' failed" (C19).  declarator() knows its context: parameters and type names
 * are parsed with allowabstract, ordinary declarations without.
 */
#include "decl.c"
#include "verif.h"

struct token tok;
extern int g_no_error;
const struct target *targ;
static enum tokenkind s_kind[6]; static char *s_lit[6]; static unsigned s_pos;
void next(void) { s_pos++; tok.kind = s_kind[s_pos]; tok.lit = s_lit[s_pos]; }
bool consume(int k) { if (tok.kind != k) return false; next(); return true; }
bool peek(int k) { if (s_kind[s_pos + 1] != k) return false; next(); next(); return true; }
char *expect(enum tokenkind k, const char *msg) { char *l = tok.lit; if (tok.kind != k) verif_noreturn(); next(); return l; }
bool attr(struct attr *a, enum attrkind k) { return false; }
bool gnuattr(struct attr *a, enum attrkind k) { return false; }
void listinsert(struct list *list, struct list *new) { new->next = list->next; new->prev = list; list->next->prev = new; list->next = new; }
void listremove(struct list *list) { list->next->prev = list->prev; list->prev->next = list->next; }
void *xmalloc(size_t n) { void *p = malloc(n); __CPROVER_assume(p != 0); return p; }

void
harness(void)
{
	static char n_a[] = "a";
	unsigned in_ctx = V_CTX;     /* 0: ordinary declaration, 1: parameter, 2: type name */
	struct qualtype base = {&typeint, QUALNONE, 0}, r;
	char *name = 0;
	unsigned k = 0;
	bool valid;

#if V_CTX != 2
	s_kind[0] = TIDENT; s_lit[0] = n_a; s_kind[1] = TLBRACK; s_kind[2] = TMUL; s_kind[3] = TRBRACK; s_kind[4] = TSEMICOLON;
#else
	s_kind[0] = TLBRACK; s_kind[1] = TMUL; s_kind[2] = TRBRACK; s_kind[3] = TSEMICOLON;
#endif
	(void)k;
	s_pos = 0; tok.kind = s_kind[0]; tok.lit = s_lit[0];
	valid = in_ctx != 0;
	g_no_error = valid;

	r = declarator(&filescope, base, in_ctx == 2 ? (char **)0 : &name, (struct scope **)0, in_ctx != 0);

	__CPROVER_assert(valid, "C11 6.7.6.2p4: an array of unspecified size outside function prototype scope (an ordinary declaration) is diagnosed");
	__CPROVER_assume(valid);
	__CPROVER_assert(r.type->kind == TYPEARRAY && (r.type->prop & PROPVM) && !r.type->incomplete && r.type->base == &typeint, "in a parameter declaration or type name it is a complete variable length array type of the element type");
	__CPROVER_assert(tok.kind == TSEMICOLON, "exactly the declarator is consumed");
#ifdef VERIF_CANARY
	__CPROVER_assert(in_ctx != 1, "CANARY");
#endif
}
