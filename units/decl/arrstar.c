/* UNIT
{
 "id": "DECL.declarator.arrstar",
 "file": "decl.c", "function": "declarator",
 "also_functions": ["declaratortypes"],
 "properties": {"C10": "contract", "C19": "safety"},
 "mode": "harness",
 "link_repo": ["type.c"],
 "unwind": 4,
 "variants": {"decl": ["-DV_CTX=0", "-DV_FORM=0"], "param": ["-DV_CTX=1", "-DV_FORM=0"], "typename": ["-DV_CTX=2", "-DV_FORM=0"], "decl.static": ["-DV_CTX=0", "-DV_FORM=1"], "param.static": ["-DV_CTX=1", "-DV_FORM=1"], "typename.static": ["-DV_CTX=2", "-DV_FORM=1"], "decl.qual": ["-DV_CTX=0", "-DV_FORM=2"], "param.qual": ["-DV_CTX=1", "-DV_FORM=2"], "typename.qual": ["-DV_CTX=2", "-DV_FORM=2"]}, "canary_variant": "param",
 "kind": "proof-const-unwind",
 "bound": "the declarators `a [ * ]`, `a [ static 3 ]`, `a [ const 3 ]` (and their abstract forms) in the three contexts declarator() is called from: ordinary declaration, parameter declaration, type name",
 "timeout": 120, "replay": false,
 "assumes": ["assignexpr() is a stand-in that consumes the length token and yields the integer constant 3 (eval() is the identity on it, folding is C04); next()/consume()/peek() are a token-script stand-in (PP.peek, PP.next); attr()/gnuattr() see no attribute; util.c listinsert re-stated; type.c is the real file"]
}
*/
/*
 * C11 6.7.6.2p4: "If the size is * instead of being an expression, the array type is a variable length array type of
 * unspecified size, which can only be used in declarations or type names with function prototype scope."
 * A block-scope `int a[*];` reached qbe.c with a VLA type that has no length expression:
 * "calcvla: Assertion `t->u.array.length' failed" (C19).  declarator() knows its context: parameters and type names
 * are parsed with allowabstract, ordinary declarations without.
 * 6.7.6.2p1: "The optional type qualifiers and the keyword static shall appear only in a declaration of a function parameter
 * with an array type" - `int a[static 3];` at block or file scope and `sizeof(int[const 3])` must be diagnosed.
 */
#include "decl.c"
#include "verif.h"

struct token tok;
extern int g_no_error;
const struct target *targ;
static enum tokenkind s_kind[8]; static char *s_lit[8]; static unsigned s_pos;
void next(void) { s_pos++; tok.kind = s_kind[s_pos]; tok.lit = s_lit[s_pos]; }
bool consume(int k) { if (tok.kind != k) return false; next(); return true; }
bool peek(int k) { if (s_kind[s_pos + 1] != k) return false; next(); next(); return true; }
char *expect(enum tokenkind k, const char *msg) { char *l = tok.lit; if (tok.kind != k) verif_noreturn(); next(); return l; }
bool attr(struct attr *a, enum attrkind k) { return false; }
bool gnuattr(struct attr *a, enum attrkind k) { return false; }
void listinsert(struct list *list, struct list *new) { new->next = list->next; new->prev = list; list->next->prev = new; list->next = new; }
void listremove(struct list *list) { list->next->prev = list->prev; list->prev->next = list->next; }
static struct expr e_len;
struct expr *assignexpr(struct scope *s) { e_len.kind = EXPRCONST; e_len.type = &typeint; e_len.u.constant.u = 3; next(); return &e_len; }
struct expr *eval(struct expr *e) { return e; }
void *xmalloc(size_t n) { void *p = malloc(n); __CPROVER_assume(p != 0); return p; }

void
harness(void)
{
	static char n_a[] = "a";
	unsigned in_ctx = V_CTX;     /* 0: ordinary declaration, 1: parameter, 2: type name */
	struct qualtype base = {&typeint, QUALNONE, 0}, r;
	char *name = 0;
	unsigned k = 0;
	bool valid;

#if V_FORM == 0
#define MID1 TMUL
#define NMID 1
#else
#define MID1 (V_FORM == 1 ? TSTATIC : TCONST)
#define NMID 2
#endif
#if V_CTX != 2
	s_kind[0] = TIDENT; s_lit[0] = n_a; s_kind[1] = TLBRACK; s_kind[2] = MID1; s_kind[3] = NMID == 2 ? TNUMBER : TRBRACK; s_kind[4] = NMID == 2 ? TRBRACK : TSEMICOLON; s_kind[5] = TSEMICOLON;
#else
	s_kind[0] = TLBRACK; s_kind[1] = MID1; s_kind[2] = NMID == 2 ? TNUMBER : TRBRACK; s_kind[3] = NMID == 2 ? TRBRACK : TSEMICOLON; s_kind[4] = TSEMICOLON;
#endif
	(void)k;
	s_pos = 0; tok.kind = s_kind[0]; tok.lit = s_lit[0];
	valid = V_FORM == 0 ? in_ctx != 0 : in_ctx == 1;
	g_no_error = valid;

	r = declarator(&filescope, base, in_ctx == 2 ? (char **)0 : &name, (struct scope **)0, in_ctx != 0);

	__CPROVER_assert(valid, "C11 6.7.6.2p4 / p1: an array of unspecified size outside function prototype scope, and `static` or type qualifiers in an array declarator that does not declare a function parameter, are diagnosed");
	__CPROVER_assume(valid);
#if V_FORM == 0
	__CPROVER_assert(r.type->kind == TYPEARRAY && (r.type->prop & PROPVM) && !r.type->incomplete && r.type->base == &typeint, "in a parameter declaration or type name it is a complete variable length array type of the element type");
#else
	__CPROVER_assert(r.type->kind == TYPEARRAY && !r.type->incomplete && r.type->base == &typeint && r.type->size == 12, "int[3]");
	__CPROVER_assert(r.type->u.array.ptrqual == (V_FORM == 2 ? QUALCONST : QUALNONE), "the qualifiers written in [] are kept for the adjusted parameter type (6.7.6.3p7)");
#endif
	__CPROVER_assert(tok.kind == TSEMICOLON, "exactly the declarator is consumed");
#ifdef VERIF_CANARY
	__CPROVER_assert(in_ctx != 1, "CANARY");
#endif
}
