/* UNIT
{
 "id": "DECL.declcommon",
 "file": "decl.c", "function": "declcommon", "also_functions": ["getlinkage", "mkdecl"],
 "properties": {"C09": "contract", "C10": "contract", "C19": "safety"},
 "mode": "dfcc", "enforce": "declcommon/declcommon_contract",
 "kind": "proof",
 "timeout": 200,
 "expects": ["postcondition", "assigns"],
 "assumes": ["scope.c scopegetdecl/scopeputdecl replaced by stubs: lookups return the ghost declarations g_visible (enclosing scopes, recursive) and g_fileprior (file scope only); an insertion is recorded",
             "type.c typecompatible/typecomposite replaced by stubs returning ghost answers (type compatibility is C05's business); strcmp replaced by a stub answering the ghost g_asmeq",
             "domain: the declaration visible from the enclosing scopes, if any, has internal or external linkage; a visible prior declaration with NO linkage (6.2.2p4 last sentence) is DECL.getlinkage.prior-nolink, which fails on the pinned tree",
             "decl() has rejected: prior declaration of a different kind in the same scope, auto/register at file scope, block scope function with a storage class other than extern, lone _Thread_local at block scope"]
}
*/
/*
 * C09 + C10: decl.c:declcommon() -- the redeclaration rules for objects and functions.
 *   (a) same-scope prior declaration (parameter `prior`):
 *       C11 6.7p3  no linkage => "no more than one declaration ... with the same scope and name space": diagnosed;
 *       the later declaration's linkage per 6.2.2 (oracle spec/linkage.h) must equal the prior one's, else diagnosed;
 *       6.7p4 compatible types and equal qualifiers, else diagnosed; the prior declaration is returned, its type
 *       replaced by the composite type, its linkage unchanged (6.2.2p4: "the same as the linkage specified at the prior").
 *   (b) no same-scope prior: a new declaration is created with exactly the linkage 6.2.2 gives, given the declaration
 *       visible from the enclosing scopes; it is entered into scope s exactly once.  If it has linkage and there is a
 *       linked prior declaration of the identifier (the visible one; for deeper blocks the file scope one), that one
 *       must agree in kind, linkage, type and qualifiers, else diagnosed; its assembler name is inherited.
 */
#include <string.h>
/* strcmp (assembler-name comparison) is outside the claim: calls in decl.c are mapped to a stub answering the ghost
   g_asmeq.  A macro, not a definition of strcmp: the native replay runtime needs the real one. */
#define strcmp(a, b) verif_strcmp(a, b)
#include "decl.c"
#include "verif.h"
#include "linkage.h"

extern int g_no_error;

/* ghosts */
struct decl *g_prior, *g_visible, *g_fileprior;
int g_priorlink, g_vislink;          /* linkage of prior / of the visible declaration, or SPEC_NO_PRIOR */
bool g_compat;                       /* answer of typecompatible()                                      */
bool g_asmeq;                        /* answer of strcmp() == 0                                         */
struct type *g_composite;            /* answer of typecomposite()                                       */
struct type *g_priortype;
unsigned g_put_n; struct scope *g_put_scope; struct decl *g_put_decl;
unsigned g_tc_n;
bool g_badlookup;
struct scope *g_s;

/* ---- stubs for what is outside the claim */
bool
typecompatible(struct type *a, struct type *b)
{
	(void)a; (void)b;
	++g_tc_n;
	return g_compat;
}

struct type *
typecomposite(struct type *a, struct type *b)
{
	(void)a; (void)b;
	return g_composite;
}

int
verif_strcmp(const char *a, const char *b)
{
	(void)a; (void)b;
	return g_asmeq ? 0 : 1;
}

struct decl *
scopegetdecl(struct scope *s, const char *name, bool recurse)
{
	(void)name;
	if (s == g_s->parent && recurse)
		return g_visible;
	if (s == &filescope && !recurse)
		return g_fileprior;
	g_badlookup = 1;
	return 0;
}

void
scopeputdecl(struct scope *s, struct decl *d)
{
	++g_put_n;
	g_put_scope = s;
	g_put_decl = d;
}

#define SC_ONEOF(sc) ((sc) == SCNONE || (sc) == SCEXTERN || (sc) == SCSTATIC || (sc) == SCAUTO || (sc) == SCREGISTER || \
                      (sc) == SCTHREADLOCAL || (sc) == (SCTHREADLOCAL | SCSTATIC) || (sc) == (SCTHREADLOCAL | SCEXTERN))
#define FILESC   (s == &filescope)
#define LINKOK(l) ((l) == LINKNONE || (l) == LINKINTERN || (l) == LINKEXTERN)
#define L2S(l)   ((l) == LINKINTERN ? SPEC_LINK_INTERN : (l) == LINKEXTERN ? SPEC_LINK_EXTERN : SPEC_LINK_NONE)

#define PRE(X) \
	X(s != 0 && s == g_s && filescope.parent == 0 && IMP(!FILESC, s->parent != 0 && s->parent != s)) \
	X(kind == DECLOBJECT || kind == DECLFUNC) \
	X(SC_ONEOF(sc)) \
	X(IMP(FILESC, !(sc & (SCAUTO | SCREGISTER)))) \
	X(IMP(!FILESC && kind == DECLFUNC, sc == SCNONE || sc == SCEXTERN)) \
	X(IMP(!FILESC, sc != SCTHREADLOCAL)) \
	X(name != 0 && t != 0) \
	X(prior == g_prior && IMP(prior != 0, prior->kind == kind && LINKOK(prior->linkage) && prior->type != 0 && prior->type == g_priortype)) \
	X(g_priorlink == (prior ? (int)prior->linkage : SPEC_NO_PRIOR)) \
	X(IMP(g_visible != 0, LINKOK(g_visible->linkage) && g_visible->linkage != LINKNONE && g_visible->type != 0 && g_visible != prior)) \
	X(IMP(g_fileprior != 0, LINKOK(g_fileprior->linkage) && g_fileprior->type != 0 && g_fileprior != prior)) \
	X(IMP(FILESC, g_visible == 0)) \
	X(g_vislink == (g_visible ? (int)g_visible->linkage : SPEC_NO_PRIOR)) \
	X(g_composite != 0 && g_put_n == 0 && g_tc_n == 0 && !g_badlookup)

/* the linkage C11 6.2.2 gives this declaration */
#define LNK_A   spec_linkage(kind == DECLFUNC, kind == DECLOBJECT, (sc & SCSTATIC) != 0, (sc & SCEXTERN) != 0, g_priorlink, FILESC)
#define LNK_B   spec_linkage(kind == DECLFUNC, kind == DECLOBJECT, (sc & SCSTATIC) != 0, (sc & SCEXTERN) != 0, g_vislink, FILESC)
#define A       (g_prior != 0)
#define B       (g_prior == 0)
/* (b): the linked prior declaration of the identifier that the new declaration must agree with, if any */
#define LP      (s->parent != &filescope ? g_fileprior : g_visible)
#define MERGE   (B && LNK_B != SPEC_LINK_NONE && !FILESC && LP != 0 && LP->linkage != LINKNONE)

#define POST(X) \
	/* ---- (a) same-scope redeclaration */ \
	X(IMP(A, g_priorlink != SPEC_LINK_NONE))                                     /* 6.7p3 */ \
	X(IMP(A, g_priorlink == LNK_A))                                              /* linkage mismatch diagnosed */ \
	X(IMP(A, g_compat && tq == g_prior->qual))                                   /* 6.7p4 */ \
	X(IMP(A && asmname != 0, g_prior->asmname != 0 && g_asmeq)) \
	X(IMP(A, RET == g_prior && (int)g_prior->linkage == g_priorlink && g_prior->type == g_composite && g_put_n == 0)) \
	/* ---- (b) new declaration */ \
	X(IMP(B, RET != 0 && RET != g_visible && RET != g_fileprior)) \
	X(IMP(B, L2S(RET->linkage) == LNK_B))                                        /* the linkage 6.2.2 gives */ \
	X(IMP(B, RET->name == name && RET->kind == kind && RET->qual == tq && !RET->defined && !RET->tentative)) \
	X(IMP(B, g_put_n == 1 && g_put_scope == s && g_put_decl == RET))             /* entered into s exactly once */ \
	X(IMP(B && !MERGE, RET->type == t && RET->asmname == asmname)) \
	X(IMP(MERGE, LP->kind == kind))                                              /* redeclared with different kind */ \
	X(IMP(MERGE, L2S(LP->linkage) == LNK_B))                                     /* ... different linkage */ \
	X(IMP(MERGE, g_compat && tq == LP->qual))                                    /* ... incompatible type */ \
	X(IMP(MERGE && asmname != 0, LP->asmname != 0 && g_asmeq))                   /* ... different assembler name */ \
	X(IMP(MERGE, RET->type == g_composite && RET->asmname == (asmname ? asmname : LP->asmname))) \
	X(IMP(B && kind == DECLOBJECT, RET->u.obj.align == RET->type->align)) \
	X(!g_badlookup) \
	CANARY(X, !(B && !FILESC && sc == SCEXTERN && g_vislink == SPEC_LINK_INTERN && kind == DECLOBJECT))

static struct decl *declcommon_contract(struct scope *s, enum declkind kind, char *name, char *asmname, struct type *t, enum typequal tq, enum storageclass sc, struct decl *prior)
REQUIRES(PRE)
__CPROVER_assigns(g_put_n, g_put_scope, g_put_decl, g_tc_n, g_badlookup)
__CPROVER_assigns(prior != 0: prior->type)
ENSURES(POST);

void
harness(void)
{
	static struct scope am_scope, am_parent;
	static struct decl am_prior, am_vis, am_fp;
	static struct type am_t, am_pt, am_vt, am_ft, am_comp;
	static char am_name[2] = "x", am_asm[2] = "a", am_pasm[2] = "b";
	IN(bool, in_filescope); IN(bool, in_deep); IN(int, in_kind); IN(int, in_sc); IN(int, in_tq); IN(bool, in_hasasm);
	IN(bool, in_hasprior); IN(int, in_priorlink); IN(int, in_priorqual); IN(bool, in_priorasm);
	IN(bool, in_hasvis); IN(int, in_vislink); IN(int, in_viskind); IN(int, in_visqual); IN(bool, in_visasm);
	IN(bool, in_hasfp); IN(int, in_fplink); IN(int, in_fpkind); IN(int, in_fpqual); IN(bool, in_fpasm);
	IN(bool, in_compat); IN(bool, in_asmeq); IN(int, in_talign);
	struct scope *s = in_filescope ? &filescope : &am_scope;
	enum declkind kind = in_kind;
	char *name = &am_name[0];
	char *asmname = in_hasasm ? &am_asm[0] : (char *)0;
	struct type *t = &am_t;
	enum typequal tq = in_tq;
	enum storageclass sc = in_sc;
	struct decl *prior = in_hasprior ? &am_prior : (struct decl *)0;

	filescope.parent = 0;
	am_parent.parent = &filescope;
	am_scope.parent = in_deep ? &am_parent : &filescope;
	am_t.align = in_talign;
	am_prior.kind = in_kind; am_prior.linkage = in_priorlink; am_prior.type = &am_pt; am_prior.qual = in_priorqual;
	am_prior.asmname = in_priorasm ? &am_pasm[0] : (char *)0;
	am_vis.kind = in_viskind; am_vis.linkage = in_vislink; am_vis.type = &am_vt; am_vis.qual = in_visqual;
	am_vis.asmname = in_visasm ? &am_pasm[0] : (char *)0;
	am_fp.kind = in_fpkind; am_fp.linkage = in_fplink; am_fp.type = &am_ft; am_fp.qual = in_fpqual;
	am_fp.asmname = in_fpasm ? &am_pasm[0] : (char *)0;
	g_s = s;
	g_prior = prior; g_priorlink = prior ? in_priorlink : SPEC_NO_PRIOR; g_priortype = &am_pt;
	g_visible = in_hasvis && !in_filescope ? &am_vis : (struct decl *)0;
	g_vislink = g_visible ? in_vislink : SPEC_NO_PRIOR;
	g_fileprior = in_hasfp ? &am_fp : (struct decl *)0;
	g_compat = in_compat; g_asmeq = in_asmeq; g_composite = &am_comp;
	g_put_n = 0; g_tc_n = 0; g_badlookup = 0; g_put_scope = 0; g_put_decl = 0;
	g_no_error = 0;
	CALLR(struct decl *, PRE, POST, declcommon(s, kind, name, asmname, t, tq, sc, prior));
}
