/* UNIT
{
 "id": "DECL.storageclass",
 "file": "decl.c", "function": "storageclass",
 "properties": {"C10": "contract", "C09": "contract", "C19": "safety"},
 "mode": "dfcc", "enforce": "storageclass/storageclass_contract",
 "kind": "proof",
 "timeout": 100,
 "expects": ["postcondition", "assertion_verif"],
 "assumes": ["next() replaced by a counting stub (consumes the token; pp.c is outside the claim)",
             "the accumulated set *sc is one storageclass() itself can have produced (every specifier at most once, legal combination): declspecs() starts from SCNONE and only storageclass() writes it; this invariant is re-proved as a postcondition",
             "g_no_error is set from the oracle: a legal combination reaching error() is a failed obligation"]
}
*/
/*
 * C10/C09, C11 6.7.1p2: "At most, one storage-class specifier may be given in the declaration specifiers in a
 * declaration, except that _Thread_local may appear with static or extern."  Oracle: spec_storageclass_legal over
 * the multiset {specifiers seen so far} + {this one}.
 *   normal return with a storage-class keyword => allowed here (sc != NULL), combination legal, the bitmask is exactly
 *   the set of specifiers seen (old set plus this one, which was not in it), token consumed once;
 *   legal combination => not diagnosed (g_no_error);   any other token => 0, nothing changes, nothing consumed.
 */
#include "specifiers_common.h"

#define ISSC(k)  ((k) == TTYPEDEF || (k) == TEXTERN || (k) == TSTATIC || (k) == TTHREAD_LOCAL || (k) == TAUTO || (k) == TREGISTER)
/* which specifier a keyword denotes (6.7.1p1) */
#define BIT(k)   ((k) == TTYPEDEF ? SCTYPEDEF : (k) == TEXTERN ? SCEXTERN : (k) == TSTATIC ? SCSTATIC : \
                  (k) == TTHREAD_LOCAL ? SCTHREADLOCAL : (k) == TAUTO ? SCAUTO : (k) == TREGISTER ? SCREGISTER : 0)
#define CNT(set, k, bit, kw) ((unsigned)(((set) & (bit)) != 0) + (unsigned)((k) == (kw)))
#define LEGAL(set, k) spec_storageclass_legal(CNT(set, k, SCTYPEDEF, TTYPEDEF), CNT(set, k, SCEXTERN, TEXTERN), CNT(set, k, SCSTATIC, TSTATIC), \
                                              CNT(set, k, SCTHREADLOCAL, TTHREAD_LOCAL), CNT(set, k, SCAUTO, TAUTO), CNT(set, k, SCREGISTER, TREGISTER))
#define SETOK(set) ((set) == SCNONE || (set) == SCTYPEDEF || (set) == SCEXTERN || (set) == SCSTATIC || (set) == SCAUTO || (set) == SCREGISTER || \
                    (set) == SCTHREADLOCAL || (set) == (SCTHREADLOCAL | SCSTATIC) || (set) == (SCTHREADLOCAL | SCEXTERN))

#define PRE(X) \
	X(g_tok == (int)tok.kind && g_next_calls == 0) \
	X(IMP(sc != 0, g_old == (int)*sc && SETOK(*sc))) \
	X(IMP(sc == 0, g_old == 0)) \
	X(g_no_error == (sc != 0 && ISSC(g_tok) && LEGAL(g_old, g_tok)))

#define POST(X) \
	X(RET == ISSC(g_tok)) \
	X(IMP(ISSC(g_tok), sc != 0))                                 /* storage class not allowed in this declaration */ \
	X(IMP(ISSC(g_tok), LEGAL(g_old, g_tok)))                     /* 6.7.1p2 */ \
	X(IMP(ISSC(g_tok), (g_old & BIT(g_tok)) == 0 && (int)*sc == (g_old | BIT(g_tok))))   /* exactly the set seen */ \
	X(IMP(ISSC(g_tok), SETOK(*sc)))                              /* invariant of the accumulated set */ \
	X(IMP(ISSC(g_tok), g_next_calls == 1))                       /* token consumed once */ \
	X(IMP(!ISSC(g_tok), g_next_calls == 0 && IMP(sc != 0, (int)*sc == g_old))) \
	X((int)tok.kind == g_tok) \
	CANARY(X, !(g_tok == TSTATIC && g_old == SCTHREADLOCAL))

static int storageclass_contract(enum storageclass *sc)
REQUIRES(PRE)
__CPROVER_assigns(g_next_calls)
__CPROVER_assigns(sc != 0: *sc)
ENSURES(POST);

void
harness(void)
{
	static enum storageclass am_sc;
	IN(int, in_tok); IN(bool, in_null); IN(int, in_old);
	enum storageclass *sc = in_null ? (enum storageclass *)0 : &am_sc;

	tok.kind = in_tok;
	am_sc = in_old;
	g_tok = in_tok; g_old = in_null ? 0 : in_old; g_next_calls = 0;
	g_no_error = (sc != 0 && ISSC(g_tok) && LEGAL(g_old, g_tok));
	CALLR(int, PRE, POST, storageclass(sc));
}
