/* UNIT
{
 "id": "DECL.tagspec.scope",
 "file": "decl.c", "function": "tagspec",
 "properties": {"C16": "contract", "C10": "contract", "C19": "safety"},
 "mode": "harness",
 "replace_calls": {"structdecl": "stub_structdecl"},
 "link_repo": ["type.c"],
 "variants": {"semi": ["-DV_FOLLOW=0"], "brace": ["-DV_FOLLOW=1"], "other": ["-DV_FOLLOW=2"]},
 "canary_variant": "other",
 "unwind": 3,
 "kind": "proof-const-unwind",
 "bound": "`struct s ;`, `struct s { members }`, `struct s x` (also union), with a tag s visible or not in the current scope and in an enclosing scope, of the same or the other kind, complete or not",
 "timeout": 120, "replay": false,
 "assumes": ["next()/consume()/expect() are a token-script stand-in; attr()/gnuattr() see no attribute; structdecl() is replaced by a stub that adds one int member and stops at '}' (DECL.structdecl.*); scopegettag()/scopeputtag() are a two-level scope model: the current scope and one enclosing scope (SCOPE.chain, SCOPE.shadow.realmap prove the real ones give exactly these answers)"]
}
*/
/*
 * C11 6.7.2.3 (tags) and 6.2.1p4/p7 (scope of a tag begins just after its appearance):
 *  p7  `struct-or-union identifier ;` "specifies a structure or union type and declares the identifier as a tag of that type"
 *      IN THE CURRENT SCOPE: a tag of that name in an ENCLOSING scope is hidden, not referred to (footnote 131);
 *  p6/p4  `struct s { ... }` likewise declares/completes the tag of the current scope (a tag of an enclosing scope is untouched);
 *      a second definition in the same scope is a constraint violation (p1);
 *  p8/p9  any other use `struct s x` refers to the visible tag, innermost first, and only if none is visible declares a new
 *      incomplete type in the current scope;
 *  p2  "Where two declarations that use the same tag declare the same type, they shall both use the same choice of struct, union, or enum".
 */
#include "decl.c"
#include "verif.h"

struct token tok;
extern int g_no_error;
const struct target *targ;
static enum tokenkind s_kind[8]; static char *s_lit[8]; static unsigned s_pos;
void next(void) { s_pos++; tok.kind = s_kind[s_pos]; tok.lit = s_lit[s_pos]; }
bool consume(int k) { if (tok.kind != k) return false; next(); return true; }
char *expect(enum tokenkind k, const char *msg) { char *l = tok.lit; if (tok.kind != k) verif_noreturn(); next(); return l; }
bool peek(int k) { return false; }
bool attr(struct attr *a, enum attrkind k) { return false; }
bool gnuattr(struct attr *a, enum attrkind k) { return false; }
void *xmalloc(size_t n) { void *p = malloc(n); __CPROVER_assume(p != 0); return p; }

static struct type *g_inner, *g_outer, *g_put; static int g_nput, g_nget; static bool g_recurse; static struct scope sc_in;
struct type *scopegettag(struct scope *s, const char *name, bool recurse) { g_nget++; g_recurse = recurse; __CPROVER_assert(s == &sc_in, "lookup starts in the current scope"); return g_inner ? g_inner : recurse ? g_outer : (struct type *)0; }
void scopeputtag(struct scope *s, const char *name, struct type *t) { g_nput++; g_put = t; __CPROVER_assert(s == &sc_in, "a new tag is declared in the CURRENT scope"); }
static int g_nstruct;
static struct member m_x;
void stub_structdecl(struct scope *s, struct structbuilder *b) { g_nstruct++; m_x.type = &typeint; m_x.name = "x"; m_x.next = 0; *b->last = &m_x; b->last = &m_x.next; b->type->size = 4; b->type->align = 4; __CPROVER_assert(tok.kind == TIDENT, "member list is read from its first token"); tok.kind = TRBRACE; }

void
harness(void)
{
	static struct type t_in, t_out; static char n_s[] = "s", n_x[] = "x";
	IN(bool, in_union); IN(bool, in_hasin); IN(bool, in_hasout); IN(bool, in_inunion); IN(bool, in_outunion); IN(bool, in_incomplete_in);
	struct type *r, *visible; enum typekind kind; bool valid;

	kind = in_union ? TYPEUNION : TYPESTRUCT;
	t_in.kind = in_inunion ? TYPEUNION : TYPESTRUCT; t_in.incomplete = in_incomplete_in; t_in.size = in_incomplete_in ? 0 : 8; t_in.align = in_incomplete_in ? 0 : 4;
	t_out.kind = in_outunion ? TYPEUNION : TYPESTRUCT; t_out.incomplete = false; t_out.size = 16; t_out.align = 8;
	g_inner = in_hasin ? &t_in : (struct type *)0; g_outer = in_hasout ? &t_out : (struct type *)0;
	g_nput = g_nget = g_nstruct = 0;
	s_kind[0] = in_union ? TUNION : TSTRUCT; s_kind[1] = TIDENT; s_lit[1] = n_s;
#if V_FOLLOW == 0
	s_kind[2] = TSEMICOLON;
#elif V_FOLLOW == 1
	s_kind[2] = TLBRACE; s_kind[3] = TIDENT; s_lit[3] = n_x; s_kind[4] = TSEMICOLON; s_kind[5] = TSEMICOLON;
#else
	s_kind[2] = TIDENT; s_lit[2] = n_x; s_kind[3] = TSEMICOLON;
#endif
	s_pos = 0; tok.kind = s_kind[0]; tok.lit = 0;

	/* which tag does the specifier refer to? */
	visible = V_FOLLOW == 2 ? (in_hasin ? &t_in : in_hasout ? &t_out : (struct type *)0) : (in_hasin ? &t_in : (struct type *)0);
	valid = (!visible || visible->kind == kind) && !(V_FOLLOW == 1 && visible && !visible->incomplete);
	g_no_error = valid;

	r = tagspec(&sc_in);

	__CPROVER_assert(valid, "6.7.2.3p2/p1: the same tag used with another of struct/union, or defined a second time in its scope, is diagnosed");
	__CPROVER_assume(valid);
	__CPROVER_assert(g_nget == 1 && g_recurse == (V_FOLLOW == 2), "6.7.2.3p7: `struct s;` and `struct s {` concern the CURRENT scope only; any other use looks outwards for a visible tag");
	if (visible)
		__CPROVER_assert(r == visible && g_nput == 0, "a visible tag of that name is the type specified (and nothing is declared)");
	else
		__CPROVER_assert(r != &t_in && r != &t_out && g_nput == 1 && g_put == r && r->kind == kind, "otherwise a NEW type of the written kind is declared in the current scope - a tag of an enclosing scope is hidden, not reused");
#if V_FOLLOW == 1
	__CPROVER_assert(g_nstruct == 1 && !r->incomplete && r->u.structunion.members == &m_x, "the definition completes that type with the members read");
	__CPROVER_assert(!in_hasout || (t_out.size == 16 && t_out.align == 8 && !t_out.incomplete), "the enclosing scope's type is untouched");
#else
	__CPROVER_assert(g_nstruct == 0 && (visible ? r->incomplete == visible->incomplete : r->incomplete), "no definition: a new type is incomplete, a visible one is as it was");
	__CPROVER_assert(tok.kind == s_kind[2] && s_pos == 2, "exactly `struct s` is consumed");
#endif
#ifdef VERIF_CANARY
	__CPROVER_assert(!(in_hasout && !in_hasin), "CANARY");
#endif
}
