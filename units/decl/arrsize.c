/* UNIT
{
 "id": "DECL.arrsize",
 "file": "decl.c", "function": "declarator",
 "properties": {"C06": "contract", "C10": "contract", "C19": "safety"},
 "mode": "dfcc", "enforce": "declarator/declarator_contract",
 "replace_calls": {"declaratortypes": "stub_declaratortypes"},
 "kind": "bounded",
 "bound": "declarator with <= 2 array derivations (T a[n] and T a[n][m]); element size, lengths, signedness, constness fully symbolic (64 bit)",
 "variants": {"n1": ["-DV_N=1"], "n2": ["-DV_N=2"]}, "canary_variant": "n2",
 "unwind": 4,
 "timeout": 200,
 "replay": false,
 "expects": ["postcondition", "division-by-zero", "assertion_verif"],
 "assumes": ["declaratortypes() (the recursive-descent parser of the declarator syntax) is replaced by a stub that appends the derived-type list the harness prepared, in source order, exactly as the real one does for array declarators (listinsert(ptr->prev, ..))",
             "eval() is replaced by the identity on already folded length expressions (constant folding is C04's claim)",
             "util.c listinsert re-stated in the unit (util.c cannot be linked: it defines fatal())",
             "no native replay: the replaced callee is static",
             "every array derivation carries a length expression (`T a[]` leaves size 0 / incomplete and has no arithmetic); with a symbolic 'has length' flag the length pointer is an if-then-else and the code's and the contract's 64-bit division no longer share a circuit (no result in 200 s)",
             "the no-wrap guard is stated in the code's own form  len <= ULLONG_MAX / elemsize  (plus size == elemsize * len in 64-bit arithmetic); that this is equivalent to 'the mathematical product fits in 64 bits' is an ASSUMED arithmetic lemma: the independent 128-bit formulation does not get through SAT (standalone lemma > 120 s, unit > 200 s in propositional reduction)"]
}
*/
/*
 * C06/C19: the array branch of decl.c:declarator(): for `T a[n]` with a constant n the size is the mathematical
 *   product sizeof(T) * n (no 64-bit wrap-around: the `ULLONG_MAX / size` guard), alignment that of T.
 * C10: C11 6.7.6.2p1: element type incomplete or function type => diagnosed; constant length negative => diagnosed;
 *   product not representable => diagnosed ("array length is too large").
 *   A declarator to which none of these applies is not diagnosed (g_no_error is set from the same conditions).
 * The derived types are processed innermost first: for T a[n][m] the inner array (m) has element T and becomes the
 * element of the outer one (n).
 */
#include "decl.c"
#include "verif.h"

#define NA 2
extern int g_no_error;
static struct type am_base, am_arr[NA], am_lt[NA];
static struct expr am_len[NA];
static char am_name[2] = "a";
unsigned g_n;                /* number of array derivations: 1 or 2 */
u64 g_bsize;                 /* element size of the innermost array */
int g_balign;
u64 g_len[NA];               /* length values (source order: g_len[0] outermost) */
bool g_const[NA], g_signed[NA], g_haslen[NA];
bool g_binc; int g_bkind;

void
listinsert(struct list *list, struct list *new)
{
	new->next = list->next;
	new->prev = list;
	list->next->prev = new;
	list->next = new;
}

struct expr *
eval(struct expr *e)
{
	return e;
}

void
stub_declaratortypes(struct scope *s, struct list *result, char **name, struct scope **funcscope, bool allowabstract)
{
	unsigned k;

	(void)s; (void)funcscope; (void)allowabstract;
	for (k = 0; k < NA; ++k) {
		if (k < g_n)
			listinsert(result->prev, &am_arr[k].link);
	}
	if (name)
		*name = &am_name[0];
}

/* element size seen by derivation k (innermost = g_n - 1): the base type's, or the size computed for k + 1 */
#define INNER      (V_N - 1)
#define CONSTLEN(k) (g_haslen[k] && g_const[k])
#define PRE(X) \
	X(g_n == V_N) \
	X(base.type == &am_base && base.type->size == g_bsize && base.type->align == g_balign && base.type->incomplete == g_binc && (int)base.type->kind == g_bkind) \
	X(name != 0 && funcscope == 0) \
	X(am_arr[0].kind == TYPEARRAY && am_arr[1].kind == TYPEARRAY) \
	X(g_no_error == VALID)

/* "elemsize * len is representable": floor((2^64 - 1) / elemsize) >= len.  (The independent formulation
   (unsigned __int128)a * b <= ULLONG_MAX is equivalent but SAT cannot show division and multiplication agree.) */
#define PROD_OK(a, b)   ((b) <= ULLONG_MAX / (a))
#define PROD(a, b)      ((a) * (b))
#define SZ(k)           (am_arr[k].size)
/* a declarator none of the three diagnostics applies to: it must NOT be rejected (g_no_error) */
/* 6.7.6.2p1: a constant length shall be greater than zero (the first version of this unit only asked for non-negative; `int a[0]` was
   then found by DECL.declaratortypes.arrzero, repaired in /repo, and this predicate follows the standard's text) */
#define LEN_OK(k, esz)  (!g_const[k] || (esz) == 0 || (am_len[k].u.constant.u != 0 && !(g_signed[k] && (am_len[k].u.constant.u >> 63)) && am_len[k].u.constant.u <= ULLONG_MAX / (esz)))
/* only for the one-derivation shape: for a[n][m] the outer guard divides by the size computed for the inner array, and
   restating that product in the precondition gives a second, syntactically different divider (no result in 200 s) */
#define VALID           (V_N == 1 && !g_binc && g_bkind != TYPEFUNC && LEN_OK(INNER, am_base.size))

#define POST(X) \
	/* 6.7.6.2p1 element type */ \
	X(!g_binc && g_bkind != TYPEFUNC) \
	/* innermost derivation: element is the base type */ \
	X(IMP(CONSTLEN(INNER) && g_bsize != 0, !(g_signed[INNER] && (g_len[INNER] >> 63)) && g_len[INNER] != 0))         /* 6.7.6.2p1: greater than zero */ \
	X(IMP(CONSTLEN(INNER) && g_bsize != 0, PROD_OK(am_base.size, am_len[INNER].u.constant.u)))                     /* too large */ \
	X(IMP(CONSTLEN(INNER) && g_bsize != 0, SZ(INNER) == PROD(am_base.size, am_len[INNER].u.constant.u))) \
	X(IMP(CONSTLEN(INNER) && g_bsize != 0, !(am_arr[INNER].prop & PROPVM) || (am_base.prop & PROPVM))) \
	X(IMP(g_haslen[INNER] && !g_const[INNER], (am_arr[INNER].prop & PROPVM) && SZ(INNER) == 0))  /* VLA */ \
	X(IMP(!g_haslen[INNER], SZ(INNER) == 0)) \
	X(am_arr[INNER].align == g_balign && am_arr[INNER].base == &am_base) \
	/* outer derivation of a[n][m]: its element is the inner array */ \
	X(IMP(g_n == 2, am_arr[0].base == &am_arr[1] && am_arr[0].align == g_balign)) \
	X(IMP(g_n == 2, !am_arr[1].incomplete)) \
	X(IMP(g_n == 2 && CONSTLEN(0) && SZ(1) != 0, !(g_signed[0] && (g_len[0] >> 63)) && g_len[0] != 0)) \
	X(IMP(g_n == 2 && CONSTLEN(0) && SZ(1) != 0, PROD_OK(SZ(1), am_len[0].u.constant.u) && SZ(0) == PROD(SZ(1), am_len[0].u.constant.u))) \
	X(IMP(g_n == 2 && (am_arr[1].prop & PROPVM), (am_arr[0].prop & PROPVM) != 0))                 /* VM propagates outwards */ \
	/* inputs unchanged */ \
	X(am_base.size == g_bsize && am_len[0].u.constant.u == g_len[0] && am_len[1].u.constant.u == g_len[1]) \
	/* result: the outermost derived type, the declared name */ \
	X(RET.type == &am_arr[0] && *name == &am_name[0]) \
	CANARY(X, !(g_n == 2 && g_bsize == 4 && g_len[1] == 3 && g_len[0] == 5 && CONSTLEN(0) && CONSTLEN(1)))

static struct qualtype declarator_contract(struct scope *s, struct qualtype base, char **name, struct scope **funcscope, bool allowabstract)
REQUIRES(PRE)
__CPROVER_assigns(*name, __CPROVER_object_whole(am_arr), __CPROVER_object_whole(am_len))
ENSURES(POST);

void
harness(void)
{
	static char *am_namep;
	IN(u64, in_bsize); IN(int, in_balign); IN(bool, in_binc); IN(int, in_bkind); IN(int, in_bprop); IN(int, in_bqual);
	IN(u64, in_len0); IN(u64, in_len1); IN(bool, in_const0); IN(bool, in_const1); IN(bool, in_signed0); IN(bool, in_signed1);
	struct scope *s = 0;
	struct qualtype base;
	char **name = &am_namep;
	struct scope **funcscope = 0;
	bool allowabstract = 0;
	u64 len[NA] = {in_len0, in_len1};
	bool cst[NA] = {in_const0, in_const1}, sg[NA] = {in_signed0, in_signed1}, has[NA] = {1, 1};
	unsigned k;

	g_n = V_N;   /* one CBMC run per list shape: a symbolic list length did not finish in 200 s */
	am_base.kind = in_bkind; am_base.size = in_bsize; am_base.align = in_balign; am_base.incomplete = in_binc; am_base.prop = in_bprop;
	base.type = &am_base; base.qual = in_bqual; base.expr = 0;
	g_bsize = in_bsize; g_balign = in_balign; g_binc = in_binc; g_bkind = in_bkind;
	for (k = 0; k < NA; ++k) {
		/* as mkarraytype(NULL, QUALNONE, 0) + the '[' branch of declaratortypes leave the node */
		am_arr[k].kind = TYPEARRAY; am_arr[k].prop = 0; am_arr[k].qual = QUALNONE; am_arr[k].base = 0;
		am_arr[k].incomplete = !has[k]; am_arr[k].flexible = 0; am_arr[k].size = 0; am_arr[k].align = 0;
		am_arr[k].u.array.length = has[k] ? &am_len[k] : (struct expr *)0;
		am_arr[k].u.array.ptrqual = QUALNONE; am_arr[k].u.array.size = 0;
		am_len[k].kind = cst[k] ? EXPRCONST : EXPRIDENT;
		am_len[k].type = &am_lt[k];
		am_len[k].u.constant.u = len[k];
		am_lt[k].kind = TYPELONG; am_lt[k].prop = PROPSCALAR | PROPARITH | PROPREAL | PROPINT; am_lt[k].size = 8; am_lt[k].align = 8;
		am_lt[k].u.basic.issigned = sg[k];
		g_len[k] = len[k]; g_const[k] = cst[k]; g_signed[k] = sg[k]; g_haslen[k] = has[k];
	}
	g_no_error = VALID;
	CALLR(struct qualtype, PRE, POST, declarator(s, base, name, funcscope, allowabstract));
}
