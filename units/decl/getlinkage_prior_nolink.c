/* UNIT
{
 "id": "DECL.getlinkage.prior-nolink",
 "file": "decl.c", "function": "getlinkage",
 "properties": {"C09": "contract"},
 "mode": "dfcc", "enforce": "getlinkage/getlinkage_contract",
 "kind": "proof",
 "timeout": 100,
 "expects": ["postcondition"],
 "assumes": ["FAILS on the pinned tree (genuine defect, see report): `int x = 5; int f(void){ int x = 1; { extern int x; return x; } }` crashes cproc-qbe (SIGSEGV); `int g(void); int f(void){ int g = 1; { int g(void); return g(); } }` calls the undefined local symbol $.Lg.2"]
}
*/
/*
 * C09, C11 6.2.2p4 last sentence: "If no prior declaration is visible, or if the prior declaration specifies no
 * linkage, then the identifier has external linkage" -- the visible prior declaration is a block scope object, a
 * parameter, a typedef or an enumeration constant (declcommon's second call: prior comes from the enclosing scopes).
 */
#include "getlinkage_common.h"

#define PRE(X) \
	PRE_GL(X) \
	X(prior != 0 && prior->linkage == LINKNONE)

#define POST(X) \
	X(IMP(EXTERNLIKE && !(filescope && (sc & SCSTATIC)), RET == LINKEXTERN)) \
	X(L2S(RET) == spec_linkage(kind == DECLFUNC, kind == DECLOBJECT, (sc & SCSTATIC) != 0, (sc & SCEXTERN) != 0, g_priorlink, filescope)) \
	CANARY(X, !(kind == DECLOBJECT && sc == SCSTATIC && !filescope))

static enum linkage getlinkage_contract(enum declkind kind, enum storageclass sc, struct decl *prior, bool filescope)
REQUIRES(PRE)
__CPROVER_assigns()
ENSURES(POST);

void
harness(void)
{
	IN(int, in_kind); IN(int, in_sc); IN(bool, in_hasprior); IN(int, in_priorlink); IN(int, in_priorkind); IN(bool, in_filescope);
	GL_BUILD;

	CALLR(enum linkage, PRE, POST, getlinkage(kind, sc, prior, filescope));
}
