/*
 * Shared by DECL.getlinkage and DECL.getlinkage.prior-nolink: PRE, the 6.2.2 clauses, the harness builder.
 *
 * getlinkage(kind, sc, prior, filescope) is called twice by declcommon (which decl() calls for objects and
 * functions only): (1) with the prior declaration of the SAME scope, after "prior->linkage == LINKNONE => error";
 * (2) with the declaration visible from the enclosing scopes (any kind, any linkage) or NULL.
 * decl() has already rejected: auto/register at file scope (6.9p2), a block scope function with a storage class other
 * than extern (6.7.1p7), a lone _Thread_local at block scope (6.7.1p3); typedef never gets here.
 */
#include "decl.c"
#include "verif.h"
#include "linkage.h"

struct decl *g_prior;
int g_priorlink;        /* SPEC_NO_PRIOR or prior->linkage */
extern int g_no_error;

#define SC_ONEOF(sc) ((sc) == SCNONE || (sc) == SCEXTERN || (sc) == SCSTATIC || (sc) == SCAUTO || (sc) == SCREGISTER || \
                      (sc) == SCTHREADLOCAL || (sc) == (SCTHREADLOCAL | SCSTATIC) || (sc) == (SCTHREADLOCAL | SCEXTERN))
#define PRE_GL(X) \
	X(kind == DECLOBJECT || kind == DECLFUNC) \
	X(SC_ONEOF(sc)) \
	X(IMP(filescope, !(sc & (SCAUTO | SCREGISTER)))) \
	X(IMP(!filescope && kind == DECLFUNC, sc == SCNONE || sc == SCEXTERN)) \
	X(IMP(!filescope, sc != SCTHREADLOCAL)) \
	X(prior == g_prior) \
	X(IMP(prior != 0, prior->linkage == LINKNONE || prior->linkage == LINKINTERN || prior->linkage == LINKEXTERN)) \
	X(g_priorlink == (prior ? (int)prior->linkage : SPEC_NO_PRIOR))

/* the code's enum linkage and the oracle's enum agree by construction of this mapping */
#define L2S(l) ((l) == LINKINTERN ? SPEC_LINK_INTERN : (l) == LINKEXTERN ? SPEC_LINK_EXTERN : SPEC_LINK_NONE)
#define EXTERNLIKE ((sc & SCEXTERN) || (kind == DECLFUNC && !(sc & SCSTATIC)))

#define GL_BUILD \
	static struct decl am_prior; \
	enum declkind kind = in_kind; \
	enum storageclass sc = in_sc; \
	struct decl *prior = in_hasprior ? &am_prior : 0; \
	bool filescope = in_filescope; \
	am_prior.linkage = in_priorlink; am_prior.kind = in_priorkind; \
	g_prior = prior; g_priorlink = prior ? (int)in_priorlink : SPEC_NO_PRIOR; g_no_error = 0
