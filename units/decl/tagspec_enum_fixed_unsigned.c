/* UNIT
{
 "id": "DECL.tagspec.enum.fixed-unsigned",
 "file": "decl.c", "function": "tagspec",
 "properties": {"C06": "contract"},
 "mode": "dfcc", "enforce": "tagspec/tagspec_contract",
 "replace_calls": {"structdecl": "stub_structdecl", "declspecs": "stub_declspecs"},
 "link_repo": ["type.c"],
 "kind": "bounded",
 "bound": "enumerator lists of <= 3 enumerators; every value (64 bit), type and '= e' pattern symbolic; with or without a fixed underlying type",
 "unwind": 5,
 "replay": false,
 "timeout": 300,
 "expects": ["postcondition", "assertion_verif"],
 "assumes": ["parser callees replaced by stubs over a scripted token stream (tagspec_enum_common.h); type.c is the real code",
             "FAILS on the pinned tree (genuine defect): `enum E : unsigned { A, B };` is rejected ('no unsigned integer type can represent enumerator value'): the wrap-around test `value == 0 && !et->u.basic.issigned` also fires for the first enumerator",
             "acceptance (g_no_error) is only claimed for lists whose implicit increments stay below 2^62 (the exact C23 rule for running out of types is not modelled)",
             "no native replay: replaced callees are static"]
}
*/
/*
 * (this unit: exactly the lists excluded from DECL.tagspec.enum -- fixed unsigned underlying type, first enumerator without
 *  '= e' -- C23 6.7.2.2p5; a valid list must be accepted: obligation verif_noreturn.assertion.1)
 * C06 "the underlying type chosen for every enum": spec/abi.h abi_enum_* (GCC/Clang/psABI practice, C23 6.7.2.2p12-13):
 *   no fixed type: unsigned int if no enumerator is negative and all fit, int if all fit, else the 8-byte type of the
 *   same signedness rule; size = align; "no type fits" (negative values together with values > LLONG_MAX) diagnosed.
 *   fixed type (C23 6.7.2.2p5): exactly that type; an enumerator it cannot represent is diagnosed.
 * The enumeration constants carry the values C11 6.7.2.2p3 gives them (explicit, or previous + 1, first 0), in order.
 */
#include "tagspec_enum_common.h"

#define DEFECT8   (g_fixed != 0 && !g_fixed->u.basic.issigned && !g_has[0])
#define ALLFIT(size, sg) ((!INL(0) || FITS1(0, size, sg)) && (!INL(1) || FITS1(1, size, sg)) && (!INL(2) || FITS1(2, size, sg)))
#define VALID     (SMALLSTEP(1) && SMALLSTEP(2) && DEFECT8 && \
                   (g_fixed ? ALLFIT((unsigned)g_fixed->size, g_fixed->u.basic.issigned) : abi_enum_fits(MINV, ANYNEG, MAXV, 8, ANYNEG)))

#define PRE(X) \
	PRE_ENUM(X) \
	X(g_no_error == 1 && VALID)

#define ESZ  abi_enum_size(MINV, ANYNEG, MAXV)
#define POST(X) \
	X(RET != 0 && RET->kind == TYPEENUM && !RET->incomplete && (RET->prop & PROPINT)) \
	/* the constants, in order, with their values */ \
	X(g_ndecl == g_n) \
	X(g_decl[0]->kind == DECLCONST && g_decl[0]->u.enumconst == VAL0) \
	X(IMP(INL(1), g_decl[1]->kind == DECLCONST && g_decl[1]->u.enumconst == VAL1)) \
	X(IMP(INL(2), g_decl[2]->kind == DECLCONST && g_decl[2]->u.enumconst == VAL2)) \
	/* fixed underlying type */ \
	X(IMP(g_fixed != 0, RET->base == g_fixed && RET->size == g_fixed->size && RET->align == g_fixed->align && RET->u.basic.issigned == g_fixed->u.basic.issigned)) \
	X(IMP(g_fixed != 0, ALLFIT((unsigned)g_fixed->size, g_fixed->u.basic.issigned)))          /* not representable => diagnosed */ \
	/* chosen underlying type */ \
	X(IMP(g_fixed == 0, abi_enum_fits(MINV, ANYNEG, MAXV, 8, ANYNEG)))                        /* no type fits => diagnosed */ \
	X(IMP(g_fixed == 0, RET->size == ESZ && RET->align == (int)ESZ)) \
	X(IMP(g_fixed == 0, RET->u.basic.issigned == abi_enum_signed(MINV, ANYNEG, MAXV))) \
	X(IMP(g_fixed == 0, RET->base != 0 && RET->base->size == RET->size && RET->base->u.basic.issigned == RET->u.basic.issigned)) \
	X(IMP(g_fixed == 0, RET->base == &typeint || RET->base == &typeuint || RET->base == &typelong || RET->base == &typeulong)) \
	X(!g_script_overrun) \
	CANARY(X, !(g_n == 2 && g_fixed == &typeuint && !g_has[1]))

static struct type *tagspec_contract(struct scope *s)
REQUIRES(PRE)
__CPROVER_assigns(tok, g_pos, g_script_overrun, g_structdecl_n, g_puttag_n, g_puttag_t, g_t, g_seenpack, am_member, g_expr_k, g_ndecl, __CPROVER_object_whole(g_decl))
ENSURES(POST);

void
harness(void)
{
	IN(unsigned, in_n); IN(bool, in_fixed); IN(unsigned, in_fx); IN(bool, in_trailing);
	IN(bool, in_has0); IN(bool, in_has1); IN(bool, in_has2); IN(u64, in_v0); IN(u64, in_v1); IN(u64, in_v2);
	IN(unsigned, in_ty0); IN(unsigned, in_ty1); IN(unsigned, in_ty2);
	ENUM_BUILD;

	g_no_error = 1;
	CALLR(struct type *, PRE, POST, tagspec(s));
}
