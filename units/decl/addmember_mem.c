/* UNIT
{
 "id": "DECL.addmember.mem",
 "file": "decl.c", "function": "addmember",
 "properties": {"C06": "contract", "C19": "safety"},
 "mode": "dfcc", "enforce": "addmember/addmember_contract",
 "kind": "proof",
 "timeout": 200,
 "expects": ["postcondition", "assigns"],
 "assumes": ["struct size so far and member size <= 2^40 bytes, alignments <= 2^28 (layout arithmetic does not wrap)",
             "a complete object type has a power-of-two alignment > 0 (set by type.c / tagspec)"]
}
*/
/*
 * C06, plain (non-bit-field) members of structs and unions, named or anonymous: width == -1.
 * Oracle: spec/abi.h rules A1, A2, A4, P1 (abi_member_align, abi_lowest_aligned).
 */
#include "addmember_common.h"

#define PRE(X) \
	VALID_BUILDER(X) \
	X(width == NOBF) \
	X(mt.type->size <= (1ull << 40) && g_msize == mt.type->size && g_S == g_msize && g_malign == mt.type->align) \
	/* types that get past the member-type constraints have a power-of-two alignment */ \
	X(IMP(mt.type->kind != TYPEFUNC && !(mt.type->prop & PROPVM) && (!mt.type->incomplete || mt.type->kind == TYPEARRAY), \
	      ISPOW2(mt.type->align) && mt.type->align <= (1 << 28))) \
	/* g_k = log2 of the alignment the ABI places this member with */ \
	X(g_k <= 28 && IMP(ISPOW2(g_malign), (1ull << g_k) == abi_member_align(g_malign, g_pack, align)))

#define ISSTRUCT (T->kind == TYPESTRUCT)
#define POST(X) \
	/* a member is always created (named, or anonymous struct/union) and appended at the tail */ \
	X(M != 0 && M->type == mt.type && M->qual == mt.qual && M->name == name && M->next == 0 && b->last == &M->next) \
	X(M->bits.before == 0 && M->bits.after == 0) \
	/* (A2) struct: lowest offset >= bytes used so far with the member's alignment (P1: 1 when packed; stricter _Alignas) */ \
	X(IMP(ISSTRUCT, abi_lowest_aligned(M->offset, g_size0, g_k))) \
	X(IMP(ISSTRUCT, T->size == M->offset + g_msize)) \
	/* (A4) union: offset 0, size = max */ \
	X(IMP(!ISSTRUCT, M->offset == 0)) \
	X(IMP(!ISSTRUCT, T->size == abi_max(g_size0, g_msize))) \
	/* a following bit-field starts a fresh byte */ \
	X(b->bits == 0) \
	/* (A1) alignment = max over members */ \
	X(T->align == MAXI(g_align0, (int)(1u << g_k))) \
	FRAME(X) \
	CANARY(X, !(ISSTRUCT && g_size0 == 5 && g_k == 2 && g_msize == 4 && g_pack == 0))

static void addmember_contract(struct structbuilder *b, struct qualtype mt, char *name, int align, unsigned long long width)
REQUIRES(PRE)
__CPROVER_assigns(*b->last, b->last, b->bits, b->type->size, b->type->align, b->type->flexible)
ENSURES(POST);

void
harness(void)
{
	IN(int, in_tkind); IN(u64, in_size0); IN(unsigned, in_bits0); IN(int, in_align0); IN(bool, in_flex0); IN(bool, in_pack);
	IN(int, in_mkind); IN(int, in_mprop); IN(u64, in_msize); IN(int, in_malign); IN(bool, in_minc); IN(bool, in_mflex);
	IN(int, in_qual); IN(bool, in_named); IN(int, in_align); IN(u64, in_width);
	ING(unsigned, g_k);
	AM_BUILD;

	CALL(PRE, POST, addmember(b, mt, name, align, width));
}
