/* UNIT
{
 "id": "DECL.getlinkage",
 "file": "decl.c", "function": "getlinkage",
 "properties": {"C09": "contract", "C19": "safety"},
 "mode": "dfcc", "enforce": "getlinkage/getlinkage_contract",
 "kind": "proof",
 "timeout": 100,
 "expects": ["postcondition"],
 "assumes": ["domain: no prior declaration visible, or the visible prior declaration has internal or external linkage; the remaining case of 6.2.2p4 (prior declaration with NO linkage) is DECL.getlinkage.prior-nolink, which fails on the pinned tree (finding)"]
}
*/
/*
 * C09: linkage per C11 6.2.2p3-p6 (oracle spec/linkage.h), one clause per paragraph plus the whole table.
 */
#include "getlinkage_common.h"

#define PRE(X) \
	PRE_GL(X) \
	X(IMP(prior != 0, prior->linkage != LINKNONE))

#define POST(X) \
	/* p3 */ \
	X(IMP(filescope && (sc & SCSTATIC), RET == LINKINTERN)) \
	/* p4: extern (p5: or a function without static) inherits a visible prior linkage ... */ \
	X(IMP(EXTERNLIKE && !(filescope && (sc & SCSTATIC)) && g_priorlink != SPEC_NO_PRIOR, RET == g_prior->linkage)) \
	/* ... and is external when nothing is visible */ \
	X(IMP(EXTERNLIKE && !(filescope && (sc & SCSTATIC)) && g_priorlink == SPEC_NO_PRIOR, RET == LINKEXTERN)) \
	/* p5, second sentence */ \
	X(IMP(filescope && kind == DECLOBJECT && !(sc & (SCSTATIC | SCEXTERN)), RET == LINKEXTERN)) \
	/* p6: block scope object without extern (static, auto, register or none) */ \
	X(IMP(!filescope && kind == DECLOBJECT && !(sc & SCEXTERN), RET == LINKNONE)) \
	/* the whole table */ \
	X(L2S(RET) == spec_linkage(kind == DECLFUNC, kind == DECLOBJECT, (sc & SCSTATIC) != 0, (sc & SCEXTERN) != 0, g_priorlink, filescope)) \
	/* the prior declaration is not modified */ \
	X(IMP(g_prior != 0, (int)g_prior->linkage == g_priorlink)) \
	CANARY(X, !(kind == DECLFUNC && sc == SCNONE && g_priorlink == SPEC_LINK_INTERN && !filescope))

static enum linkage getlinkage_contract(enum declkind kind, enum storageclass sc, struct decl *prior, bool filescope)
REQUIRES(PRE)
__CPROVER_assigns()
ENSURES(POST);

void
harness(void)
{
	IN(int, in_kind); IN(int, in_sc); IN(bool, in_hasprior); IN(int, in_priorlink); IN(int, in_priorkind); IN(bool, in_filescope);
	GL_BUILD;

	CALLR(enum linkage, PRE, POST, getlinkage(kind, sc, prior, filescope));
}
