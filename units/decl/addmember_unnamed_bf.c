/* UNIT
{
 "id": "DECL.addmember.unnamed-bf",
 "file": "decl.c", "function": "addmember",
 "properties": {"C06": "contract"},
 "mode": "dfcc", "enforce": "addmember/addmember_contract",
 "kind": "proof",
 "variants": {"x86_64": ["-DV_TARGET=ABI_X86_64_SYSV", "-DV_TNAME=\"x86_64-sysv\""],
              "aarch64": ["-DV_TARGET=ABI_AARCH64", "-DV_TNAME=\"aarch64\""],
              "riscv64": ["-DV_TARGET=ABI_RISCV64", "-DV_TNAME=\"riscv64\""]},
 "canary_variant": "x86_64",
 "timeout": 200,
 "expects": ["postcondition"],
 "assumes": ["FAILS on the pinned tree (genuine defects, see report): (1) all targets: an unnamed bit-field does not enlarge a union (`union { int :17; char c; }` has size 1, gcc/clang 3); (2) aarch64: AAPCS64 lets unnamed/zero-width bit-fields contribute their container's alignment (`struct { char c; int :0; char d; }`: cproc align 1 size 5, clang --target=aarch64 align 4 size 8); addmember never consults the target"]
}
*/
/*
 * C06 ("... those of the target's C ABI ... all three targets"), unnamed bit-fields (`T : W;`), struct or union.
 * Oracle: spec/abi.h A4 (a union is at least as large as each of its members, padding bit-fields included) and
 * B4 with its per-target split (abi_unnamed_bf_affects_align).
 */
#include "addmember_common.h"

enum abi_target g_target;
static struct target am_targ;

#define PRE(X) \
	VALID_BUILDER(X) \
	X(width != NOBF && g_W == width && name == 0) \
	X(INTTYPE(mt.type) && g_S == mt.type->size && g_malign == mt.type->align) \
	X(targ != 0 && g_target == V_TARGET)

#define ISSTRUCT (T->kind == TYPESTRUCT)
#define POST(X) \
	X(IMP(!ISSTRUCT, 8 * T->size >= g_W)) \
	X(T->align == (abi_unnamed_bf_affects_align(g_target) ? MAXI(g_align0, (int)g_S) : g_align0)) \
	CANARY(X, !(ISSTRUCT && g_W == 3 && g_S == 4 && g_P == 8))

static void addmember_contract(struct structbuilder *b, struct qualtype mt, char *name, int align, unsigned long long width)
REQUIRES(PRE)
__CPROVER_assigns(*b->last, b->last, b->bits, b->type->size, b->type->align, b->type->flexible)
ENSURES(POST);

void
harness(void)
{
	IN(int, in_tkind); IN(u64, in_size0); IN(unsigned, in_bits0); IN(int, in_align0); IN(bool, in_flex0); IN(bool, in_pack);
	IN(int, in_mkind); IN(int, in_mprop); IN(u64, in_msize); IN(int, in_malign); IN(bool, in_minc); IN(bool, in_mflex);
	IN(int, in_qual); IN(bool, in_named); IN(int, in_align); IN(u64, in_width);
	AM_BUILD;

	am_targ.name = V_TNAME;
	targ = &am_targ;
	g_target = V_TARGET;
	CALL(PRE, POST, addmember(b, mt, name, align, width));
}
