/* UNIT
{
 "id": "DECL.tentative.flush",
 "file": "decl.c", "function": "emittentativedefns", "also_functions": ["defineobj"],
 "properties": {"C09": "contract", "C19": "safety"},
 "mode": "dfcc", "enforce": "emittentativedefns/emittentativedefns_contract",
 "kind": "bounded",
 "bound": "tentative-definition list of <= 3 entries (quick) / <= 6 (thorough); every flag of every entry symbolic",
 "cflags": ["-DNMAX=3"], "unwind": 5,
 "tiers": {"thorough": {"cflags": ["-DNMAX=6"], "unwind": 8, "timeout": 600, "bound": "list <= 6 entries"}},
 "timeout": 200,
 "expects": ["postcondition", "unwind"],
 "assumes": ["qbe.c emitdata replaced by a recording stub (per-entry emission counter); defineobj runs for real",
             "list entries are what decl() appends: objects with linkage and static storage duration (SDSTATIC)",
             "the list is NULL-terminated and acyclic (built by the harness from an array)"]
}
*/
/*
 * C09 / C11 6.9.2p2: "If a translation unit contains one or more tentative definitions for an identifier, and the
 * translation unit contains no external definition for that identifier, then the behavior is exactly as if the
 * translation unit contains a file scope declaration of that identifier [...] with an initializer equal to 0."
 *   For an arbitrary entry g_i of the list: if it was defined by an external definition meanwhile, nothing is emitted
 *   for it; otherwise exactly one datum is emitted for it, with no initialiser (= zero), and it is marked defined.
 *   The total number of emissions is the number of undefined entries.
 * The list is unbounded in cproc; a heap-shape invariant over a linked list is not expressible in CBMC contracts
 * without quantifiers, hence a BOUNDED unit; the per-entry step (defineobj) is proved unboundedly in DECL.defineobj.
 */
#include "decl.c"
#include "verif.h"

#ifndef NMAX
#define NMAX 3
#endif

extern int g_no_error;
static struct decl am_n[NMAX];
static struct type am_t[NMAX];
unsigned g_n;                    /* list length */
unsigned g_i;                    /* an arbitrary entry: "for all entries" without a quantifier */
bool g_def0[NMAX];               /* defined flags before the call */
unsigned g_cnt[NMAX];            /* emissions per entry */
bool g_init_nonnull[NMAX];       /* an emission carried an initialiser */
unsigned g_total, g_foreign;
bool g_finit_called;

void
emitdata(struct decl *d, struct init *init)
{
	unsigned k;
	bool hit = 0;

	++g_total;
	for (k = 0; k < NMAX; ++k) {
		if (d == &am_n[k]) {
			++g_cnt[k];
			if (init)
				g_init_nonnull[k] = 1;
			hit = 1;
		}
	}
	if (!hit)
		++g_foreign;
}

void
funcinit(struct func *f, struct decl *d, struct init *init, bool hasinit)
{
	(void)f; (void)d; (void)init; (void)hasinit;
	g_finit_called = 1;
}

static unsigned
count_undefined(void)
{
	unsigned k, c = 0;

	for (k = 0; k < NMAX; ++k)
		c += k < g_n && !g_def0[k];
	return c;
}

#define PRE(X) \
	X(g_n <= NMAX && g_i < NMAX) \
	X(tentativedefns == (g_n ? &am_n[0] : (struct decl *)0)) \
	X(g_total == 0 && g_foreign == 0 && !g_finit_called)

#define INLIST (g_i < g_n)
#define POST(X) \
	X(IMP(INLIST && g_def0[g_i], g_cnt[g_i] == 0))                         /* already defined: skipped */ \
	X(IMP(INLIST && !g_def0[g_i], g_cnt[g_i] == 1))                        /* tentative only: exactly one definition */ \
	X(IMP(INLIST && !g_def0[g_i], !g_init_nonnull[g_i]))                   /* ... zero-initialised (no initialiser) */ \
	X(IMP(INLIST, am_n[g_i].defined))                                      /* afterwards every entry is defined */ \
	X(IMP(INLIST && !g_def0[g_i], !am_t[g_i].incomplete))                  /* 6.9.2p3: still incomplete => diagnosed */ \
	X(IMP(!INLIST, g_cnt[g_i] == 0))                                       /* nothing outside the list */ \
	X(g_total == count_undefined() && g_foreign == 0 && !g_finit_called) \
	CANARY(X, !(g_n == 3 && g_i == 1 && !g_def0[1] && g_def0[0]))

void emittentativedefns_contract(void)
REQUIRES(PRE)
__CPROVER_assigns(__CPROVER_object_whole(am_n), __CPROVER_object_whole(g_cnt), __CPROVER_object_whole(g_init_nonnull), g_total, g_foreign, g_finit_called)
ENSURES(POST);

void
harness(void)
{
	IN(unsigned, in_n); ING(unsigned, g_i);
	IN(bool, in_def0); IN(bool, in_def1); IN(bool, in_def2); IN(bool, in_def3); IN(bool, in_def4); IN(bool, in_def5);
	IN(bool, in_inc0); IN(bool, in_inc1); IN(bool, in_inc2); IN(bool, in_inc3); IN(bool, in_inc4); IN(bool, in_inc5);
	IN(int, in_align); IN(int, in_talign);
	bool def[6] = {in_def0, in_def1, in_def2, in_def3, in_def4, in_def5};
	bool inc[6] = {in_inc0, in_inc1, in_inc2, in_inc3, in_inc4, in_inc5};
	unsigned k;

	__CPROVER_assume(in_n <= NMAX);
	g_n = in_n;
	for (k = 0; k < NMAX; ++k) {
		am_n[k].kind = DECLOBJECT;
		am_n[k].type = &am_t[k];
		am_n[k].linkage = LINKEXTERN;
		am_n[k].tentative = 1;
		am_n[k].defined = def[k];
		am_n[k].u.obj.storage = SDSTATIC;
		am_n[k].u.obj.align = in_align;
		am_n[k].next = k + 1 < in_n ? &am_n[k + 1] : (struct decl *)0;
		am_t[k].align = in_talign;
		am_t[k].incomplete = inc[k];
		g_def0[k] = def[k];
		g_cnt[k] = 0;
		g_init_nonnull[k] = 0;
	}
	tentativedefns = in_n ? &am_n[0] : (struct decl *)0;
	g_total = 0; g_foreign = 0; g_finit_called = 0; g_no_error = 0;
	CALL(PRE, POST, emittentativedefns());
}
