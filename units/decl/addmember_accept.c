/* UNIT
{
 "id": "DECL.addmember.accept",
 "file": "decl.c", "function": "addmember",
 "properties": {"C10": "contract", "C19": "safety"},
 "mode": "dfcc", "enforce": "addmember/addmember_contract",
 "kind": "proof",
 "timeout": 200,
 "expects": ["postcondition", "assertion_verif"],
 "assumes": ["struct size so far and member size <= 2^40 bytes, alignments <= 2^28",
             "g_no_error = 1: reaching error() is a failed obligation (stubs/base.c)"]
}
*/
/*
 * The dual of DECL.addmember.flex: a member declaration that violates none of the constraints addmember is
 * responsible for (C11 6.7.2.1p3-5,p9, 6.7.5p3-4; no bit-field in a packed struct) is NOT diagnosed -- the
 * function returns normally (obligation verif_noreturn.assertion.1 with g_no_error set) and the struct only grows.
 */
#include "addmember_common.h"

#define ISSTRUCT (T->kind == TYPESTRUCT)
#define BF       (width != NOBF)
#define FAM      (mt.type->incomplete && mt.type->kind == TYPEARRAY)

#define PRE(X) \
	VALID_BUILDER(X) \
	X(mt.type->size <= (1ull << 40) && g_msize == mt.type->size && g_S == g_msize && g_malign == mt.type->align && g_W == width) \
	X(IMP(mt.type->prop & PROPINT, INTTYPE(mt.type))) \
	/* a valid member declaration */ \
	X(!(ISSTRUCT && T->flexible)) \
	X(!mt.type->incomplete || FAM) \
	X(mt.type->kind != TYPEFUNC && !(mt.type->prop & PROPVM)) \
	X(ISPOW2(mt.type->align) && mt.type->align <= (1 << 28)) \
	X(!(ISSTRUCT && mt.type->flexible)) \
	X(IMP(FAM, ISSTRUCT && b->last != &T->u.structunion.members)) \
	X(IMP(BF, (mt.type->prop & PROPINT) && width <= 8 * mt.type->size && IMP(width == 0, name == 0) && align == 0 && !b->pack)) \
	X(IMP(!BF, align == 0 || align >= mt.type->align)) \
	X(g_no_error == 1)

#define POST(X) \
	X(T->size >= g_size0 && T->align >= g_align0) \
	FRAME(X) \
	CANARY(X, !(ISSTRUCT && !BF && align == 4 && g_malign == 4 && g_pack))

static void addmember_contract(struct structbuilder *b, struct qualtype mt, char *name, int align, unsigned long long width)
REQUIRES(PRE)
__CPROVER_assigns(*b->last, b->last, b->bits, b->type->size, b->type->align, b->type->flexible)
ENSURES(POST);

void
harness(void)
{
	IN(int, in_tkind); IN(u64, in_size0); IN(unsigned, in_bits0); IN(int, in_align0); IN(bool, in_flex0); IN(bool, in_pack);
	IN(int, in_mkind); IN(int, in_mprop); IN(u64, in_msize); IN(int, in_malign); IN(bool, in_minc); IN(bool, in_mflex);
	IN(int, in_qual); IN(bool, in_named); IN(int, in_align); IN(u64, in_width);
	AM_BUILD;

	g_no_error = 1;
	CALL(PRE, POST, addmember(b, mt, name, align, width));
}
