/* UNIT
{
 "id": "DECL.defineobj",
 "file": "decl.c", "function": "defineobj",
 "properties": {"C09": "contract", "C10": "contract", "C19": "safety"},
 "mode": "dfcc", "enforce": "defineobj/defineobj_contract",
 "kind": "proof",
 "timeout": 100,
 "expects": ["postcondition", "assigns"],
 "assumes": ["qbe.c emitdata/funcinit replaced by recording stubs (what they print/emit is C03/C07's business): the claim is which of them is called, how often, with what, and in which state of the declaration"]
}
*/
/*
 * C09: an object definition is emitted exactly once, as static data unless it has automatic storage, and the
 * declaration is marked defined (so that the tentative-definition flush and redefinition checks see it).
 * C06: at the moment of emission the object's alignment is max(declared alignment, alignment of its type).
 * C10: C11 6.7p7 / 6.9.2p3: an object whose type is still incomplete when it is defined is diagnosed.
 */
#include "decl.c"
#include "verif.h"

extern int g_no_error;
struct decl *g_d;
int g_align0, g_talign, g_storage;
bool g_inc;
unsigned g_emit_n, g_finit_n;
struct decl *g_emit_d; struct init *g_emit_init; int g_emit_align; bool g_emit_defined;
struct func *g_finit_f; struct decl *g_finit_d; struct init *g_finit_init; bool g_finit_hasinit; int g_finit_align;

void
emitdata(struct decl *d, struct init *init)
{
	++g_emit_n;
	g_emit_d = d; g_emit_init = init; g_emit_align = d->u.obj.align; g_emit_defined = d->defined;
}

void
funcinit(struct func *f, struct decl *d, struct init *init, bool hasinit)
{
	++g_finit_n;
	g_finit_f = f; g_finit_d = d; g_finit_init = init; g_finit_hasinit = hasinit; g_finit_align = d->u.obj.align;
}

#define MAXI(a, b) ((a) > (b) ? (a) : (b))
#define PRE(X) \
	X(d != 0 && d == g_d && d->type != 0 && d->kind == DECLOBJECT) \
	X(d->u.obj.storage == SDSTATIC || d->u.obj.storage == SDTHREAD || d->u.obj.storage == SDAUTO) \
	X(g_align0 == d->u.obj.align && g_talign == d->type->align && g_storage == (int)d->u.obj.storage && g_inc == d->type->incomplete) \
	X(g_emit_n == 0 && g_finit_n == 0)

#define AUTO (g_storage == SDAUTO)
#define POST(X) \
	X(!g_inc)                                                            /* incomplete type diagnosed */ \
	X(g_d->defined)                                                      /* marked defined */ \
	X(g_d->u.obj.align == MAXI(g_align0, g_talign))                      /* storage alignment */ \
	X(IMP(!AUTO, g_emit_n == 1 && g_finit_n == 0))                       /* static/thread: one datum */ \
	X(IMP(!AUTO, g_emit_d == g_d && g_emit_init == init && g_emit_align == MAXI(g_align0, g_talign))) \
	X(IMP(AUTO, g_finit_n == 1 && g_emit_n == 0))                        /* automatic: initialised in the function */ \
	X(IMP(AUTO, g_finit_f == f && g_finit_d == g_d && g_finit_init == init && g_finit_hasinit == hasinit && g_finit_align == MAXI(g_align0, g_talign))) \
	X((int)g_d->u.obj.storage == g_storage && g_d->type->align == g_talign) \
	CANARY(X, !(g_storage == SDTHREAD && g_align0 == 16 && g_talign == 4))

static void defineobj_contract(struct decl *d, struct init *init, bool hasinit, struct func *f)
REQUIRES(PRE)
__CPROVER_assigns(d->defined, d->u.obj.align, g_emit_n, g_emit_d, g_emit_init, g_emit_align, g_emit_defined,
                  g_finit_n, g_finit_f, g_finit_d, g_finit_init, g_finit_hasinit, g_finit_align)
ENSURES(POST);

void
harness(void)
{
	static struct decl am_d;
	static struct type am_t;
	static struct init am_init;
	IN(int, in_align0); IN(int, in_talign); IN(int, in_storage); IN(bool, in_inc); IN(bool, in_defined);
	IN(bool, in_hasinitobj); IN(bool, in_hasinit); IN(bool, in_hasf);
	struct decl *d = &am_d;
	struct init *init = in_hasinitobj ? &am_init : (struct init *)0;
	bool hasinit = in_hasinit;
	struct func *f = in_hasf ? (struct func *)&am_init : (struct func *)0;   /* opaque: only passed on */

	am_d.kind = DECLOBJECT; am_d.type = &am_t; am_d.u.obj.align = in_align0; am_d.u.obj.storage = in_storage; am_d.defined = in_defined;
	am_t.align = in_talign; am_t.incomplete = in_inc;
	g_d = d; g_align0 = in_align0; g_talign = in_talign; g_storage = in_storage; g_inc = in_inc;
	g_emit_n = 0; g_finit_n = 0; g_no_error = 0;
	CALL(PRE, POST, defineobj(d, init, hasinit, f));
}
