/* UNIT
{
 "id": "DECL.structdecl.args",
 "file": "decl.c", "function": "structdecl",
 "properties": {"C06": "contract", "C19": "safety"},
 "mode": "harness",
 "replace_calls": {"declspecs": "stub_declspecs", "declarator": "stub_declarator", "addmember": "rec_addmember", "staticassert": "stub_staticassert"},
 "kind": "proof-const-unwind", "unwind": 3,
 "replay": false, "timeout": 100,
 "assumes": ["declspecs/declarator/staticassert/addmember (static) are redirected: declspecs yields the member's base type and the _Alignas value of the declaration, declarator the declared name and type, addmember RECORDS its arguments (its layout arithmetic is DECL.addmember.*); next/consume/expect/attr/intconstexpr are token-script stand-ins",
             "one member declaration of one of the three syntactic shapes of C11 6.7.2.1: anonymous struct/union member `struct {..};`, unnamed bit-field `T : W;`, declarator `T d;` / `T d : W;`",
             "no native replay: replaced callees are static"]
}
*/
/*
 * C06: "... the effect of packed/aligned attributes and _Alignas ... anonymous members ...".  What structdecl() passes
 * on to the layout arithmetic must be what the declaration says: the member type, its name (none for anonymous members
 * and unnamed bit-fields), the alignment given by the declaration's alignment specifier (C11 6.7.5: applies to every
 * member the declaration declares, including an anonymous struct/union member; never to a bit-field), and the width
 * (or "not a bit-field").
 */
#include "decl.c"
#include "verif.h"

extern int g_no_error;
static int g_shape;                 /* 0 anonymous struct member, 1 unnamed bit-field, 2 declarator, 3 declarator : width */
static int g_alignspec;             /* value of _Alignas in the declaration (0: none) */
static u64 g_widthval;
static struct type t_base, t_decl;
static char nm[2] = "m";
static unsigned g_n; static struct type *g_t; static char *g_name; static int g_align; static u64 g_width;
static int g_step;

void next(void) { tok.kind = TEOF; }
bool consume(int k)
{
	/* ':' is next for the unnamed bit-field right after the specifiers, and after the declarator in shape 3 */
	if (k == TCOLON && ((g_shape == 1 && g_step == 0) || (g_shape == 3 && g_step == 1))) { g_step++; return true; }
	return false;
}
char *expect(enum tokenkind k, const char *msg) { return 0; }
bool attr(struct attr *a, enum attrkind k) { return false; }
bool gnuattr(struct attr *a, enum attrkind k) { return false; }
unsigned long long intconstexpr(struct scope *s, bool allowneg) { tok.kind = TSEMICOLON; return g_widthval; }

bool stub_staticassert(struct scope *s) { return false; }
struct qualtype
stub_declspecs(struct scope *s, enum storageclass *sc, enum funcspec *fs, int *align)
{
	struct qualtype q = {&t_base, QUALNONE};
	*align = g_alignspec;
	tok.kind = g_shape == 0 ? TSEMICOLON : TIDENT;
	return q;
}
struct qualtype
stub_declarator(struct scope *s, struct qualtype base, char **name, struct scope **funcscope, bool allowabstract)
{
	struct qualtype q = {&t_decl, QUALNONE};
	*name = nm;
	g_step = 1;
	tok.kind = g_shape == 3 ? TCOLON : TSEMICOLON;
	return q;
}
void
rec_addmember(struct structbuilder *b, struct qualtype mt, char *name, int align, unsigned long long width)
{
	g_n++; g_t = mt.type; g_name = name; g_align = align; g_width = width;
}

void
harness(void)
{
	static struct structbuilder b;
	static struct scope sc;
	IN(int, in_shape); IN(int, in_alignspec); IN(u64, in_width);

	__CPROVER_assume(in_shape >= 0 && in_shape <= 3);
	__CPROVER_assume(in_alignspec == 0 || in_alignspec == 1 || in_alignspec == 2 || in_alignspec == 4 || in_alignspec == 8 || in_alignspec == 16 || in_alignspec == 32);
	__CPROVER_assume(in_width != (u64)-1);
	g_shape = in_shape; g_alignspec = in_alignspec; g_widthval = in_width;
	g_n = 0; g_step = 0; g_no_error = 1;
	t_base.kind = in_shape == 0 ? TYPESTRUCT : TYPEINT;
	t_base.u.structunion.tag = 0;
	t_base.size = t_base.align = 4;
	t_decl = t_base;
	tok.kind = TINT;

	structdecl(&sc, &b);

	__CPROVER_assert(g_n == 1, "exactly one member added for one declarator");
	switch (in_shape) {
	case 0:
		__CPROVER_assert(g_t == &t_base && g_name == 0 && g_width == (u64)-1, "anonymous struct/union member: its type, no name, not a bit-field");
		__CPROVER_assert(g_align == in_alignspec, "an alignment specifier on an anonymous member's declaration applies to it");
		break;
	case 1:
		__CPROVER_assert(g_t == &t_base && g_name == 0 && g_width == in_width, "unnamed bit-field: base type, no name, its width");
		__CPROVER_assert(g_align == 0, "no alignment is requested for a bit-field");
		break;
	case 2:
		__CPROVER_assert(g_t == &t_decl && g_name == nm && g_width == (u64)-1, "declarator: declared type and name, not a bit-field");
		__CPROVER_assert(g_align == in_alignspec, "the declaration's alignment specifier applies to the member");
		break;
	default:
		__CPROVER_assert(g_t == &t_decl && g_name == nm && g_width == in_width, "named bit-field: declared type, name and width");
		__CPROVER_assert(g_align == in_alignspec, "alignment specifier handed on (addmember diagnoses it for bit-fields)");
	}
#ifdef VERIF_CANARY
	__CPROVER_assert(in_shape != 0, "CANARY");
#endif
}
