/* UNIT
{
 "id": "DECL.addmember.flex",
 "file": "decl.c", "function": "addmember",
 "properties": {"C06": "contract", "C10": "contract", "C19": "safety"},
 "mode": "dfcc", "enforce": "addmember/addmember_contract",
 "kind": "proof",
 "timeout": 200,
 "expects": ["postcondition", "assigns"],
 "assumes": ["struct size so far and member size <= 2^40 bytes, alignments <= 2^28",
             "error() does not return (a diagnosed path ends): 'normal return => constraint holds'",
             "where in the struct a flexible array member may appear at all (6.7.2.1p3: not in a union, not as the first member) is stated in DECL.addmember.fam-position (fails on the pinned tree: finding)"]
}
*/
/*
 * C06: flexible array members (C11 6.7.2.1p3, p18): nothing may follow one; a struct that has one is flagged
 *      (t->flexible, which sizeof/arrays/members of other structs consult).
 * C10: the constraint checks inside addmember, each as "normal return => the constraint holds":
 *      6.7.2.1p3 (member of incomplete or function type; struct with flexible array member as a member of a struct),
 *      6.7.2.1p9 + 6.7.6.2p2 (variably modified member), 6.7.2.1p4 (width <= width of the type; zero width has no
 *      declarator), 6.7.2.1p5 (bit-field type is an integer type), 6.7.5p3 (no alignment specifier on a bit-field),
 *      6.7.5p4 (alignment not less strict than the type's), and the documented unsupported combination
 *      bit-field in a packed struct.
 * The precondition is the builder/type validity only: every combination of flags reaches the function.
 */
#include "addmember_common.h"

#define PRE(X) \
	VALID_BUILDER(X) \
	X(mt.type->size <= (1ull << 40) && g_msize == mt.type->size && g_S == g_msize && g_malign == mt.type->align && g_W == width) \
	X(IMP(mt.type->kind != TYPEFUNC && !(mt.type->prop & PROPVM) && (!mt.type->incomplete || mt.type->kind == TYPEARRAY), \
	      ISPOW2(mt.type->align) && mt.type->align <= (1 << 28))) \
	X(IMP(mt.type->prop & PROPINT, INTTYPE(mt.type))) \
	X(g_minc == mt.type->incomplete && g_mflex == mt.type->flexible && g_mkind == mt.type->kind && g_mprop == mt.type->prop)

bool g_minc, g_mflex;
int g_mkind, g_mprop;

#define ISSTRUCT (T->kind == TYPESTRUCT)
#define BF       (width != NOBF)
#define FAM      (g_minc && g_mkind == TYPEARRAY)      /* member of incomplete array type */
#define POST(X) \
	/* ---- C10: normal return => none of the constraint violations is present */ \
	X(!(ISSTRUCT && g_flex0))                        /* member after a flexible array member */ \
	X(!(g_minc && g_mkind != TYPEARRAY))             /* incomplete member type */ \
	X(g_mkind != TYPEFUNC)                           /* function member type */ \
	X(!(g_mprop & PROPVM))                           /* variably modified member type */ \
	X(!(ISSTRUCT && g_mflex))                        /* struct with flexible array member inside a struct */ \
	X(IMP(BF, (g_mprop & PROPINT) != 0))             /* bit-field of non-integer type */ \
	X(IMP(BF, g_W <= 8 * g_msize))                   /* width exceeds the type's width */ \
	X(IMP(BF && g_W == 0, name == 0))                /* zero width with a declarator */ \
	X(IMP(BF, align == 0))                           /* alignment specifier on a bit-field */ \
	X(IMP(BF, !g_pack))                              /* bit-field in packed struct: unsupported, diagnosed */ \
	X(IMP(!BF && align != 0, align >= g_malign))     /* _Alignas less strict than the type */ \
	/* ---- C06: flexible array member bookkeeping */ \
	X(IMP(ISSTRUCT, T->flexible == FAM))             /* flagged iff this (hence last) member is a flexible array */ \
	X(IMP(!ISSTRUCT, T->flexible == (g_flex0 || FAM || g_mflex)))   /* unions inherit the flag from any member */ \
	X(IMP(FAM && !BF, M != 0 && M->type == mt.type && IMP(ISSTRUCT, T->size == M->offset + g_msize))) \
	FRAME(X) \
	CANARY(X, !(ISSTRUCT && FAM && !BF && g_size0 == 5))

static void addmember_contract(struct structbuilder *b, struct qualtype mt, char *name, int align, unsigned long long width)
REQUIRES(PRE)
__CPROVER_assigns(*b->last, b->last, b->bits, b->type->size, b->type->align, b->type->flexible)
ENSURES(POST);

void
harness(void)
{
	IN(int, in_tkind); IN(u64, in_size0); IN(unsigned, in_bits0); IN(int, in_align0); IN(bool, in_flex0); IN(bool, in_pack);
	IN(int, in_mkind); IN(int, in_mprop); IN(u64, in_msize); IN(int, in_malign); IN(bool, in_minc); IN(bool, in_mflex);
	IN(int, in_qual); IN(bool, in_named); IN(int, in_align); IN(u64, in_width);
	AM_BUILD;

	g_minc = in_minc; g_mflex = in_mflex; g_mkind = in_mkind; g_mprop = in_mprop;
	CALL(PRE, POST, addmember(b, mt, name, align, width));
}
