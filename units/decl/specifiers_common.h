/*
 * Shared by DECL.storageclass / DECL.typequal / DECL.funcspec: the three one-token recognisers of declspecs().
 * They look at the current token `tok` and, if it is one of theirs, record it and consume it with next().
 * next() (pp.c: advances the preprocessor) is outside the claim and is replaced by a counting stub:
 * "the token is consumed exactly once" is then a postcondition.
 */
#include "decl.c"
#include "verif.h"
#include "linkage.h"

extern int g_no_error;
unsigned g_next_calls;      /* number of next() calls */
int g_tok;                  /* tok.kind at the call */
int g_old;                  /* accumulated specifier set before the call */

void
next(void)
{
	++g_next_calls;
}
