/* UNIT
{
 "id": "DECL.funcspec",
 "file": "decl.c", "function": "funcspec",
 "properties": {"C10": "contract", "C09": "contract", "C19": "safety"},
 "mode": "dfcc", "enforce": "funcspec/funcspec_contract",
 "kind": "proof",
 "timeout": 100,
 "expects": ["postcondition", "assertion_verif"],
 "assumes": ["next() replaced by a counting stub",
             "g_no_error is set when fs != NULL and the token is inline/_Noreturn: must not be diagnosed"]
}
*/
/*
 * C11 6.7.4: inline and _Noreturn; p5 "A function specifier may appear more than once; the behavior is the same as
 * if it appeared only once" (the mask is exactly the set seen).  C10: where declspecs() is called without a place
 * for function specifiers (struct members, parameters, type names: fs == NULL) a function specifier is diagnosed.
 * The inline bit feeds the inline-definition rule of C09 (decl(): u.func.inlinedefn).
 */
#include "specifiers_common.h"

#define ISFS(k)  ((k) == TINLINE || (k) == T_NORETURN)
#define BIT(k)   ((k) == TINLINE ? FUNCINLINE : (k) == T_NORETURN ? FUNCNORETURN : 0)

#define PRE(X) \
	X(IMP(fs != 0, g_old == (int)*fs)) \
	X(IMP(fs == 0, g_old == 0)) \
	X(g_tok == (int)tok.kind && g_next_calls == 0) \
	X(g_no_error == (fs != 0 && ISFS(g_tok)))

#define POST(X) \
	X(RET == ISFS(g_tok)) \
	X(IMP(ISFS(g_tok), fs != 0))                             /* not allowed in this declaration */ \
	X(IMP(fs != 0, (int)*fs == (g_old | BIT(g_tok))))        /* exactly the set seen */ \
	X(g_next_calls == (unsigned)ISFS(g_tok)) \
	X((int)tok.kind == g_tok) \
	CANARY(X, !(g_tok == T_NORETURN && g_old == FUNCINLINE))

static int funcspec_contract(enum funcspec *fs)
REQUIRES(PRE)
__CPROVER_assigns(g_next_calls)
__CPROVER_assigns(fs != 0: *fs)
ENSURES(POST);

void
harness(void)
{
	static enum funcspec am_fs;
	IN(int, in_tok); IN(bool, in_null); IN(int, in_old);
	enum funcspec *fs = in_null ? (enum funcspec *)0 : &am_fs;

	tok.kind = in_tok;
	am_fs = in_old;
	g_tok = in_tok; g_old = in_null ? 0 : in_old; g_next_calls = 0;
	g_no_error = (fs != 0 && ISFS(g_tok));
	CALLR(int, PRE, POST, funcspec(fs));
}
