/* UNIT
{
 "id": "MAIN.exit.status",
 "file": "main.c", "function": "main", "entry": "harness",
 "properties": {"C19": "contract", "C03": "contract"},
 "mode": "harness",
 "unwind": 6,
 "kind": "proof-const-unwind",
 "timeout": 120, "replay": false, "noreturn_macros": false,
 "cflags": ["-Dmain=cproc_main"],
 "assumes": ["the rest of the compiler is a stand-in: decl()/tokenprint()/emittentativedefns() may each write to stdout (nondeterministically) and the translation unit ends after at most 3 external declarations / tokens",
             "stdio model: stdout is buffered; a write to a failing device (full disk, closed descriptor) is reported by the stream's error indicator only once the buffer has been flushed; ferror() reads that indicator; fatal()/error()/exit() do not return",
             "command lines: no option, -E, -o FILE, -t TARGET with at most one input (argc <= 3)"]
}
*/
#include <stdio.h>
#include "verif.h"

/*
 * C19: "Failures of its own I/O (unreadable input, unwritable or full output) are reported with a non-zero status."
 * C03: "status 0 is never returned with truncated ... output."
 * Contract of main(): it returns 0 only if every byte it wrote has been flushed and the error indicator was
 * examined AFTER that flush and found clear -- i.e. on a failing output device it never returns 0 having written.
 */
static int dev_fails;        /* the output device rejects writes                         */
static int unflushed;        /* bytes sitting in stdout's buffer                         */
static int errind;           /* stdout's error indicator                                 */
static int wrote;            /* anything written at all                                  */
static int g_exit = -1;      /* status passed to exit()/implied by fatal()/error()       */
static int ndecl;
static int freopen_fails;

static void model_write(void) { wrote = 1; unflushed = 1; }
static void model_flush(void) { if (unflushed && dev_fails) errind = 1; unflushed = 0; }

int nondet_int(void);

/* libc stand-ins (definitions here override CBMC's models) */
#define fflush  verif_fflush
#define ferror  verif_ferror
#define freopen verif_freopen
#define fprintf(...) ((void)0)
#define exit    verif_exit
int verif_fflush(FILE *f) { model_flush(); return errind ? -1 : 0; }
int verif_ferror(FILE *f) { return errind; }
FILE *verif_freopen(const char *p, const char *m, FILE *f) { return freopen_fails ? 0 : f; }
void verif_exit(int s) { g_exit = s; __CPROVER_assert(s == 1 || s == 2, "exit status is 1 (diagnosed) or 2 (usage)"); __CPROVER_assume(0); }

#include "main.c"

/* the rest of the compiler */
char *argv0;
struct token tok;
enum ppflags ppflags;
struct scope filescope;
void fatal(const char *fmt, ...) { verif_exit(1); }
void error(const struct location *l, const char *fmt, ...) { verif_exit(1); }
char *progname(char *a, char *b) { return b; }
void targinit(const char *t) { }
void scanfrom(const char *n, FILE *f) { }
void scanopen(void) { }
void ppinit(void) { tok.kind = nondet_int() ? TEOF : TINT; }
void scopeinit(void) { }
void tokenprint(const struct token *t) { model_write(); }
void next(void) { if (++ndecl >= 3 || nondet_int()) tok.kind = TEOF; }
bool decl(struct scope *s, struct func *f) { if (nondet_int()) model_write(); if (++ndecl >= 3 || nondet_int()) tok.kind = TEOF; return nondet_int() != 0; }
void emittentativedefns(void) { if (nondet_int()) model_write(); }

void
harness(void)
{
	static char a0[] = "cproc-qbe", aE[] = "-E", ao[] = "-o", at[] = "-t", aout[] = "out", ain[] = "in.c";
	char *argv[5];
	int argc, r;
	IN(int, in_mode); IN(bool, in_devfails); IN(bool, in_freopenfails); IN(bool, in_input);

	__CPROVER_assume(in_mode >= 0 && in_mode <= 3);
	dev_fails = in_devfails; freopen_fails = in_freopenfails;
	unflushed = errind = wrote = ndecl = 0; g_exit = -1;
	argc = 0;
	argv[argc++] = a0;
	if (in_mode == 1) argv[argc++] = aE;
	if (in_mode == 2) { argv[argc++] = ao; argv[argc++] = aout; }
	if (in_mode == 3) { argv[argc++] = at; argv[argc++] = aout; }
	if (in_input) argv[argc++] = ain;
	argv[argc] = 0;
	r = cproc_main(argc, argv);
	__CPROVER_assert(r == 0, "main returns only 0 (every failure leaves through exit 1/2)");
	__CPROVER_assert(!unflushed, "status 0 => everything written has been flushed");
	__CPROVER_assert(!(dev_fails && wrote), "status 0 is never returned after writing to a failing output device");
	__CPROVER_assert(!(in_mode == 2 && in_freopenfails), "status 0 is never returned when the -o file could not be opened");
#ifdef VERIF_CANARY
	__CPROVER_assert(!(wrote && in_mode == 1), "CANARY");
#endif
}
