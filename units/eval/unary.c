/* UNIT
{
 "id": "EVAL.unary",
 "file": "eval.c", "function": "unary", "also_functions": ["cast"],
 "properties": {"C04": "contract", "C19": "safety"},
 "mode": "dfcc", "enforce": "unary/unary_contract",
 "kind": "proof",
 "timeout": 120,
 "expects": ["postcondition", "assigns"],
 "assumes": ["integer operand is a canonical constant of its type (postcondition of cast(), which every folding path ends in: EVAL.cast)",
             "signed negation wraps (INT_MIN -> INT_MIN), which is what the emitted IL (sub 0, x) does at run time",
             "floating operand: spec-equality with C's unary minus on the double carrier, then the conversion to the type (float: round to single)"]
}
*/
#include "eval.c"
#include "verif.h"
#include "c_arith.h"
#include "eval_util.h"

/*
 * Only call site: eval() EXPRUNARY default case, reached for op == TSUB only (expr.c:unaryexpr builds EXPRUNARY nodes
 * with op TBAND, TMUL, TSUB; ~ ! + are rewritten to binary nodes; eval handles TBAND/TMUL itself).  The node has the
 * (promoted) type of its operand: expr.c:1056 mkexpr(EXPRUNARY, e->type, e).  l = eval(expr->base) is a constant.
 */
u64 g_l;          /* operand carrier */
unsigned g_sz;
bool g_sg;

#define PRE(X) \
	X(expr != 0 && l != 0 && expr != l) \
	X(op == TSUB) \
	X(l->type != 0 && expr->type == l->type) \
	X(T_VALID(l->type) && (l->type->prop & PROPARITH)) \
	/* 6.5.3.3p3: the integer promotions were performed on the operand (expr.c:1054): never _Bool, rank >= int */ \
	X(IMP(T_ISINT(l->type), (!T_ISBOOL(l->type) && l->type->size >= 4))) \
	X(l->kind == EXPRCONST) \
	X(g_l == l->u.constant.u && g_sz == l->type->size) \
	X(IMP(T_ISINT(l->type), (g_sg == l->type->u.basic.issigned && spec_canon(g_l, g_sz, g_sg))))

#define RESU (expr->u.constant.u)
#define RESF (expr->u.constant.f)
#define LF   (bits2d(g_l))
#define POST(X) \
	X(expr->kind == EXPRCONST) \
	/* 6.5.3.3p3: the negative of the (promoted) operand, in the type of the expression */ \
	X(IMP(T_ISINT(expr->type), RESU == spec_neg(g_l, g_sz, g_sg))) \
	X(IMP(T_ISINT(expr->type), spec_canon(RESU, g_sz, g_sg))) \
	X(IMP((T_ISFLT(expr->type) && g_sz == 4), same_double(RESF, (double)(float)-LF))) \
	X(IMP((T_ISFLT(expr->type) && g_sz != 4), same_double(RESF, -LF))) \
	/* a float operand that is a float value negates exactly */ \
	X(IMP((T_ISFLT(expr->type) && same_double(LF, (double)(float)LF)), same_double(RESF, -LF))) \
	/* operand untouched */ \
	X(l->u.constant.u == g_l && l->kind == EXPRCONST) \
	CANARY(X, !(T_ISINT(expr->type) && g_sz == 4 && g_sg && g_l == 0xffffffff80000000ull))

static void unary_contract(struct expr *expr, enum tokenkind op, struct expr *l)
REQUIRES(PRE)
__CPROVER_assigns(expr->kind, expr->u.constant)
ENSURES(POST);

void
harness(void)
{
	static struct type ty;
	static struct expr ee, el;
	struct expr *expr = &ee, *l = &el;

	IN(unsigned, in_cls);      /* 0 integer, 1 floating */
	IN(int, in_kind);
	IN(unsigned, in_sz);
	IN(bool, in_sg);
	IN(u64, in_l);
	IN(int, in_op);
	enum tokenkind op = in_op;

	__CPROVER_assume(in_cls <= 1);
	mk_type(&ty, in_cls, in_kind, in_sz, in_sg);
	l->type = expr->type = &ty;
	l->kind = EXPRCONST;
	l->u.constant.u = in_l;
	expr->kind = EXPRUNARY;
	expr->op = op;
	expr->base = l;
	g_l = in_l; g_sz = ty.size; g_sg = in_sg;
	CALL(PRE, POST, unary(expr, op, l));
}
