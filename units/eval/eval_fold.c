/* UNIT
{
 "id": "EVAL.eval.fold",
 "file": "eval.c", "function": "eval", "also_functions": ["binary", "cast"],
 "properties": {"C04": "contract", "C19": "safety"},
 "mode": "harness",
 "unwind": 3,
 "variants": {"cc": ["-DV_L=0", "-DV_R=0"], "ci": ["-DV_L=0", "-DV_R=1"], "ic": ["-DV_L=1", "-DV_R=0"]},
 "canary_variant": "cc",
 "kind": "proof-const-unwind",
 "timeout": 120,
 "expects": ["assertion_verif"],
 "assumes": ["shape fixed by the harness: l op r, op one of * / % << >> & | ^ < > <= >= == !=, each operand an integer constant or the identifier of an object (recursion depth 2, --unwind 3 with unwinding assertions); harness-enforced, frame stated as POST clauses on the nodes",
             "operand types: the promoted/common integer types of size 4 or 8 (6.3.1.8; built by expr.c:mkbinaryexpr), constants canonical; value clauses are given for & | ^ << >> and the comparisons (non-commutative ones detect swapped operands), the arithmetic of every operator on every width is EVAL.binary.int's contract",
             "signed >> is arithmetic (spec/c_arith.h)"]
}
*/
#include "eval.c"
#include "verif.h"
#include "c_arith.h"
#include "eval_shapes.h"

/*
 * C11 6.6: a constant expression with constant operands is evaluated at translation time; an expression with a
 * non-constant operand is not a constant and must be left for run time.
 */
struct expr *g_e, *g_l, *g_r;
u64 g_lv, g_rv;
int g_op0;
unsigned g_sz, g_rsz; bool g_sg, g_rsg;

#define ISCMP(op)   ((op) == TLESS || (op) == TGREATER || (op) == TLEQ || (op) == TGEQ || (op) == TEQL || (op) == TNEQ)
#define ISSHIFT(op) ((op) == TSHL || (op) == TSHR)
#define ISARITH(op) ((op) == TMUL || (op) == TDIV || (op) == TMOD || (op) == TBAND || (op) == TBOR || (op) == TXOR)
#define L_CONST (V_L == 0)
#define R_CONST (V_R == 0)
#define BOTH    (L_CONST && R_CONST)
#define PROMOTED(t) ((t) != 0 && T_VALID(t) && T_ISINT(t) && !T_ISBOOL(t) && (t)->size >= 4)
#define DIVDEF   (g_op0 != TDIV && g_op0 != TMOD || spec_divdefined(g_lv, g_rv, g_sz, g_sg))
#define SHIFTDEF (!ISSHIFT(g_op0) || spec_shiftdefined(g_rv, g_sz))
#define DEFINED  (DIVDEF && SHIFTDEF)

#define PRE(X) \
	X(expr != 0 && expr == g_e && g_e != g_l && g_e != g_r && g_l != g_r) \
	X(g_e->kind == EXPRBINARY && g_op0 == g_e->op && (ISARITH(g_op0) || ISSHIFT(g_op0) || ISCMP(g_op0))) \
	X(g_e->u.binary.l == g_l && g_e->u.binary.r == g_r) \
	X(PROMOTED(g_l->type) && PROMOTED(g_r->type) && g_e->type != 0) \
	X(IMP(ISARITH(g_op0), (g_r->type == g_l->type && g_e->type == g_l->type))) \
	X(IMP(ISSHIFT(g_op0), g_e->type == g_l->type)) \
	X(IMP(ISCMP(g_op0), (g_r->type == g_l->type && T_IS_INT32(g_e->type)))) \
	X(g_sz == g_l->type->size && g_sg == g_l->type->u.basic.issigned) \
	X(g_rsz == g_e->type->size && g_rsg == g_e->type->u.basic.issigned) \
	X(IMP(L_CONST, (g_l->kind == EXPRCONST && g_l->u.constant.u == g_lv && spec_canon(g_lv, g_sz, g_sg)))) \
	X(IMP(R_CONST, (g_r->kind == EXPRCONST && g_r->u.constant.u == g_rv && spec_canon(g_rv, g_r->type->size, g_r->type->u.basic.issigned)))) \
	X(IMP(!L_CONST, (g_l->kind == EXPRIDENT && g_l->u.ident.decl != 0 && g_l->u.ident.decl->kind == DECLOBJECT))) \
	X(IMP(!R_CONST, (g_r->kind == EXPRIDENT && g_r->u.ident.decl != 0 && g_r->u.ident.decl->kind == DECLOBJECT))) \
	X(g_no_error == 1)

#define RES (g_e->u.constant.u)
#define FOLDED (g_e->kind == EXPRCONST)
#define INTACT (g_e->kind == EXPRBINARY && g_e->op == g_op0 && g_e->u.binary.l == g_l && g_e->u.binary.r == g_r)
#define POST(X) \
	X(HRET == g_e) \
	/* two constants and a defined result: folds; otherwise stays the same binary node over the same operands */ \
	X(IMP((BOTH && DEFINED), FOLDED)) \
	/* an undefined operation (division by zero, quotient not representable 6.5.5p5-6, shift count out of range 6.5.7p3) \
	   has no value to fold to: no requirement beyond "folded or intact" (as in EVAL.binary.int); the compiler must not \
	   trap on it, which is what the inlined safety obligations of binary() say */ \
	X(IMP(!BOTH, INTACT)) \
	X(FOLDED || INTACT) \
	X(IMP(FOLDED, spec_canon(RES, g_rsz, g_rsg))) \
	/* value = the operator applied to (l, r) in this order, in the operand type */ \
	X(IMP((FOLDED && g_op0 == TBAND), RES == spec_and(g_lv, g_rv, g_sz, g_sg))) \
	X(IMP((FOLDED && g_op0 == TBOR), RES == spec_or(g_lv, g_rv, g_sz, g_sg))) \
	X(IMP((FOLDED && g_op0 == TXOR), RES == spec_xor(g_lv, g_rv, g_sz, g_sg))) \
	X(IMP((FOLDED && g_op0 == TSHL && SHIFTDEF), RES == spec_shl(g_lv, g_rv, g_sz, g_sg))) \
	X(IMP((FOLDED && g_op0 == TSHR && SHIFTDEF), RES == spec_shr(g_lv, g_rv, g_sz, g_sg))) \
	X(IMP((FOLDED && g_op0 == TLESS), RES == spec_lt(g_lv, g_rv, g_sg))) \
	X(IMP((FOLDED && g_op0 == TGREATER), RES == spec_lt(g_rv, g_lv, g_sg))) \
	X(IMP((FOLDED && g_op0 == TLEQ), RES == spec_le(g_lv, g_rv, g_sg))) \
	X(IMP((FOLDED && g_op0 == TGEQ), RES == spec_le(g_rv, g_lv, g_sg))) \
	X(IMP((FOLDED && g_op0 == TEQL), RES == (g_lv == g_rv))) \
	X(IMP((FOLDED && g_op0 == TNEQ), RES == (g_lv != g_rv))) \
	/* operands and the node's type untouched */ \
	X(IMP(L_CONST, (g_l->kind == EXPRCONST && g_l->u.constant.u == g_lv))) \
	X(IMP(R_CONST, (g_r->kind == EXPRCONST && g_r->u.constant.u == g_rv))) \
	X(IMP(!L_CONST, g_l->kind == EXPRIDENT) && IMP(!R_CONST, g_r->kind == EXPRIDENT)) \
	CANARY(X, !(g_op0 == TSHL && g_lv == 3 && g_rv == 2))

void
harness(void)
{
	static struct type ti, tl, tr;
	static struct expr ee, el, er;
	static struct decl dl, dr;
	struct expr *expr = &ee;

	IN(int, in_op);
	IN(int, in_lkind); IN(unsigned, in_lsz); IN(bool, in_lsg); IN(u64, in_lv);
	IN(int, in_rkind); IN(unsigned, in_rsz); IN(bool, in_rsg); IN(u64, in_rv);

	__CPROVER_assume(ISARITH(in_op) || ISSHIFT(in_op) || ISCMP(in_op));
	mk_type(&ti, 0, TYPEINT, 4, 1);
	mk_type(&tl, 0, in_lkind, in_lsz, in_lsg);
	mk_type(&tr, 0, in_rkind, in_rsz, in_rsg);
#if V_L == 0
	mk_const(&el, &tl, in_lv);
#else
	mk_objident(&el, &dl, &tl);
#endif
#if V_R == 0
	mk_const(&er, ISSHIFT(in_op) ? &tr : &tl, in_rv);
#else
	mk_objident(&er, &dr, ISSHIFT(in_op) ? &tr : &tl);
#endif
	mk_binary(&ee, ISCMP(in_op) ? &ti : &tl, in_op, &el, &er);
	g_e = &ee; g_l = &el; g_r = &er; g_lv = in_lv; g_rv = in_rv; g_op0 = in_op;
	g_sz = tl.size; g_sg = in_lsg; g_rsz = ee.type->size; g_rsg = ee.type->u.basic.issigned;
	g_no_error = 1;
	HCALLR(struct expr *, PRE, POST, eval(expr));
}
