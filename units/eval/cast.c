/* UNIT
{
 "id": "EVAL.cast",
 "file": "eval.c", "function": "cast",
 "properties": {"C04": "contract", "C19": "safety"},
 "mode": "dfcc", "enforce": "cast/cast_contract", "post_macro": "POST_CAST",
 "kind": "proof",
 "timeout": 120,
 "expects": ["postcondition", "assigns"],
 "assumes": ["case split: every valid target type except _Bool (the _Bool case is unit EVAL.cast.bool; together they cover every call)",
             "two's complement, LP64 (spec_wrap uses the host's fixed-width conversions)",
             "float target: spec-equality on the double carrier, (double)(float)v with CBMC's IEEE-754 round-to-nearest-even model of the narrowing conversion"]
}
*/
#include "eval.c"
#include "verif.h"
#include "c_arith.h"
#define CAST_CASE(t) (!T_ISBOOL(t))
#include "cast_contract.h"

void
harness(void)
{
	static struct type ty;
	static struct expr ee;
	struct expr *expr = &ee;

	IN(unsigned, in_cls);      /* 0 integer, 1 floating, 2 pointer */
	IN(int, in_kind);
	IN(unsigned, in_sz);
	IN(bool, in_sg);
	IN(u64, in_v);

	__CPROVER_assume(in_cls <= 2);
	mk_type(&ty, in_cls, in_kind, in_sz, in_sg);
	expr->type = &ty;
	expr->kind = EXPRCONST;
	expr->u.constant.u = in_v;
	g_v = in_v; g_sz = ty.size; g_sg = in_sg;
	CALL(PRE_CAST, POST_CAST, cast(expr));
}
