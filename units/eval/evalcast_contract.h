/*
 * Contract of eval.c:eval on the shape  (T) constant  -- EXPRCAST whose operand is an EXPRCONST.
 * eval() is recursive: harness mode, shape fixed by PRE, recursion depth 2 (CONVENTIONS 5, DESIGN 2.3.7b).
 *
 * Shared by four case units; the unit file defines ECAST_CASE to select its case:
 *   EVAL.eval.cast       everything not in the three cases below
 *   EVAL.eval.cast.bool  target _Bool                                                 (C11 6.3.1.2)
 *   EVAL.eval.cast.i2f   integer -> float where the integer is not exactly a double   (single rounding, 6.3.1.4p2 + C04)
 *   EVAL.eval.cast.f2i   floating -> integer with a NaN source, or a source in (-1,0) to an unsigned type (6.3.1.4p1)
 * The four cases partition the domain of PRE_ECAST.
 *
 * Clauses come from C11 6.3.1.2 (_Bool), 6.3.1.3 (integer), 6.3.1.4 (real floating <-> integer), 6.3.1.5 (real
 * floating), 6.3.2.3p5-6 (pointer <-> integer: implementation-defined = the 64-bit address value, wrapped) and from
 * the C04 statement: the folded value is the value run-time evaluation gives (sltof/ultof/dtosi/... on the target).
 *
 * Domain (call sites: expr.c castexpr / exprconvert build EXPRCAST nodes over scalar operands; the operand folds to
 * an EXPRCONST of integer, floating or pointer type): source and target are valid scalar type objects; pointer <->
 * floating is a constraint violation (6.5.4p4) and excluded; long double is excluded (rejected by the backend,
 * qbe.c:201); an integer/pointer source constant is canonical; a floating source is any double bit pattern.
 */
#include "eval_util.h"

extern int g_no_error;

struct expr *g_e, *g_b;   /* the cast node and its constant operand */
u64 g_v;                  /* operand carrier bits                   */
unsigned g_ssz, g_tsz;    /* source / target size                   */
bool g_ssg, g_tsg;        /* source / target signedness             */

#define SRC  (g_b->type)
#define DST  (g_e->type)
#define SF   (bits2d(g_v))
#define S_INTLIKE   (T_ISINT(SRC) || SRC->kind == TYPEPOINTER)
#define D_INTNB     (T_ISINT(DST) && !T_ISBOOL(DST))

/* 6.3.1.4p1: the integral part of f is representable in the integer type (size, sg) */
#define F_IN_RANGE(f, sz, sg) ((sg) \
	? ((sz) == 1 ? ((f) > -129.0 && (f) < 128.0) : (sz) == 2 ? ((f) > -32769.0 && (f) < 32768.0) : \
	   (sz) == 4 ? ((f) > -2147483649.0 && (f) < 2147483648.0) : ((f) >= -0x1p63 && (f) < 0x1p63)) \
	: ((f) > -1.0 && ((sz) == 1 ? (f) < 256.0 : (sz) == 2 ? (f) < 65536.0 : (sz) == 4 ? (f) < 4294967296.0 : (f) < 0x1p64)))
/* the 64-bit range outside of which eval must diagnose (C19: no trapping / undefined conversion inside the compiler) */
#define F_IN_CARRIER(f, sg) ((sg) ? ((f) >= -0x1p63 && (f) < 0x1p63) : ((f) > -1.0 && (f) < 0x1p64))
/* truncation of an in-range f, as canonical carrier of (sz, sg) */
#define F_TRUNC(f, sz, sg) (!F_IN_RANGE(f, sz, sg) ? 0 : (sg) ? (u64)(i64)(f) : (u64)(f))
/* the integer value of the source constant converted to double in ONE rounding (what cvtsi2sd / QBE sltof, ultof do) */
#define S_AS_DOUBLE (g_ssg ? (double)(i64)g_v : (double)g_v)
#define S_AS_FLOAT  (g_ssg ? (float)(i64)g_v : (float)g_v)
/* the integer source is exactly a double (then int -> double -> float is a single rounding too) */
#define S_EXACT_DOUBLE (g_ssg ? ((i64)g_v == -0x7fffffffffffffffll - 1 || ((double)(i64)g_v < 0x1p63 && (i64)(double)(i64)g_v == (i64)g_v)) \
                              : ((double)g_v < 0x1p64 && (u64)(double)g_v == g_v))

#define CASE_BOOL (T_ISBOOL(DST))
#define CASE_I2F  (!CASE_BOOL && T_ISINT(SRC) && T_ISFLT(DST) && g_tsz == 4 && !S_EXACT_DOUBLE)
#define CASE_F2I  (!CASE_BOOL && T_ISFLT(SRC) && T_ISINT(DST) && (ISNAN(SF) || (!g_tsg && SF > -1.0 && SF < 0.0)))
#define CASE_CORE (!CASE_BOOL && !CASE_I2F && !CASE_F2I)

#define PRE_ECAST(X) \
	X(expr != 0 && expr == g_e && g_b != 0 && g_e != g_b) \
	X(expr->kind == EXPRCAST && expr->base == g_b && g_b->kind == EXPRCONST) \
	X(SRC != 0 && DST != 0) \
	X(T_VALID(SRC) && T_VALID(DST) && SRC->size != 16 && DST->size != 16) \
	X(!(SRC->kind == TYPEPOINTER && T_ISFLT(DST)) && !(T_ISFLT(SRC) && DST->kind == TYPEPOINTER)) \
	X(g_v == g_b->u.constant.u) \
	X(g_ssz == SRC->size && g_tsz == DST->size) \
	X(g_ssg == (T_ISINT(SRC) && SRC->u.basic.issigned) && g_tsg == (T_ISINT(DST) && DST->u.basic.issigned)) \
	X(IMP(S_INTLIKE, spec_canon(g_v, g_ssz, g_ssg))) \
	/* valid inputs must not be diagnosed: 6.3.1.4p1 gives float -> integer a value whenever the integral part fits, \
	   6.3.1.2 gives float -> _Bool a value always */ \
	X(g_no_error == (T_ISFLT(SRC) && T_ISINT(DST) && (T_ISBOOL(DST) || (!ISNAN(SF) && F_IN_RANGE(SF, g_tsz, g_tsg))))) \
	X(ECAST_CASE)

#define RESU (g_e->u.constant.u)
#define RESF (g_e->u.constant.f)
#define POST_ECAST(X) \
	/* a cast of a constant folds, in place, to a constant of the cast's type */ \
	X(HRET == g_e) \
	X(g_e->kind == EXPRCONST) \
	/* 6.3.1.3 / 6.3.2.3p6: integer or pointer -> integer */ \
	X(IMP((S_INTLIKE && D_INTNB), RESU == spec_wrap(g_v, g_tsz, g_tsg))) \
	/* 6.3.1.2: anything -> _Bool is (value != 0); a NaN compares unequal to 0 */ \
	X(IMP((S_INTLIKE && T_ISBOOL(DST)), RESU == (g_v != 0))) \
	X(IMP((T_ISFLT(SRC) && T_ISBOOL(DST)), RESU == (SF != 0.0))) \
	/* 6.3.1.4p2: integer -> floating, by the signedness of the SOURCE type, rounded once to the target format */ \
	X(IMP((T_ISINT(SRC) && T_ISFLT(DST) && g_tsz == 8), same_double(RESF, S_AS_DOUBLE))) \
	X(IMP((T_ISINT(SRC) && T_ISFLT(DST) && g_tsz == 4), same_double(RESF, (double)S_AS_FLOAT))) \
	/* 6.3.1.4p1: floating -> integer truncates toward zero when the integral part is representable ... */ \
	X(IMP((T_ISFLT(SRC) && D_INTNB && F_IN_RANGE(SF, g_tsz, g_tsg)), RESU == F_TRUNC(SF, g_tsz, g_tsg))) \
	/* ... and a normal return means the compiler itself performed a defined conversion (else it must diagnose) */ \
	X(IMP((T_ISFLT(SRC) && D_INTNB), !ISNAN(SF))) \
	X(IMP((T_ISFLT(SRC) && D_INTNB), F_IN_CARRIER(SF, g_tsg))) \
	/* every integer result is a canonical carrier of the target type */ \
	X(IMP(D_INTNB, spec_canon(RESU, g_tsz, g_tsg))) \
	/* 6.3.1.5: floating -> floating */ \
	X(IMP((T_ISFLT(SRC) && T_ISFLT(DST) && g_tsz == 4), same_double(RESF, (double)(float)SF))) \
	X(IMP((T_ISFLT(SRC) && T_ISFLT(DST) && g_tsz == 8), same_double(RESF, SF))) \
	/* 6.3.2.3p5: integer or pointer -> pointer: the address value */ \
	X(IMP((S_INTLIKE && DST->kind == TYPEPOINTER), RESU == g_v)) \
	/* frame: operand node and both types untouched, node keeps its type */ \
	X(g_b->kind == EXPRCONST && g_b->u.constant.u == g_v) \
	X(g_e->type == DST && g_e->base == g_b) \
	CANARY(X, !(T_ISINT(SRC) && T_ISFLT(DST) && g_v == 3)) \
	CANARY(X, !(T_ISBOOL(DST) && g_v == 0)) \
	CANARY(X, !(T_ISINT(SRC) && T_ISFLT(DST) && g_v == 0x4000004000000001ull)) \
	CANARY(X, !(T_ISFLT(SRC) && g_tsz == 4 && SF == -0.25))

#ifndef VERIF_REPLAY
/* externs of eval.c that this shape must not reach */
struct value *mkglobal(struct decl *d) { __CPROVER_assert(0, "mkglobal unreachable for (T)constant"); return 0; }
void emitdata(struct decl *d, struct init *i) { __CPROVER_assert(0, "emitdata unreachable for (T)constant"); }
struct decl *stringdecl(struct expr *e) { __CPROVER_assert(0, "stringdecl unreachable for (T)constant"); return 0; }
/* only read on the non-constant pointer path of EXPRCAST, which this shape does not take */
struct type typelong = {.kind = TYPELONG, .size = 8, .align = 8, .u.basic.issigned = 1, .prop = PROPSCALAR|PROPARITH|PROPREAL|PROPINT};
#endif

/* builds the shape from scalars and runs the contract around the REAL eval() */
static void
ecast_run(unsigned in_scls, int in_skind, unsigned in_ssz, bool in_ssg,
          unsigned in_tcls, int in_tkind, unsigned in_tsz, bool in_tsg, u64 in_v)
{
	static struct type ts, tt;
	static struct expr ee, eb;
	struct expr *expr = &ee;

	__CPROVER_assume(in_scls <= 2 && in_tcls <= 2);
	mk_type(&ts, in_scls, in_skind, in_ssz, in_ssg);
	mk_type(&tt, in_tcls, in_tkind, in_tsz, in_tsg);
	eb.kind = EXPRCONST;
	eb.type = &ts;
	eb.u.constant.u = in_v;
	ee.kind = EXPRCAST;
	ee.type = &tt;
	ee.base = &eb;
	g_e = &ee; g_b = &eb; g_v = in_v;
	g_ssz = ts.size; g_tsz = tt.size;
	g_ssg = in_scls == 0 && in_ssg; g_tsg = in_tcls == 0 && in_tsg;
	g_no_error = in_scls == 1 && in_tcls == 0 && (in_tkind == TYPEBOOL || (!ISNAN(SF) && F_IN_RANGE(SF, g_tsz, g_tsg)));
	HCALLR(struct expr *, PRE_ECAST, POST_ECAST, eval(expr));
}
