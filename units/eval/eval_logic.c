/* UNIT
{
 "id": "EVAL.eval.logic",
 "file": "eval.c", "function": "eval",
 "properties": {"C04": "contract", "C19": "safety"},
 "mode": "harness",
 "unwind": 3,
 "variants": {"cc": ["-DV_L=0", "-DV_R=0"], "ci": ["-DV_L=0", "-DV_R=1"], "ic": ["-DV_L=1", "-DV_R=0"]},
 "canary_variant": "cc",
 "kind": "proof-const-unwind",
 "timeout": 120,
 "expects": ["assertion_verif"],
 "assumes": ["shape fixed by the harness: l || r and l && r with each operand a constant (integer, floating or pointer typed, any value) or the identifier of an object (recursion depth 2, --unwind 3 with unwinding assertions); harness-enforced, no DFCC frame check: frame stated as POST clauses on the nodes",
             "that the right operand is not EVALUATED when the left decides is not observable on constants (no side effects); the clause states the value only",
             "long double operands excluded (rejected by the backend)"]
}
*/
#include "eval.c"
#include "verif.h"
#include "c_arith.h"
#include "eval_shapes.h"

/*
 * C11 6.5.13p3-4 (&&), 6.5.14p3-4 (||): the result has type int and is 1 or 0; operands are compared against 0
 * (scalar: integer, floating (-0.0 and +0.0 compare equal to 0, a NaN does not), pointer); if the first operand
 * decides, the second is not evaluated.  Node built by expr.c:mkbinaryexpr: type int, operands any scalar.
 */
struct expr *g_e, *g_l, *g_r;
u64 g_lv, g_rv;
int g_op0;

#define TRUTH(n, v)  (T_ISFLT((n)->type) ? bits2d(v) != 0.0 : (v) != 0)
#define L_CONST      (V_L == 0)
#define R_CONST      (V_R == 0)
#define LT           (TRUTH(g_l, g_lv))
#define RT           (TRUTH(g_r, g_rv))
#define DECIDED      (L_CONST && (g_op0 == TLOR ? LT : !LT))
#define SCALAR_OK(t) ((t) != 0 && T_VALID(t) && (t)->size != 16)

#define PRE(X) \
	X(expr != 0 && expr == g_e && g_e != g_l && g_e != g_r && g_l != g_r) \
	X(g_e->kind == EXPRBINARY && (g_e->op == TLOR || g_e->op == TLAND) && g_op0 == g_e->op) \
	X(g_e->type != 0 && T_IS_INT32(g_e->type)) \
	X(g_e->u.binary.l == g_l && g_e->u.binary.r == g_r) \
	X(SCALAR_OK(g_l->type) && SCALAR_OK(g_r->type)) \
	X(IMP(L_CONST, (g_l->kind == EXPRCONST && g_l->u.constant.u == g_lv))) \
	X(IMP(R_CONST, (g_r->kind == EXPRCONST && g_r->u.constant.u == g_rv))) \
	X(IMP(!L_CONST, (g_l->kind == EXPRIDENT && g_l->u.ident.decl != 0 && g_l->u.ident.decl->kind == DECLOBJECT))) \
	X(IMP(!R_CONST, (g_r->kind == EXPRIDENT && g_r->u.ident.decl != 0 && g_r->u.ident.decl->kind == DECLOBJECT))) \
	X(g_no_error == 1)

#define POST(X) \
	X(HRET != 0 && HRET->type != 0 && T_IS_INT32(HRET->type)) \
	/* left operand decides: the constant 1 (||) resp. 0 (&&) */ \
	X(IMP(DECIDED, (HRET->kind == EXPRCONST && HRET->u.constant.u == (g_op0 == TLOR ? 1 : 0)))) \
	/* left constant does not decide, right constant: (r != 0) */ \
	X(IMP((L_CONST && !DECIDED && R_CONST), (HRET->kind == EXPRCONST && HRET->u.constant.u == (RT ? 1 : 0)))) \
	/* otherwise not a constant; if the node is kept it is kept intact */ \
	X(IMP((!L_CONST || (!DECIDED && !R_CONST)), HRET->kind != EXPRCONST)) \
	X(IMP((HRET == g_e && g_e->kind != EXPRCONST), (g_e->kind == EXPRBINARY && g_e->op == g_op0 && g_e->u.binary.l == g_l && g_e->u.binary.r == g_r))) \
	/* what cannot be folded is left as it is (returning an operand instead, as `0 || x` -> x, would change type or value) */ \
	X(IMP(HRET->kind != EXPRCONST, HRET == g_e)) \
	/* operands untouched */ \
	X(IMP(L_CONST, (g_l->kind == EXPRCONST && g_l->u.constant.u == g_lv))) \
	X(IMP(R_CONST, (g_r->kind == EXPRCONST && g_r->u.constant.u == g_rv))) \
	CANARY(X, !(g_op0 == TLAND && g_lv == 3 && g_rv == 7))

void
harness(void)
{
	static struct type ti, tl, tr;
	static struct expr ee, el, er;
	static struct decl dl, dr;
	struct expr *expr = &ee;

	IN(int, in_op);
	IN(unsigned, in_lcls); IN(int, in_lkind); IN(unsigned, in_lsz); IN(bool, in_lsg); IN(u64, in_lv);
	IN(unsigned, in_rcls); IN(int, in_rkind); IN(unsigned, in_rsz); IN(bool, in_rsg); IN(u64, in_rv);

	__CPROVER_assume(in_op == TLOR || in_op == TLAND);
	__CPROVER_assume(in_lcls <= 2 && in_rcls <= 2);
	mk_type(&ti, 0, TYPEINT, 4, 1);
	mk_type(&tl, in_lcls, in_lkind, in_lsz, in_lsg);
	mk_type(&tr, in_rcls, in_rkind, in_rsz, in_rsg);
#if V_L == 0
	mk_const(&el, &tl, in_lv);
#else
	mk_objident(&el, &dl, &tl);
#endif
#if V_R == 0
	mk_const(&er, &tr, in_rv);
#else
	mk_objident(&er, &dr, &tr);
#endif
	mk_binary(&ee, &ti, in_op, &el, &er);
	g_e = &ee; g_l = &el; g_r = &er; g_lv = in_lv; g_rv = in_rv; g_op0 = in_op;
	g_no_error = 1;
	HCALLR(struct expr *, PRE, POST, eval(expr));
}
