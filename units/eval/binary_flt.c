/* UNIT
{
 "id": "EVAL.binary.flt",
 "file": "eval.c", "function": "binary", "also_functions": ["cast"],
 "properties": {"C04": "contract", "C19": "safety"},
 "mode": "dfcc", "enforce": "binary/binary_contract",
 "kind": "proof",
 "variants": {"TMUL": ["-DV_OP=TMUL"], "TDIV": ["-DV_OP=TDIV"], "TADD": ["-DV_OP=TADD"], "TSUB": ["-DV_OP=TSUB"], "CMP": ["-DV_CMP"]},
 "canary_variant": "TADD",
 "timeout": 120,
 "expects": ["postcondition", "assigns"],
 "assumes": ["spec-equality on the double carriers: the oracle is the C expression `l op r` on the same doubles under CBMC's IEEE-754 binary64 round-to-nearest-even model, followed by the conversion to the result type (float: one more rounding to binary32)",
             "that a float-typed fold (double arithmetic, then rounding to float) equals single-precision run-time arithmetic relies on the double-rounding theorem (53 >= 2*24+2, for + - * / on operands that ARE float values); not proved here; note that expr.c does not round `f`-suffixed literals to float, so that premise is not established by the literal path",
             "IEEE-754 host (Annex F): x / 0.0 is +-inf or NaN and does not trap (CBMC generates no division-by-zero obligation for the floating division)",
             "long double operands excluded (rejected by the backend, qbe.c:201)"]
}
*/
#include "eval.c"
#include "verif.h"
#include "c_arith.h"
#include "eval_util.h"

/*
 * Call sites: eval() EXPRBINARY.  For floating operands expr.c:mkbinaryexpr has converted both operands to the common
 * real type (6.3.1.8), so l->type == r->type; for * / + - the node has that type, for the relational and equality
 * operators it has type int (6.5.8p6, 6.5.9p3).  % << >> & | ^ do not take floating operands (constraints).
 */
u64 g_l, g_r;      /* operand carrier bits */
unsigned g_sz;     /* operand type size    */
int g_kind0;

#define ISARITH(op) ((op) == TMUL || (op) == TDIV || (op) == TADD || (op) == TSUB)
#define ISCMP(op)   ((op) == TLESS || (op) == TGREATER || (op) == TLEQ || (op) == TGEQ || (op) == TEQL || (op) == TNEQ)
#define FLT48(t)    (T_ISFLT(t) && T_VALID(t) && (t)->size != 16)

#define PRE(X) \
	X(expr != 0 && l != 0 && r != 0 && expr != l && expr != r) \
	X(ISARITH(op) || ISCMP(op)) \
	X(l->type != 0 && FLT48(l->type) && r->type == l->type) \
	X(IMP(ISARITH(op), expr->type == l->type)) \
	X(IMP(ISCMP(op), (expr->type != 0 && T_ISINT(expr->type) && expr->type->kind == TYPEINT && expr->type->size == 4 && expr->type->u.basic.issigned))) \
	X(g_l == l->u.constant.u && g_r == r->u.constant.u && g_sz == l->type->size) \
	X(g_kind0 == expr->kind && g_kind0 == EXPRBINARY)

#define LF   (l->u.constant.f)
#define RF   (r->u.constant.f)
#define RESU (expr->u.constant.u)
#define RESF (expr->u.constant.f)
#define TO_T(x) (g_sz == 4 ? (double)(float)(x) : (double)(x))
#define POST(X) \
	X(expr->kind == EXPRCONST) \
	/* 6.5.5, 6.5.6: the C operator on the operand values, converted to the (common real) type of the expression */ \
	X(IMP(op == TMUL, same_double(RESF, TO_T(LF * RF)))) \
	X(IMP(op == TDIV, same_double(RESF, TO_T(LF / RF)))) \
	X(IMP(op == TADD, same_double(RESF, TO_T(LF + RF)))) \
	X(IMP(op == TSUB, same_double(RESF, TO_T(LF - RF)))) \
	/* 6.5.8p6, 6.5.9p3: 1 if the relation holds, 0 otherwise (every relation but != is false on a NaN); type int */ \
	X(IMP(op == TLESS, RESU == (LF < RF))) \
	X(IMP(op == TGREATER, RESU == (LF > RF))) \
	X(IMP(op == TLEQ, RESU == (LF <= RF))) \
	X(IMP(op == TGEQ, RESU == (LF >= RF))) \
	X(IMP(op == TEQL, RESU == (LF == RF))) \
	X(IMP(op == TNEQ, RESU == (LF != RF))) \
	X(IMP(ISCMP(op), RESU <= 1)) \
	/* operands are not modified */ \
	X(l->u.constant.u == g_l && r->u.constant.u == g_r) \
	CANARY(X, !(op == TADD && g_sz == 4 && LF == 1.5))

static void binary_contract(struct expr *expr, enum tokenkind op, struct expr *l, struct expr *r)
REQUIRES(PRE)
__CPROVER_assigns(expr->kind, expr->u.constant)
ENSURES(POST);

void
harness(void)
{
	static struct type tf, ti;
	static struct expr el, er, ee;
	struct expr *expr = &ee, *l = &el, *r = &er;

	IN(int, in_op);
	IN(unsigned, in_sz);
	IN(u64, in_l);
	IN(u64, in_r);
#ifdef V_OP
	enum tokenkind op = V_OP;
#else
	enum tokenkind op = in_op;
#ifdef V_CMP
	__CPROVER_assume(ISCMP(op));
#endif
#endif

	__CPROVER_assume(in_sz == 4 || in_sz == 8);
	mk_type(&tf, 1, 0, in_sz, 0);
	mk_type(&ti, 0, TYPEINT, 4, 1);
	l->type = r->type = &tf;
	expr->type = ISCMP(op) ? &ti : &tf;
	l->kind = r->kind = EXPRCONST;
	expr->kind = EXPRBINARY;
	expr->op = op;
	expr->u.binary.l = l;
	expr->u.binary.r = r;
	l->u.constant.u = in_l;
	r->u.constant.u = in_r;
	g_l = in_l; g_r = in_r; g_sz = tf.size; g_kind0 = expr->kind;
	CALL(PRE, POST, binary(expr, op, l, r));
}
