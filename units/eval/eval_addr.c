/* UNIT
{
 "id": "EVAL.eval.addr",
 "file": "eval.c", "function": "eval", "also_functions": ["binary", "cast"],
 "properties": {"C04": "contract", "C19": "safety"},
 "mode": "harness",
 "unwind": 3,
 "variants": {"ident": ["-DV_ADDROF=0"], "addrof": ["-DV_ADDROF=1"]},
 "canary_variant": "ident",
 "kind": "proof-const-unwind",
 "timeout": 120,
 "expects": ["assertion_verif"],
 "assumes": ["shape fixed by the harness: (P + C1) op C2, op in {+,-}, P = identifier of an object or &identifier  (real recursion, depth <= 4, --unwind 3 with unwinding assertions; CBMC's value sets cannot tell which member of the union `u` of a node is live, so the symbolic execution also explores infeasible deeper calls that the SAT solver then refutes: that is what the time is spent on); harness-enforced, no DFCC frame check: the frame is stated as POST clauses on the nodes",
             "the pointer operand is the LEFT operand and both offsets are unsigned long constants: expr.c:mkbinaryexpr commutes `C + P` and builds the offset as (unsigned long)idx * sizeof(*P) before eval sees the node",
             "the address-constant value itself (symbol + offset) is emitted by qbe.c from this tree; that P + K denotes the run-time address is the backend's business"]
}
*/
#include "eval.c"
#include "verif.h"
#include "c_arith.h"
#include "eval_shapes.h"

/*
 * C11 6.6p9 address constants: &object plus/minus an integer constant; 6.5.6p8: (P + i) + j == P + (i + j) for in-bounds
 * pointers, offsets being scaled by the element size in unsigned long arithmetic (mod 2^64, the address width).
 */
struct expr *g_e, *g_L, *g_P, *g_C1, *g_C2, *g_B;   /* outer node, (P + C1), P, C1, C2, operand of & (or 0) */
u64 g_c1, g_c2;
int g_op0, g_pkind0;
struct decl *g_pd;

#define PRE(X) \
	X(expr != 0 && expr == g_e) \
	X(g_e->kind == EXPRBINARY && (g_e->op == TADD || g_e->op == TSUB) && g_op0 == g_e->op) \
	X(g_e->type != 0 && g_e->type->kind == TYPEPOINTER) \
	X(g_e->u.binary.l == g_L && g_e->u.binary.r == g_C2) \
	X(g_L->kind == EXPRBINARY && g_L->op == TADD && g_L->type == g_e->type) \
	X(g_L->u.binary.l == g_P && g_L->u.binary.r == g_C1) \
	X(g_C1->kind == EXPRCONST && g_C2->kind == EXPRCONST && T_IS_ULONG(g_C1->type) && T_IS_ULONG(g_C2->type)) \
	X(g_C1->u.constant.u == g_c1 && g_C2->u.constant.u == g_c2) \
	/* P: a pointer-typed non-constant: an identifier of an object, or & of one */ \
	X(g_P->type != 0 && g_P->type->kind == TYPEPOINTER && g_pkind0 == g_P->kind) \
	X((g_P->kind == EXPRIDENT && g_P->u.ident.decl == g_pd && g_pd->kind == DECLOBJECT && g_B == 0) || \
	  (g_P->kind == EXPRUNARY && g_P->op == TBAND && g_P->base == g_B && g_B->kind == EXPRIDENT && \
	   g_B->u.ident.decl == g_pd && g_pd->kind == DECLOBJECT)) \
	X(g_no_error == 1)

#define NEWR (g_e->u.binary.r)
#define KVAL (g_op0 == TADD ? spec_add(g_c1, g_c2, 8, 0) : spec_sub(g_c1, g_c2, 8, 0))
#define POST(X) \
	X(HRET == g_e) \
	/* the node is now  P + K  with the SAME P ... */ \
	X(g_e->kind == EXPRBINARY && g_e->op == TADD) \
	X(g_e->u.binary.l == g_P) \
	/* ... and K a constant node holding C1 + C2, resp. C1 - C2, in unsigned long arithmetic.  The facts are stated on the \
	   ghost pointers of the two constant nodes (K must be one of them: eval allocates nothing), not by dereferencing the \
	   pointer read back from the union: CBMC's value sets lose track of pointers stored in `u` (CONVENTIONS 6) */ \
	X(NEWR == g_C2 || NEWR == g_C1) \
	X(IMP(NEWR == g_C2, (g_C2->kind == EXPRCONST && T_IS_ULONG(g_C2->type) && g_C2->u.constant.u == KVAL))) \
	X(IMP(NEWR == g_C1, (g_C1->kind == EXPRCONST && T_IS_ULONG(g_C1->type) && g_C1->u.constant.u == KVAL))) \
	/* P is untouched, the node keeps its pointer type */ \
	X(g_P->kind == g_pkind0 && g_P->type->kind == TYPEPOINTER && g_e->type->kind == TYPEPOINTER) \
	X(IMP(g_pkind0 == EXPRIDENT, g_P->u.ident.decl == g_pd)) \
	X(IMP(g_pkind0 == EXPRUNARY, (g_P->op == TBAND && g_P->base == g_B && g_B->kind == EXPRIDENT && g_B->u.ident.decl == g_pd))) \
	X(g_pd->kind == DECLOBJECT) \
	CANARY(X, !(g_op0 == TSUB && g_c1 == 4 && g_c2 == 8))

void
harness(void)
{
	static struct type tp, tul, tobj;
	static struct expr ee, eL, eP, eB, eC1, eC2;
	static struct decl dd;
	struct expr *expr = &ee;

	/* the form of P is a compile-time constant per variant: with a symbolic shape the symbolic execution of the
	   doubly-recursive eval() explores every kind at every level and does not finish */
	IN(int, in_op);
	bool in_addrof = V_ADDROF;       /* P is &x rather than an identifier of pointer type */
	IN(u64, in_c1);
	IN(u64, in_c2);

	__CPROVER_assume(in_op == TADD || in_op == TSUB);
	mk_type(&tobj, 0, TYPEINT, 4, 1);
	mk_type(&tp, 2, 0, 8, 0); tp.base = &tobj;
	mk_type(&tul, 0, TYPELONG, 8, 0);
	if (in_addrof) {
		mk_objident(&eB, &dd, &tobj);
		eP.kind = EXPRUNARY; eP.op = TBAND; eP.type = &tp; eP.base = &eB;
		g_B = &eB;
	} else {
		mk_objident(&eP, &dd, &tp);
		g_B = 0;
	}
	mk_const(&eC1, &tul, in_c1);
	mk_const(&eC2, &tul, in_c2);
	mk_binary(&eL, &tp, TADD, &eP, &eC1);
	mk_binary(&ee, &tp, in_op, &eL, &eC2);
	g_e = &ee; g_L = &eL; g_P = &eP; g_C1 = &eC1; g_C2 = &eC2; g_pd = &dd;
	g_c1 = in_c1; g_c2 = in_c2; g_op0 = in_op; g_pkind0 = eP.kind;
	g_no_error = 1;
	HCALLR(struct expr *, PRE, POST, eval(expr));
}
