/* UNIT
{
 "id": "EVAL.eval.ident",
 "file": "eval.c", "function": "eval",
 "properties": {"C04": "contract", "C19": "safety"},
 "mode": "harness",
 "unwind": 2,
 "kind": "proof-const-unwind",
 "timeout": 120,
 "expects": ["assertion_verif"],
 "assumes": ["shape fixed by the harness: a single EXPRIDENT node (no recursion); harness-enforced, frame stated as POST clauses",
             "an enumeration constant's declaration carries its value as a canonical carrier of the constant's integer type (established by decl.c:tagspec with typehasint before mkdecl(DECLCONST); TYPE.hasint)"]
}
*/
#include "eval.c"
#include "verif.h"
#include "c_arith.h"
#include "eval_shapes.h"

/*
 * C11 6.6p6: enumeration constants are integer constant expression operands; 6.4.4.3/6.7.2.2: an identifier declared as
 * an enumeration constant has the value given by its enumerator.  Identifiers of objects and functions are not constants.
 * expr.c:primaryexpr builds EXPRIDENT with the type of the declaration (for DECLCONST: the enumeration constant's type).
 */
struct expr *g_e;
struct decl *g_d;
u64 g_v;
int g_dkind;

#define PRE(X) \
	X(expr != 0 && expr == g_e && g_e->kind == EXPRIDENT && g_e->u.ident.decl == g_d && g_d != 0) \
	X(g_d->kind == g_dkind && (g_dkind == DECLCONST || g_dkind == DECLOBJECT || g_dkind == DECLFUNC || g_dkind == DECLBUILTIN)) \
	X(g_e->type != 0 && T_VALID(g_e->type)) \
	X(IMP(g_dkind == DECLCONST, (T_ISINT(g_e->type) && g_d->u.enumconst == g_v && \
	                             spec_canon(g_v, g_e->type->size, g_e->type->u.basic.issigned)))) \
	X(g_no_error == 1)

#define POST(X) \
	X(HRET == g_e) \
	X(IMP(g_dkind == DECLCONST, (g_e->kind == EXPRCONST && g_e->u.constant.u == g_v))) \
	X(IMP(g_dkind == DECLCONST, spec_canon(g_e->u.constant.u, g_e->type->size, g_e->type->u.basic.issigned))) \
	X(IMP(g_dkind != DECLCONST, (g_e->kind == EXPRIDENT && g_e->u.ident.decl == g_d))) \
	X(g_d->kind == g_dkind) \
	X(IMP(g_dkind == DECLCONST, g_d->u.enumconst == g_v)) \
	CANARY(X, !(g_dkind == DECLCONST && g_v == 7))

void
harness(void)
{
	static struct type ty;
	static struct expr ee;
	static struct decl dd;
	struct expr *expr = &ee;

	IN(int, in_dkind);
	IN(unsigned, in_cls); IN(int, in_kind); IN(unsigned, in_sz); IN(bool, in_sg);
	IN(u64, in_v);

	__CPROVER_assume(in_cls <= 2);
	mk_type(&ty, in_cls, in_kind, in_sz, in_sg);
	dd.kind = in_dkind;
	dd.type = &ty;
	if (in_dkind == DECLCONST)
		dd.u.enumconst = in_v;
	ee.kind = EXPRIDENT;
	ee.type = &ty;
	ee.u.ident.decl = &dd;
	g_e = &ee; g_d = &dd; g_v = in_v; g_dkind = in_dkind;
	g_no_error = 1;
	HCALLR(struct expr *, PRE, POST, eval(expr));
}
