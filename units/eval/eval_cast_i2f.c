/* UNIT
{
 "id": "EVAL.eval.cast.i2f",
 "file": "eval.c", "function": "eval", "also_functions": ["cast"],
 "properties": {"C04": "contract", "C19": "safety"},
 "mode": "harness", "post_macro": "POST_ECAST",
 "unwind": 3,
 "kind": "proof-const-unwind",
 "timeout": 120,
 "expects": ["assertion_verif"],
 "assumes": ["shape fixed by the harness: EXPRCAST over an EXPRCONST (recursion depth 2; --unwind 3 with unwinding assertions: symex resolves the recursion by constant propagation, so no unwinding assertion is even generated); harness-enforced, no DFCC frame check: the frame is stated as POST clauses on the two nodes",
             "case split: integer -> float (4 bytes) where the integer value is not exactly representable as a double (the other cases: EVAL.eval.cast and its siblings)",
             "long double excluded (backend rejects it, qbe.c:201); pointer <-> floating excluded (constraint violation 6.5.4p4, not checked by expr.c:castexpr)",
             "integer and pointer source constants are canonical carriers (EVAL.cast postcondition); floating sources are arbitrary double bit patterns",
             "floating-point clauses are spec-equality with the host C conversions under CBMC's IEEE-754 model (round to nearest even)"]
}
*/
#include "eval.c"
#include "verif.h"
#include "c_arith.h"
#define ECAST_CASE CASE_I2F
#include "evalcast_contract.h"

void
harness(void)
{
	IN(unsigned, in_scls);     /* source type: 0 integer, 1 floating, 2 pointer */
	IN(int, in_skind);
	IN(unsigned, in_ssz);
	IN(bool, in_ssg);
	IN(unsigned, in_tcls);     /* target type */
	IN(int, in_tkind);
	IN(unsigned, in_tsz);
	IN(bool, in_tsg);
	IN(u64, in_v);             /* operand carrier bits */

	ecast_run(in_scls, in_skind, in_ssz, in_ssg, in_tcls, in_tkind, in_tsz, in_tsg, in_v);
}
