/*
 * Contract of eval.c:cast -- "convert the value carried in expr->u.constant to expr->type".
 * Shared by EVAL.cast (every type except _Bool) and EVAL.cast.bool (_Bool); the unit file defines
 * CAST_CASE(t) to select its case, the two cases together cover every valid type.
 *
 * Source of the clauses: C11 6.3.1.3 (integer conversions: value modulo 2^N, two's complement for the
 * signed types on all three targets), 6.3.1.2 (_Bool: 0 if the value compares equal to 0, else 1),
 * 6.3.1.5 (double -> float: the value is rounded to float; the carrier of a float constant is the double
 * holding that float value), and the C04 statement ("type-wrapped representation").
 *
 * Call sites: unary(), binary(), eval() EXPRCAST.  expr->type is a valid scalar type object there:
 * integer (incl. enum, _Bool), floating (4, 8, 16 bytes) or pointer (only from eval()).  The integer clauses
 * are stated on the 64-bit carrier: for integer -> integer the carrier before the call is the canonical
 * carrier of the source value.
 */
#include "eval_util.h"

u64 g_v;          /* carrier bits before the call */
unsigned g_sz;    /* expr->type->size             */
bool g_sg;        /* expr->type->u.basic.issigned */

#define PRE_CAST(X) \
	X(expr != 0 && expr->type != 0) \
	X(T_VALID(expr->type)) \
	X(CAST_CASE(expr->type)) \
	X(g_v == expr->u.constant.u) \
	X(g_sz == expr->type->size) \
	X(IMP(T_ISINT(expr->type), g_sg == expr->type->u.basic.issigned))

#define RESU (expr->u.constant.u)
#define RESF (expr->u.constant.f)
#define POST_CAST(X) \
	/* 6.3.1.3: integer (non-_Bool) target: the value modulo 2^(8*size), sign-extended for signed types */ \
	X(IMP((T_ISINT(expr->type) && !T_ISBOOL(expr->type)), RESU == spec_wrap(g_v, g_sz, g_sg))) \
	/* 6.3.1.2: _Bool target: 0 if the value compares equal to 0, otherwise 1 */ \
	X(IMP(T_ISBOOL(expr->type), RESU == (g_v != 0))) \
	/* the result is a canonical carrier of its type (so a second conversion is the identity: idempotence) */ \
	X(IMP((T_ISINT(expr->type) && !T_ISBOOL(expr->type)), spec_canon(RESU, g_sz, g_sg))) \
	X(IMP(T_ISBOOL(expr->type), RESU <= 1)) \
	/* 6.3.1.5: float target: the double carrier holds the value rounded to float */ \
	X(IMP((T_ISFLT(expr->type) && g_sz == 4), same_double(RESF, (double)(float)bits2d(g_v)))) \
	X(IMP((T_ISFLT(expr->type) && g_sz == 4), same_double(RESF, (double)(float)RESF))) \
	/* double / long double targets (the carrier is a double) and pointer targets: unchanged */ \
	X(IMP((T_ISFLT(expr->type) && g_sz != 4), RESU == g_v)) \
	X(IMP(expr->type->kind == TYPEPOINTER, RESU == g_v)) \
	CANARY(X, !(g_sz == 2 && g_sg && g_v == 0x18001)) \
	CANARY(X, !(T_ISBOOL(expr->type) && g_v == 0))

static void cast_contract(struct expr *expr)
REQUIRES(PRE_CAST)
__CPROVER_assigns(expr->u.constant)
ENSURES(POST_CAST);
