/*
 * eval_util.h -- helpers shared by the units on /repo/eval.c (not a contract; no PRE/POST macro lives here).
 *
 * Types are built from scalar inputs as "valid type objects" in the sense of type.c / decl.c:
 *   integer types (PROPINT): size in {1,2,4,8}; _Bool is kind TYPEBOOL, size 1, unsigned; enum types are PROPINT too
 *   floating types (PROPFLOAT): size 4, 8 or 16
 *   pointer types: PROPSCALAR only, size 8
 */
#ifndef EVAL_UTIL_H
#define EVAL_UTIL_H

/* bit pattern <-> double, the way `union {u; i; f;} constant` of struct expr overlays them */
static inline double
bits2d(u64 b)
{
	union { u64 u; double f; } x;
	x.u = b;
	return x.f;
}

static inline u64
d2bits(double d)
{
	union { u64 u; double f; } x;
	x.f = d;
	return x.u;
}

#define ISNAN(d) ((d) != (d))

/* equality of doubles as VALUES of the abstract machine: same bits, or both NaN */
static inline bool
same_double(double a, double b)
{
	return (ISNAN(a) && ISNAN(b)) || d2bits(a) == d2bits(b);
}

#define T_ISINT(t)   (((t)->prop & PROPINT) && !((t)->prop & PROPFLOAT))
#define T_ISFLT(t)   (((t)->prop & PROPFLOAT) && !((t)->prop & PROPINT))
#define T_ISBOOL(t)  ((t)->kind == TYPEBOOL)

/* "valid scalar type object" as produced by type.c's tables, mktype users in decl.c (enum) and mkpointertype */
#define T_VALID(t) ( \
	(T_ISINT(t) && ((t)->size == 1 || (t)->size == 2 || (t)->size == 4 || (t)->size == 8) && \
	 ((t)->kind == TYPEBOOL || (t)->kind == TYPECHAR || (t)->kind == TYPESHORT || (t)->kind == TYPEINT || \
	  (t)->kind == TYPELONG || (t)->kind == TYPELLONG || (t)->kind == TYPEENUM) && \
	 IMP((t)->kind == TYPEBOOL, (t)->size == 1 && !(t)->u.basic.issigned) && \
	 IMP((t)->kind == TYPECHAR, (t)->size == 1) && IMP((t)->kind == TYPESHORT, (t)->size == 2) && \
	 IMP((t)->kind == TYPEINT, (t)->size == 4) && IMP((t)->kind == TYPELONG || (t)->kind == TYPELLONG, (t)->size == 8) && \
	 1) || \
	(T_ISFLT(t) && (((t)->kind == TYPEFLOAT && (t)->size == 4) || ((t)->kind == TYPEDOUBLE && (t)->size == 8) || \
	                ((t)->kind == TYPELDOUBLE && (t)->size == 16))) || \
	((t)->kind == TYPEPOINTER && !((t)->prop & (PROPINT|PROPFLOAT)) && (t)->size == 8))

/* type class selector used by the harnesses: 0 integer, 1 floating, 2 pointer */
static inline void
mk_type(struct type *t, unsigned cls, int kind, unsigned size, bool sg)
{
	if (cls == 0) {
		t->kind = kind;
		t->prop = PROPSCALAR|PROPARITH|PROPREAL|PROPINT | (kind == TYPECHAR ? PROPCHAR : 0);
		t->size = size;
		t->align = size;
		t->u.basic.issigned = sg;
	} else if (cls == 1) {
		t->kind = size == 4 ? TYPEFLOAT : size == 8 ? TYPEDOUBLE : TYPELDOUBLE;
		t->prop = PROPSCALAR|PROPARITH|PROPREAL|PROPFLOAT;
		t->size = size;
		t->align = size;
	} else {
		t->kind = TYPEPOINTER;
		t->prop = PROPSCALAR;
		t->size = 8;
		t->align = 8;
	}
}

#endif
