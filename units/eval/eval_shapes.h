/*
 * eval_shapes.h -- node builders and extern stubs for the shape-fixed units on the recursive eval.c:eval
 * (harness mode; CONVENTIONS 5 "Recursion", DESIGN 2.3.7b).  Not a contract.
 */
#ifndef EVAL_SHAPES_H
#define EVAL_SHAPES_H
#include "eval_util.h"

extern int g_no_error;

#ifndef VERIF_REPLAY
/* externs of eval.c that none of the fixed shapes may reach (EXPRCOMPOUND, &"string", pointer casts of non-constants) */
struct value *mkglobal(struct decl *d) { __CPROVER_assert(0, "mkglobal unreachable for this shape"); return 0; }
void emitdata(struct decl *d, struct init *i) { __CPROVER_assert(0, "emitdata unreachable for this shape"); }
struct decl *stringdecl(struct expr *e) { __CPROVER_assert(0, "stringdecl unreachable for this shape"); return 0; }
struct type typelong = {.kind = TYPELONG, .size = 8, .align = 8, .u.basic.issigned = 1, .prop = PROPSCALAR|PROPARITH|PROPREAL|PROPINT};
#endif

static inline void
mk_const(struct expr *e, struct type *t, u64 v)
{
	e->kind = EXPRCONST;
	e->type = t;
	e->u.constant.u = v;
}

/* a non-constant primary: identifier of an object (DECLOBJECT) */
static inline void
mk_objident(struct expr *e, struct decl *d, struct type *t)
{
	d->kind = DECLOBJECT;
	d->type = t;
	e->kind = EXPRIDENT;
	e->type = t;
	e->lvalue = true;
	e->u.ident.decl = d;
}

static inline void
mk_binary(struct expr *e, struct type *t, enum tokenkind op, struct expr *l, struct expr *r)
{
	e->kind = EXPRBINARY;
	e->type = t;
	e->op = op;
	/* The operands live inside the union `u`.  They are written as ONE assignment of the whole member: CBMC's symbolic
	   execution then constant-propagates the pointers read back by eval(), and the recursion on a fixed shape resolves
	   itself.  With two member-wise writes (e->u.binary.l = l; e->u.binary.r = r;) it does not, and the doubly-recursive
	   eval() explores every node kind at every level (probed: > 120 s for (P + C) alone, 0.5 s this way). */
	{
		__typeof__(e->u.binary) b = {l, r};
		e->u.binary = b;
	}
}

#define T_IS_INT32(t)  (T_ISINT(t) && (t)->kind == TYPEINT && (t)->size == 4 && (t)->u.basic.issigned)
#define T_IS_ULONG(t)  (T_ISINT(t) && (t)->kind == TYPELONG && (t)->size == 8 && !(t)->u.basic.issigned)

#endif
