/* UNIT
{
 "id": "EVAL.binary.int",
 "file": "eval.c", "function": "binary", "also_functions": ["cast"],
 "properties": {"C04": "contract", "C19": "safety"},
 "mode": "dfcc", "enforce": "binary/binary_contract",
 "kind": "proof",
 "variants": {"TMUL": ["-DV_OP=TMUL"], "TDIV": ["-DV_OP=TDIV"], "TMOD": ["-DV_OP=TMOD"], "TADD": ["-DV_OP=TADD"], "TSUB": ["-DV_OP=TSUB"], "TSHL": ["-DV_OP=TSHL"], "TSHR": ["-DV_OP=TSHR"], "TBAND": ["-DV_OP=TBAND"], "TBOR": ["-DV_OP=TBOR"], "TXOR": ["-DV_OP=TXOR"], "TLESS": ["-DV_OP=TLESS"], "TGREATER": ["-DV_OP=TGREATER"], "TLEQ": ["-DV_OP=TLEQ"], "TGEQ": ["-DV_OP=TGEQ"], "TEQL": ["-DV_OP=TEQL"], "TNEQ": ["-DV_OP=TNEQ"]},
 "canary_variant": "TMUL",
 "cbmc_flags": ["--no-simplify"], "retry_no_simplify": false,
 "timeout": 120,
 "assumes": ["operands are canonical constants of their integer type (established by cast(), which every folding path ends in; proved as a postcondition here and in EVAL.cast)",
             "signed + - * wrap (what the emitted IL does at run time); >> on signed is arithmetic"]
}
*/
#include "eval.c"
#include "verif.h"
#include "c_arith.h"

/* ghosts = logical variables of the contract */
u64 g_l, g_r;          /* operand values (canonical carriers)     */
unsigned g_sz;         /* size of the operand type                */
bool g_sg;             /* signedness of the operand type          */
unsigned g_rsz;        /* size of the result type                 */
bool g_rsg;
int g_kind0;           /* expr->kind before the call              */

#define ISARITH(op) ((op) == TMUL || (op) == TDIV || (op) == TMOD || (op) == TADD || (op) == TSUB || \
                     (op) == TBAND || (op) == TBOR || (op) == TXOR)
#define ISSHIFT(op) ((op) == TSHL || (op) == TSHR)
#define ISCMP(op)   ((op) == TLESS || (op) == TGREATER || (op) == TLEQ || (op) == TGEQ || (op) == TEQL || (op) == TNEQ)
#define INTT(t)     (((t)->prop & PROPINT) && !((t)->prop & PROPFLOAT) && \
                     ((t)->size == 1 || (t)->size == 2 || (t)->size == 4 || (t)->size == 8))
#define DEFINED(op) (((op) != TDIV && (op) != TMOD || spec_divdefined(l->u.constant.u, r->u.constant.u, l->type->size, l->type->u.basic.issigned)) && \
                     (!ISSHIFT(op) || spec_shiftdefined(g_r, g_sz)))
#define RES         (expr->u.constant.u)

#define PRE(X) \
	X(expr != l && expr != r) \
	X(INTT(l->type) && INTT(r->type) && INTT(expr->type)) \
	X(ISARITH(op) || ISSHIFT(op) || ISCMP(op)) \
	/* 6.5.5-6.5.12: arithmetic/bitwise: all three of the common type; shifts: result has the \
	   (promoted) left type; comparisons: operands of the common type, result int */ \
	X(IMP(ISARITH(op), (expr->type == l->type && r->type == l->type))) \
	X(IMP(ISSHIFT(op), (expr->type == l->type))) \
	X(IMP(ISCMP(op), (r->type == l->type && expr->type->size == 4 && expr->type->u.basic.issigned))) \
	X(g_sz == l->type->size && g_sg == l->type->u.basic.issigned) \
	X(g_rsz == expr->type->size && g_rsg == expr->type->u.basic.issigned) \
	X(g_l == l->u.constant.u && g_r == r->u.constant.u) \
	X(spec_canon(g_l, g_sz, g_sg)) \
	X(spec_canon(g_r, r->type->size, r->type->u.basic.issigned)) \
	X(g_kind0 == expr->kind && g_kind0 == EXPRBINARY)

/* POST names the operands through l/r themselves (the frame clause and the last POST clause say they are
   unchanged): CBMC then shares the multiplier/divider circuit between code and oracle; with ghost copies
   the 64-bit mul/div/mod equivalences did not finish in 100 s */
#define LV (l->u.constant.u)
#define RV (r->u.constant.u)
#define SZ ((unsigned)l->type->size)
#define SG (l->type->u.basic.issigned)
#define POST(X) \
	X(IMP(DEFINED(op), expr->kind == EXPRCONST)) \
	X(expr->kind == EXPRCONST || expr->kind == g_kind0) \
	X(IMP(expr->kind == EXPRCONST, spec_canon(RES, g_rsz, g_rsg))) \
	X(IMP(op == TMUL, RES == SPEC_MUL(LV, RV, SZ, SG))) \
	X(IMP(op == TADD, RES == spec_add(LV, RV, SZ, SG))) \
	X(IMP(op == TSUB, RES == spec_sub(LV, RV, SZ, SG))) \
	X(IMP(op == TBAND, RES == spec_and(LV, RV, SZ, SG))) \
	X(IMP(op == TBOR, RES == spec_or(LV, RV, SZ, SG))) \
	X(IMP(op == TXOR, RES == spec_xor(LV, RV, SZ, SG))) \
	X(IMP((op == TDIV && DEFINED(op)), RES == SPEC_DIV(LV, RV, l->u.constant.i, r->u.constant.i, SZ, SG))) \
	X(IMP((op == TMOD && DEFINED(op)), RES == SPEC_MOD(LV, RV, l->u.constant.i, r->u.constant.i, SZ, SG))) \
	X(IMP((op == TSHL && DEFINED(op)), RES == spec_shl(LV, RV, SZ, SG))) \
	X(IMP((op == TSHR && DEFINED(op)), RES == spec_shr(LV, RV, SZ, SG))) \
	X(IMP(op == TLESS, RES == spec_lt(LV, RV, SG))) \
	X(IMP(op == TGREATER, RES == spec_lt(RV, LV, SG))) \
	X(IMP(op == TLEQ, RES == spec_le(LV, RV, SG))) \
	X(IMP(op == TGEQ, RES == spec_le(RV, LV, SG))) \
	X(IMP(op == TEQL, RES == (LV == RV))) \
	X(IMP(op == TNEQ, RES == (LV != RV))) \
	/* operands are not modified */ \
	X(l->u.constant.u == g_l && r->u.constant.u == g_r) \
	CANARY(X, !(op == TMUL && g_sz == 4 && g_l == 3))

static void binary_contract(struct expr *expr, enum tokenkind op, struct expr *l, struct expr *r)
REQUIRES(PRE)
__CPROVER_assigns(expr->kind, expr->u.constant)
ENSURES(POST);

static void
mkint(struct type *t, unsigned size, bool sg)
{
	t->kind = size == 1 ? TYPECHAR : size == 2 ? TYPESHORT : size == 4 ? TYPEINT : TYPELONG;
	t->prop = PROPSCALAR|PROPARITH|PROPREAL|PROPINT;
	t->size = size;
	t->align = size;
	t->u.basic.issigned = sg;
}

void
harness(void)
{
	static struct type tl, tr, te;
	static struct expr el, er, ee;
	struct expr *expr = &ee, *l = &el, *r = &er;

	IN(int, in_op);
	IN(unsigned, in_sz);
	IN(bool, in_sg);
	IN(unsigned, in_rsz);
	IN(bool, in_rsg);
	IN(u64, in_l);
	IN(u64, in_r);
#ifdef V_OP
	/* one CBMC run per operator: with a symbolic op the path merges after binary()'s switch defeat the
	   sharing of the 64-bit multiplier/divider between code and oracle and the proof does not finish */
	enum tokenkind op = V_OP;
#else
	enum tokenkind op = in_op;
#endif

	__CPROVER_assume(in_sz == 1 || in_sz == 2 || in_sz == 4 || in_sz == 8);
	__CPROVER_assume(in_rsz == 1 || in_rsz == 2 || in_rsz == 4 || in_rsz == 8);
	mkint(&tl, in_sz, in_sg);
	mkint(&tr, in_rsz, in_rsg);
	mkint(&te, 4, 1);
	l->type = &tl;
	r->type = ISSHIFT(op) ? &tr : &tl;
	expr->type = ISCMP(op) ? &te : &tl;
	l->kind = r->kind = EXPRCONST;
	expr->kind = EXPRBINARY;
	expr->op = op;
	expr->u.binary.l = l;
	expr->u.binary.r = r;
	l->u.constant.u = in_l;
	r->u.constant.u = in_r;
	g_l = in_l; g_r = in_r;
	g_sz = l->type->size; g_sg = l->type->u.basic.issigned;
	g_rsz = expr->type->size; g_rsg = expr->type->u.basic.issigned;
	g_kind0 = expr->kind;
	CALL(PRE, POST, binary(expr, op, l, r));
}
