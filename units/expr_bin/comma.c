/* UNIT
{
 "id": "EXPR.comma",
 "file": "expr.c", "function": "expr", "also_functions": ["mkexpr"],
 "properties": {"C01": "contract", "C05": "contract", "C19": "safety"},
 "mode": "harness",
 "replace_calls": {"assignexpr": "stub_assignexpr"}, "link_repo": ["type.c"],
 "unwind": 6,
 "kind": "bounded",
 "bound": "assignment-expression (',' assignment-expression){0..3} terminator; each operand an arbitrary node (kind, lvalue-ness, qualifiers, decayed flag arbitrary) of one of six types (int, char, double, void, a pointer type, a struct type); any terminator token other than ','",
 "timeout": 200, "replay": false,
 "expects": ["assertion_verif"],
 "assumes": ["next() is a token-script stand-in; assignexpr() is replaced by a stand-in that takes one operand token and returns the next prepared operand node with ->next == NULL (every node the parser returns comes from mkexpr(), which clears ->next; assignment expressions proper: EXPR.mkassign, EXPR.assignexpr.compound)",
             "operands have decayed (6.3.2.1p3/p4 is applied where the primary expression is parsed: EXPR.decay)"]
}
*/
#include <stdlib.h>
#include "expr.c"
#include "verif.h"

struct token tok;
const struct target *targ;
extern int g_no_error;
struct expr *eval(struct expr *e) { return e; }

#ifndef NOPND
#define NOPND 4
#endif
#define NTOK (2 * NOPND + 1)

static enum tokenkind s_kind[NTOK];
static unsigned s_n, s_pos;

void
next(void)
{
	__CPROVER_assert(s_pos < s_n, "expr() does not read past the token that ends the expression");
	__CPROVER_assume(s_pos < s_n);
	tok.kind = s_kind[s_pos];
	tok.lit = 0;
	tok.loc.file = "in.c"; tok.loc.line = 1; tok.loc.col = s_pos;
	s_pos++;
}

static struct expr *g_opnd[NOPND + 1];
static unsigned g_nassign;
static bool g_atoperand = true;

struct expr *
stub_assignexpr(struct scope *s)
{
	struct expr *e;

	if (tok.kind != TIDENT || tok.loc.col != 2 * g_nassign)
		g_atoperand = false;
	__CPROVER_assert(g_nassign < NOPND, "no more operands parsed than the source has");
	__CPROVER_assume(g_nassign < NOPND);
	e = g_opnd[g_nassign++];
	next();
	return e;
}

static struct type ty_ptr, ty_struct;
static struct type *
pick(unsigned k)
{
	switch (k) {
	case 0: return &typeint;
	case 1: return &typechar;
	case 2: return &typedouble;
	case 3: return &typevoid;
	case 4: return &ty_ptr;
	}
	return &ty_struct;
}

static struct expr *
mkopnd(unsigned ty, unsigned kind, bool lvalue, unsigned qual, bool decayed)
{
	struct expr *e = malloc(sizeof(*e));

	__CPROVER_assume(e != 0);
	e->kind = kind;
	e->type = pick(ty);
	e->lvalue = lvalue;
	e->qual = qual;
	e->decayed = decayed;
	e->base = 0;
	e->next = 0;
	e->toeval = 0;
	e->op = TNONE;
	return e;
}

/* read through parameters (CONVENTIONS 6) */
static struct expr *next_(struct expr *e) { return e->next; }

void
harness(void)
{
	IN(unsigned, in_n); IN(int, in_term);
	IN(unsigned, in_ty0); IN(unsigned, in_ty1); IN(unsigned, in_ty2); IN(unsigned, in_ty3);
	IN(unsigned, in_k0); IN(unsigned, in_k1); IN(unsigned, in_k2); IN(unsigned, in_k3);
	IN(bool, in_lv0); IN(bool, in_lv1); IN(bool, in_lv2); IN(bool, in_lv3);
	IN(unsigned, in_q0); IN(unsigned, in_q1); IN(unsigned, in_q2); IN(unsigned, in_q3);
	IN(bool, in_d0); IN(bool, in_d1); IN(bool, in_d2); IN(bool, in_d3);
	static struct scope sc;
	struct expr *res, *p, *last;
	struct type *lastty;
	unsigned k, lastkind, lastqual;
	bool lastlv, lastdec;
	unsigned ty[4], kd[4], q[4]; bool lv[4], dc[4];

	__CPROVER_assume(in_n >= 1 && in_n <= NOPND);
	__CPROVER_assume(in_term >= TNONE && in_term <= THASHHASH && in_term != TCOMMA);
	__CPROVER_assume(in_ty0 < 6 && in_ty1 < 6 && in_ty2 < 6 && in_ty3 < 6);
	__CPROVER_assume(in_k0 <= EXPRTEMP && in_k1 <= EXPRTEMP && in_k2 <= EXPRTEMP && in_k3 <= EXPRTEMP);
	__CPROVER_assume(in_q0 <= 7 && in_q1 <= 7 && in_q2 <= 7 && in_q3 <= 7);
	ty[0] = in_ty0; ty[1] = in_ty1; ty[2] = in_ty2; ty[3] = in_ty3;
	kd[0] = in_k0; kd[1] = in_k1; kd[2] = in_k2; kd[3] = in_k3;
	q[0] = in_q0; q[1] = in_q1; q[2] = in_q2; q[3] = in_q3;
	lv[0] = in_lv0; lv[1] = in_lv1; lv[2] = in_lv2; lv[3] = in_lv3;
	dc[0] = in_d0; dc[1] = in_d1; dc[2] = in_d2; dc[3] = in_d3;

	ty_ptr.kind = TYPEPOINTER; ty_ptr.base = &typeint; ty_ptr.size = 8; ty_ptr.align = 8; ty_ptr.prop = PROPSCALAR;
	ty_struct.kind = TYPESTRUCT; ty_struct.size = 8; ty_struct.align = 4;

	/* the script  a0 , a1 , ... TERM */
	for (k = 0; k < NOPND; k++) {
		if (k < in_n) {
			g_opnd[k] = mkopnd(ty[k], kd[k], lv[k], q[k], dc[k]);
			s_kind[2 * k] = TIDENT;
			s_kind[2 * k + 1] = k + 1 < in_n ? TCOMMA : (enum tokenkind)in_term;
		}
	}
	s_n = 2 * in_n;
	s_pos = 0;
	g_nassign = 0;
	g_no_error = 1;
	next();
	last = g_opnd[0];
	for (k = 0; k < NOPND; k++)
		if (k < in_n) last = g_opnd[k];
	lastty = last->type; lastkind = last->kind; lastlv = last->lvalue; lastqual = last->qual; lastdec = last->decayed;

	res = expr(&sc);

	__CPROVER_assert(g_atoperand && g_nassign == in_n, "C11 6.5.17 (syntax): the operands are the assignment-expressions between the commas, each parsed once, in source order");
	__CPROVER_assert(tok.kind == (enum tokenkind)in_term && s_pos == s_n, "the expression ends at the first token after an operand that is not ','; that token is current and nothing after it has been read");
	if (in_n == 1) {
		__CPROVER_assert(res == g_opnd[0], "an expression without a comma operator is its assignment-expression");
		__CPROVER_assert(res->type == lastty && res->kind == lastkind && res->lvalue == lastlv && res->qual == lastqual && res->decayed == lastdec && res->next == 0,
			"... unchanged (still an lvalue if it was one, same type and qualifiers)");
	} else {
		bool fresh = true;
		for (k = 0; k < NOPND; k++)
			if (k < in_n && res == g_opnd[k]) fresh = false;
		__CPROVER_assert(fresh && res->kind == EXPRCOMMA, "a comma expression is a new node");
		__CPROVER_assert(res->type == lastty, "C11 6.5.17p2: the result has the type (and value) of the right operand");
		__CPROVER_assert(!res->lvalue, "C11 6.5.17p2 footnote 114: a comma operator does not yield an lvalue");
		__CPROVER_assert(res->qual == QUALNONE, "C11 6.3.2.1p2: the value of the right operand has the unqualified version of its type");
		__CPROVER_assert(!res->decayed, "the result is not itself a decayed array or function (sizeof (0, a) is the size of a pointer, 6.3.2.1p3)");
		__CPROVER_assert(res->next == 0 && res->toeval == 0, "the new node is not linked into any list");
		/* C11 6.5.17p2: left operand evaluated (as a void expression) before the right one: the list is in source order */
		p = res->base;
		for (k = 0; k < NOPND; k++) {
			if (k < in_n) {
				__CPROVER_assert(p == g_opnd[k], "C11 6.5.17p2: the operands are evaluated left to right: k-th element of the operand list is the k-th operand");
				p = next_(g_opnd[k]);
			}
		}
		__CPROVER_assert(p == 0, "the operand list ends after the last operand");
		__CPROVER_assert(last->type == lastty && last->kind == lastkind && last->lvalue == lastlv && last->qual == lastqual, "the operands themselves are not modified");
	}
#ifdef VERIF_CANARY
	__CPROVER_assert(!(in_n == 3 && in_ty2 == 4 && in_lv2), "CANARY");
#endif
}
