/* UNIT
{
 "id": "EXPR.nullptr.qualvoid",
 "file": "expr.c", "function": "nullpointer",
 "properties": {"C05": "contract", "C10": "contract", "C19": "safety"},
 "mode": "harness",
 "kind": "proof",
 "unwindset": ["recorded.0:9", "tysel.0:27"],
 "link_repo": ["type.c"], "cflags": ["-DVERIF_OWN_XMALLOC"],
 "timeout": 120,
 "expects": ["assertion_verif"],
 "replay": false,
 "assumes": ["as EXPR.nullptr.const; this unit takes exactly the inputs that one leaves out: a zero constant whose type is pointer to const/volatile/restrict-qualified void, e.g. (const void *)0, which C11 6.3.2.3p3 does NOT make a null pointer constant ('cast to type void *')"]
}
*/
#define NP_CASE   (QUALVOID0)
#define NP_CANARY (g_oq == QUALCONST)
#include "nullpointer_common.h"
