/* UNIT
{
 "id": "EXPR.conv.commonreal",
 "file": "expr.c", "function": "commonreal", "also_functions": ["bitfieldwidth", "exprconvert", "mkexpr", "typecommonreal", "typepromote", "typerank", "typecompatible"],
 "properties": {"C05": "contract", "C01": "contract", "C19": "safety"},
 "mode": "harness",
 "kind": "proof-const-unwind",
 "unwindset": ["typecompatible.0:1", "typecompatible:3", "recorded.0:9", "tysel.0:27"],
 "link_repo": ["type.c"], "cflags": ["-DVERIF_OWN_XMALLOC", "-DU_ARITH"],
 "timeout": 300,
 "expects": ["assertion_verif"],
 "replay": false,
 "assumes": ["both operands have arithmetic type (the call sites in mkbinaryexpr and condexpr check this first): the 15 arithmetic types, two enumerated types with arbitrary compatible integer type, bit-fields of every width and position, constants, plain char signed or unsigned",
             "bit-fields declared with a type wider than int promote by width when width <= 32 (implementation-defined 6.7.2.1p5; gcc's rule, as TYPE.promote)",
             "where 6.3.1.8 names a type that an enumerated type is compatible with, the enumerated type itself is accepted (no value or representation change)",
             "typecommonreal()/typepromote()/typecompatible() are the real ones (type.c linked; TYPE.commonreal, TYPE.promote, TYPE.compat)"]
}
*/
#include "expr.c"
#include "verif.h"
#include "../expr/mkbinary_common.h"

int g_common;                      /* oracle: spec_common() of the two operands */
struct nodeobs g_o1, g_o2;         /* *e1, *e2 after the call */
int g_retsel;                      /* TSEL of the returned type */
struct expr *g_e1slot, *g_e2slot;

#define PRE(X) \
	X(e1 == &g_e1slot && e2 == &g_e2slot && *e1 == g_l && *e2 == g_r && g_l != g_r) \
	X(g_enAb <= AT_ULLONG && g_enBb <= AT_ULLONG) \
	X(TS_ISARITH(g_lts) && TS_ISARITH(g_rts) && g_lek < EK_N && g_rek < EK_N) \
	X(IMP(g_lek == EK_BITFIELD, TS_ISINT(g_lts) && g_lw >= 1 && g_lw <= 8 * spec_at_size(LC))) \
	X(IMP(g_rek == EK_BITFIELD, TS_ISINT(g_rts) && g_rw >= 1 && g_rw <= 8 * spec_at_size(RC))) \
	X(IMP(g_lek != EK_BITFIELD, g_lw == SPEC_NOBF)) \
	X(IMP(g_rek != EK_BITFIELD, g_rw == SPEC_NOBF)) \
	X(g_l->type == g_lt && g_r->type == g_rt && g_l->kind == g_lkind && g_r->kind == g_rkind)

#define POST(X) \
	/* C11 6.3.1.8p1: "... a common real type for the operands and result": the returned type is the one the usual \
	   arithmetic conversions name (floating ranks first, else integer promotions and the five integer rules) */ \
	X(TSIS(g_retsel, g_common)) \
	/* "Each operand is converted ... to a type whose corresponding real type is the common real type": the operand \
	   itself when it already has that type, else a new conversion node over it */ \
	X(CONV(g_o1, W_L, g_lts, g_common)) \
	X(CONV(g_o2, W_R, g_rts, g_common)) \
	/* a conversion node carries exactly the returned type object */ \
	X(IMP(g_o1.who == W_NEW, g_o1.ts == g_retsel && !g_o1.lvalue)) \
	X(IMP(g_o2.who == W_NEW, g_o2.ts == g_retsel && !g_o2.lvalue)) \
	/* left stays left, right stays right (the operators are not all commutative) */ \
	X(g_o1.who != W_R && g_o1.base != W_R && g_o2.who != W_L && g_o2.base != W_L) \
	/* a bit-field narrower than int, a _Bool, a char, a short never survives unconverted (6.3.1.1p2 applies first) */ \
	X(IMP(spec_at_isint(g_common), g_common == AT_INT || g_common == AT_UINT || spec_at_rank(g_common) > spec_at_rank(AT_INT))) \
	POST_FRAME(X) \
	CANARY(X, !(g_lts == AT_UINT && g_lek == EK_BITFIELD && g_lw == 31 && g_rts == AT_SHORT))

void
harness(void)
{
	struct mkb_in in;
	struct expr *l, *r, **e1 = &g_e1slot, **e2 = &g_e2slot;
	struct type *ret;
	IN(bool, in_signedchar); IN(unsigned, in_enAb); IN(unsigned, in_enBb);
	IN(unsigned, in_lts); IN(unsigned, in_lek); IN(unsigned, in_lw); IN(unsigned, in_lafter); IN(u64, in_lv); IN(bool, in_llv);
	IN(unsigned, in_rts); IN(unsigned, in_rek); IN(unsigned, in_rw); IN(unsigned, in_rafter); IN(u64, in_rv); IN(bool, in_rlv);

	in.signedchar = in_signedchar; in.enAb = in_enAb; in.enBb = in_enBb;
	in.lts = in_lts; in.lbs = 0; in.lq = 0; in.lek = in_lek; in.lw = in_lw; in.lafter = in_lafter; in.lv = in_lv; in.llv = in_llv;
	in.rts = in_rts; in.rbs = 0; in.rq = 0; in.rek = in_rek; in.rw = in_rw; in.rafter = in_rafter; in.rv = in_rv; in.rlv = in_rlv;
	mkb_build(&in, &l, &r);
	g_e1slot = l; g_e2slot = r;
	g_common = spec_common(LC, g_lw, RC, g_rw, g_signedchar);
	g_nalloc = 0;
	HCALLR(struct type *, PRE, POST, (ret = commonreal(e1, e2), g_retsel = tysel(ret), observe(&g_o1, g_e1slot), observe(&g_o2, g_e2slot), ret));
}
