/* UNIT
{
 "id": "EXPR.conv.exprconvert",
 "file": "expr.c", "function": "exprconvert", "also_functions": ["mkexpr", "typecompatible"],
 "properties": {"C05": "contract", "C01": "contract", "C19": "safety"},
 "mode": "harness",
 "kind": "proof-const-unwind",
 "unwindset": ["typecompatible.0:1", "typecompatible:3", "recorded.0:9", "tysel.0:27"],
 "link_repo": ["type.c"], "cflags": ["-DVERIF_OWN_XMALLOC"],
 "timeout": 200,
 "expects": ["assertion_verif"],
 "replay": false,
 "assumes": ["type universe of units/expr/expr_util.h for the operand AND for the target type (arithmetic types, two enumerated types with arbitrary compatible integer type, void, struct/union types, nullptr_t, pointers with arbitrary qualifiers to any of these and to function/array/pointer types)",
             "typecompatible() is the real one (proved against 6.2.7 by TYPE.compat)"]
}
*/
#include "expr.c"
#include "verif.h"
#include "../expr/expr_util.h"

/* ghosts: operand e (selector g_ots; if a pointer: referenced type g_obs, qualifiers g_oq) and target type t (g_tts, g_tbs, g_tq) */
unsigned g_ots, g_obs, g_oq, g_oek;
unsigned g_tts, g_tbs, g_tq;
bool g_olv;
int g_okind;
struct nodeobs g_ox;

#define TS_ANY(ts) ((ts) < TS_N && (ts) != BS_PI)

/* C11 6.2.7p1 with 6.7.2.2p4 (enum ~ its compatible integer type), 6.7.6.1p2 (pointers: identically qualified pointers to
   compatible types), 6.7.6.2p6 (arrays) on the universe */
#define SPEC_COMPAT \
	((g_ots < BS_N && g_tts < BS_N) ? spec_bscompat(g_ots, g_tts) : \
	 (g_ots == TS_PTR && g_tts == TS_PTR) ? (g_oq == g_tq && spec_bscompat(g_obs, g_tbs)) : \
	 (g_ots == TS_NULLPTR && g_tts == TS_NULLPTR))
/* TSEL of the target type object */
#define T_SEL (g_tts < BS_N ? (int)g_tts : g_tts == TS_PTR ? TSEL_R : TSEL_NULLPTR)

#define PRE(X) \
	X(e != 0 && e == g_l && e->type == g_lt && t != 0 && t == g_rt) \
	X(TS_ANY(g_ots) && TS_ANY(g_tts) && g_oek < EK_N && g_enAb <= AT_ULLONG && g_enBb <= AT_ULLONG) \
	X(IMP(g_ots == TS_PTR, g_obs < BS_N && g_oq <= QUALMAX)) \
	X(IMP(g_tts == TS_PTR, g_tbs < BS_N && g_tq <= QUALMAX)) \
	X(IMP(g_oek == EK_BITFIELD, TS_ISINT(g_ots)))

#define POST(X) \
	/* a conversion to a compatible type changes neither value nor representation: the operand itself is the result */ \
	X(IMP(SPEC_COMPAT, g_ox.who == W_L)) \
	/* C11 6.3p1, 6.5.4: otherwise the result is the operand CONVERTED to the target type: a new conversion node ... */ \
	X(IMP(!SPEC_COMPAT, g_ox.who == W_NEW && g_ox.kind == EXPRCAST)) \
	/* ... over that operand ... */ \
	X(IMP(!SPEC_COMPAT, g_ox.base == W_L)) \
	/* ... whose type is the target type object ... */ \
	X(IMP(!SPEC_COMPAT, g_ox.ts == T_SEL)) \
	/* ... which is not an lvalue (6.5.4 footnote 104; 6.3.2.1p2), is unqualified, and is not a decayed array */ \
	X(IMP(!SPEC_COMPAT, !g_ox.lvalue && g_ox.qual == QUALNONE && !g_ox.decayed)) \
	/* the operand is not modified */ \
	X(g_l->type == g_lt && (int)g_l->kind == g_okind && g_l->lvalue == g_olv) \
	X(g_nalloc == (SPEC_COMPAT ? 0u : 1u)) \
	CANARY(X, !(g_ots == AT_INT && g_tts == TS_PTR && g_tbs == BS_VOID))

static struct expr *
obs(struct expr *r)
{
	observe(&g_ox, r);
	return r;
}

void
harness(void)
{
	static struct type ty_po, ty_pt;
	struct expr *e;
	struct type *ot, *t;
	IN(bool, in_signedchar); IN(unsigned, in_enAb); IN(unsigned, in_enBb);
	IN(unsigned, in_ots); IN(unsigned, in_obs); IN(unsigned, in_oq); IN(unsigned, in_oek); IN(u64, in_ov); IN(bool, in_olv);
	IN(unsigned, in_tts); IN(unsigned, in_tbs); IN(unsigned, in_tq);

	__CPROVER_assume(in_enAb <= AT_ULLONG && in_enBb <= AT_ULLONG);
	__CPROVER_assume(in_ots < TS_N && in_obs < BS_N && in_oq <= QUALMAX && in_oek < EK_N);
	__CPROVER_assume(in_tts < TS_N && in_tbs < BS_N && in_tq <= QUALMAX);
	build_universe(in_signedchar, in_enAb, in_enBb);
	g_ots = in_ots; g_obs = in_obs; g_oq = in_oq; g_oek = in_oek;
	g_tts = in_tts; g_tbs = in_tbs; g_tq = in_tq;
	ot = optype(in_ots, &ty_po, in_obs, in_oq);
	t = optype(in_tts, &ty_pt, in_tbs, in_tq);
	e = mk_operand(in_oek, ot, in_ov, 0, 8 * (unsigned)ot->size - 1, in_olv, QUALNONE);
	g_l = e; g_r = 0; g_lt = ot; g_rt = t;
	g_olv = in_olv; g_okind = e->kind;
	g_nalloc = 0;
	HCALLR(struct expr *, PRE, POST, obs(exprconvert(e, t)));
}
