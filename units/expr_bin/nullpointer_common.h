/*
 * nullpointer_common.h -- contract of expr.c:nullpointer() on FOLDED operands, shared by EXPR.nullptr.const (everything
 * except zero constants of type pointer to QUALIFIED void) and EXPR.nullptr.qualvoid (exactly those).
 * The including unit defines NP_CASE (a PRE clause selecting its part of the input space) and NP_CANARY.
 */
#include "expr.c"
#include "verif.h"
#include "../expr/expr_util.h"

unsigned g_ots, g_obs, g_oq, g_oek;
u64 g_ov;
int g_okind;

#define TS_OPERAND(ts) ((ts) < TS_N && (ts) != BS_FN && (ts) != BS_ARR3 && (ts) != BS_ARRINC && (ts) != BS_PI)
/* a zero constant whose type is pointer to qualified void, e.g. (const void *)0 */
#define QUALVOID0 (g_oek == EK_CONST && g_ots == TS_PTR && g_obs == BS_VOID && g_oq != QUALNONE && g_ov == 0)

#define PRE(X) \
	X(NP_CASE) \
	X(e != 0 && e == g_l && e->type == g_lt) \
	X(TS_OPERAND(g_ots) && g_oek < EK_N && g_enAb <= AT_ULLONG && g_enBb <= AT_ULLONG) \
	X(IMP(g_ots == TS_PTR, g_obs < BS_N && g_oq <= QUALMAX)) \
	X(IMP(g_oek == EK_BITFIELD, TS_ISINT(g_ots))) \
	X(IMP(g_oek == EK_CONST, TS_ISSCALAR(g_ots)))

#define POST(X) \
	/* C11 6.3.2.3p3: "An integer constant expression with the value 0, or such an expression cast to type void *, is \
	   called a null pointer constant"; C23 6.3.2.3p3 adds the predefined constant nullptr.  On a folded operand: */ \
	/* - not a constant: not a null pointer constant (an lvalue of value 0, a bit-field, ... is not one) */ \
	X(IMP(g_oek != EK_CONST, !HRET)) \
	/* - nullptr is one */ \
	X(IMP(g_oek == EK_CONST && g_ots == TS_NULLPTR, HRET)) \
	/* - an integer constant (any integer type incl. _Bool, character and enumerated types) is one iff its value is 0 */ \
	X(IMP(g_oek == EK_CONST && TS_ISINT(g_ots), HRET == (g_ov == 0))) \
	/* - a floating constant never is (6.6p6: not an integer constant expression) */ \
	X(IMP(g_oek == EK_CONST && TS_ISFLT(g_ots), !HRET)) \
	/* - a constant of pointer type is one iff it is 0 cast to (unqualified) void * */ \
	X(IMP(g_oek == EK_CONST && g_ots == TS_PTR, HRET == (g_ov == 0 && g_obs == BS_VOID && g_oq == QUALNONE))) \
	/* the whole definition at once */ \
	X(HRET == SPEC_ISNPC(g_oek, g_ots, g_obs, g_oq, g_ov)) \
	/* pure: the operand is not modified */ \
	X(g_l->type == g_lt && (int)g_l->kind == g_okind && IMP(g_oek == EK_CONST, g_l->u.constant.u == g_ov)) \
	CANARY(X, !(NP_CANARY))

void
harness(void)
{
	static struct type ty_po;
	struct expr *e;
	struct type *ot;
	IN(bool, in_signedchar); IN(unsigned, in_enAb); IN(unsigned, in_enBb);
	IN(unsigned, in_ots); IN(unsigned, in_obs); IN(unsigned, in_oq); IN(unsigned, in_oek); IN(u64, in_ov); IN(bool, in_olv);

	__CPROVER_assume(in_enAb <= AT_ULLONG && in_enBb <= AT_ULLONG);
	__CPROVER_assume(in_ots < TS_N && in_obs < BS_N && in_oq <= QUALMAX && in_oek < EK_N);
	build_universe(in_signedchar, in_enAb, in_enBb);
	g_ots = in_ots; g_obs = in_obs; g_oq = in_oq; g_oek = in_oek; g_ov = in_ov;
	ot = optype(in_ots, &ty_po, in_obs, in_oq);
	e = mk_operand(in_oek, ot, in_ov, 0, 8 * (unsigned)ot->size - 1, in_olv, QUALNONE);
	g_l = e; g_r = 0; g_lt = ot; g_rt = 0;
	g_okind = e->kind;
	HCALLR(bool, PRE, POST, nullpointer(e));
}
