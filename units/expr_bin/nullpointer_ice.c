/* UNIT
{
 "id": "EXPR.nullptr.ice",
 "file": "expr.c", "function": "exprassign", "also_functions": ["nullpointer", "exprconvert", "mkexpr", "eval"],
 "properties": {"C01": "contract", "C05": "contract", "C19": "safety"},
 "mode": "harness",
 "kind": "proof-const-unwind",
 "unwindset": ["typecompatible.0:1", "typecompatible:3", "recorded.0:9", "tysel.0:27", "eval:3"],
 "link_repo": ["type.c", "eval.c"], "cflags": ["-DVERIF_OWN_XMALLOC"],
 "timeout": 200,
 "expects": ["assertion_verif"],
 "replay": false,
 "assumes": ["the right operand is an integer constant expression of value 0 in one of five spellings, as the parser builds them BEFORE folding: a literal 0; a - b with equal int constants (mkbinaryexpr); -0 (unaryexpr); (long)0 (castexpr); an enumeration constant of value 0 (primaryexpr)",
             "the target is a pointer type with arbitrary qualifiers and referenced type (universe of units/expr/expr_util.h); eval() is the REAL folder (eval.c linked)"]
}
*/
#define EXPR_OWN_EVAL
#include "expr.c"
#include "verif.h"
#include "../expr/expr_util.h"

struct token tok;
unsigned g_shape, g_tbs, g_tq;
struct nodeobs g_ox;

enum { SH_LIT, SH_SUB, SH_NEG, SH_CAST, SH_ENUMCONST, SH_N };

#define PRE(X) \
	X(e != 0 && e == g_l && t != 0 && t == g_rt && g_shape < SH_N) \
	X(g_tbs < BS_N && g_tq <= QUALMAX && g_enAb <= AT_ULLONG && g_enBb <= AT_ULLONG)

#define POST(X) \
	/* C11 6.5.16.1p1 (simple assignment; by reference also initialization 6.7.9p11, argument passing 6.5.2.2p7, return \
	   6.8.6.4p3): "the left operand is an atomic, qualified, or unqualified pointer, and the right is a null pointer \
	   constant" is permitted; 6.3.2.3p3: a null pointer constant is ANY integer constant expression with the value 0. \
	   That such an operand is accepted at all is the g_no_error obligation (verif_noreturn.assertion.1). */ \
	/* 6.5.16.1p2: the value of the right operand is converted to the type of the assignment expression */ \
	X(g_ox.ts == TSEL_R) \
	X(g_ox.who == W_NEW && g_ox.kind == EXPRCAST && g_ox.base == W_L) \
	CANARY(X, !(g_shape == SH_SUB && g_tbs == BS_S1))

static struct expr *
node(enum exprkind k, struct type *t)
{
	struct expr *e = malloc(sizeof(*e));

	__CPROVER_assume(e != 0);
	memset(e, 0, sizeof(*e));
	e->kind = k;
	e->type = t;
	return e;
}

static struct expr *
obs(struct expr *r)
{
	observe(&g_ox, r);
	return r;
}

void
harness(void)
{
	static struct type ty_pt;
	static struct decl dconst;
	struct expr *e, *a, *b;
	struct type *t;
	IN(bool, in_signedchar); IN(unsigned, in_enAb); IN(unsigned, in_enBb);
	IN(unsigned, in_shape); IN(unsigned, in_tbs); IN(unsigned, in_tq); IN(u64, in_a);

	__CPROVER_assume(in_enAb <= AT_ULLONG && in_enBb <= AT_ULLONG);
	__CPROVER_assume(in_shape < SH_N && in_tbs < BS_N && in_tq <= QUALMAX);
	__CPROVER_assume(in_a == (u64)(i64)(int)in_a);           /* an int constant, canonical carrier */
	build_universe(in_signedchar, in_enAb, in_enBb);
	g_shape = in_shape; g_tbs = in_tbs; g_tq = in_tq;
	t = optype(TS_PTR, &ty_pt, in_tbs, in_tq);

	switch (in_shape) {
	case SH_LIT:        /* 0 */
		e = node(EXPRCONST, &typeint);
		e->u.constant.u = 0;
		break;
	case SH_SUB: {      /* a - a */
		__typeof__(e->u.binary) bin;
		a = node(EXPRCONST, &typeint); a->u.constant.u = in_a;
		b = node(EXPRCONST, &typeint); b->u.constant.u = in_a;
		e = node(EXPRBINARY, &typeint);
		e->op = TSUB;
		bin.l = a; bin.r = b;
		e->u.binary = bin;
		break;
	}
	case SH_NEG:        /* -0 */
		a = node(EXPRCONST, &typeint); a->u.constant.u = 0;
		e = node(EXPRUNARY, &typeint);
		e->op = TSUB;
		e->base = a;
		break;
	case SH_CAST:       /* (long)0 */
		a = node(EXPRCONST, &typeint); a->u.constant.u = 0;
		e = node(EXPRCAST, &typelong);
		e->base = a;
		break;
	default:            /* enum { Z }; ... Z */
		dconst.kind = DECLCONST; dconst.type = &typeint; dconst.u.enumconst = 0;
		e = node(EXPRIDENT, &typeint);
		e->u.ident.decl = &dconst;
		break;
	}
	g_l = e; g_r = 0; g_lt = e->type; g_rt = t;
	g_nalloc = 0;
	g_no_error = 1;           /* a conforming assignment: any diagnostic is a failed obligation */
	HCALLR(struct expr *, PRE, POST, obs(exprassign(e, t)));
}
