/* UNIT
{
 "id": "EXPR.designator.bnd",
 "file": "expr.c", "function": "designator",
 "properties": {"C04": "contract", "C10": "contract", "C19": "safety"},
 "mode": "harness",
 "replace_calls": {"intconstexpr": "stub_intconstexpr"},
 "unwind": 5, "cbmc_flags": ["--sat-solver", "cadical"],
 "kind": "bounded",
 "bound": "a member-designator tail of 0..3 designators, each `[ constant-expression ]` or `. identifier`, then any terminator token other than `[` and `.`; the type at each step an array, struct, union or scalar (int) type; index values and element sizes < 2^8, member offsets and the start offset < 2^16 (no 64-bit wrap-around exercised)",
 "timeout": 200, "replay": false,
 "expects": ["assertion_verif"],
 "assumes": ["next()/expect() are token-script stand-ins (expect(TIDENT) returns a heap-allocated spelling, as scan.c does, or diagnoses)",
             "intconstexpr(s, allowneg) is replaced by a stand-in that takes one constant-expression token and returns the prepared value, diagnosing a negative value unless allowneg (its contract: EXPR.intconstexpr)",
             "typemember() is a stand-in with TYPE.member's contract: the designated member and *offset increased by its offset, or NULL and *offset unchanged",
             "an index applied to a POINTER member (offsetof(struct S, p[1])) is undefined (7.19p3), not a constraint violation: not exercised"]
}
*/
#include <stdlib.h>
#include "expr.c"
#include "verif.h"

struct token tok;
const struct target *targ;
extern int g_no_error;
struct expr *eval(struct expr *e) { return e; }

#define ND 3
#define NTOK (3 * ND + 1)

static enum tokenkind s_kind[NTOK];
static char *s_lit[NTOK];
static bool s_skip[NTOK];          /* slot not used (a `. identifier` designator has two tokens, `[ n ]` three) */
static unsigned s_n, s_pos;

void
next(void)
{
	__CPROVER_assert(s_pos < s_n, "designator() does not read past the token that ends the member-designator");
	__CPROVER_assume(s_pos < s_n);
	if (s_skip[s_pos])
		s_pos++;
	tok.kind = s_kind[s_pos];
	tok.lit = s_lit[s_pos];
	tok.loc.file = "in.c"; tok.loc.line = 1; tok.loc.col = s_pos;
	s_pos++;
}

char *
expect(enum tokenkind k, const char *msg)
{
	char *lit;

	if (tok.kind != k)
		verif_noreturn();
	lit = tok.lit;
	next();
	return lit;
}

/* the type at each step, the member found at each `.` step */
static struct type ty[ND + 1];
static struct member memb[ND];
static bool g_found[ND];
static u64 g_idx[ND]; static bool g_neg[ND];
static unsigned g_step;             /* designators completed so far (concrete during symbolic execution) */
static unsigned g_nidx, g_nmemb;
static bool g_calls_ok = true;
static unsigned long long *g_offp;
static char *g_name[ND];

unsigned long long
stub_intconstexpr(struct scope *s, bool allowneg)
{
	unsigned k = g_step;

	__CPROVER_assert(k < ND, "no more designators than the source has");
	__CPROVER_assume(k < ND);
	if (tok.kind != TNUMBER || allowneg)
		g_calls_ok = false;         /* the index is parsed at the token after `[`, as a NONNEGATIVE constant */
	if (g_neg[k] && !allowneg)
		verif_noreturn();           /* EXPR.intconstexpr: diagnosed */
	g_nidx++;
	g_step++;
	next();
	return g_idx[k];
}

struct member *
typemember(struct type *t, const char *name, unsigned long long *offset)
{
	unsigned k = g_step;

	__CPROVER_assert(k < ND, "no more designators than the source has");
	__CPROVER_assume(k < ND);
	__CPROVER_assert(t->kind == TYPESTRUCT || t->kind == TYPEUNION, "typemember() precondition (assert in type.c): struct or union type");
	if (t != &ty[k] || offset != g_offp || name != g_name[k] || name[0] != 'a' + (char)k)
		g_calls_ok = false;         /* looked up in the CURRENT type, under the spelling of the identifier, adding to the caller's offset */
	g_nmemb++;
	g_step++;
	if (!g_found[k])
		return 0;
	*offset += memb[k].offset;
	return &memb[k];
}

enum { K_ARRAY, K_STRUCT, K_UNION, K_SCALAR, K_N };
static enum typekind kindof(unsigned k) { return k == K_ARRAY ? TYPEARRAY : k == K_STRUCT ? TYPESTRUCT : k == K_UNION ? TYPEUNION : TYPEINT; }

void
harness(void)
{
	IN(unsigned, in_n); IN(int, in_term); IN(u64, in_off0);
	IN(bool, in_d0); IN(bool, in_d1); IN(bool, in_d2);                 /* designator k is an index (else a member) */
	IN(unsigned, in_k0); IN(unsigned, in_k1); IN(unsigned, in_k2);      /* kind of the type designator k applies to */
	IN(u64, in_i0); IN(u64, in_i1); IN(u64, in_i2);                     /* index values */
	IN(bool, in_neg0); IN(bool, in_neg1); IN(bool, in_neg2);
	IN(bool, in_f0); IN(bool, in_f1); IN(bool, in_f2);                 /* member found */
	IN(u64, in_m0); IN(u64, in_m1); IN(u64, in_m2);                     /* member offsets */
	IN(u64, in_s1); IN(u64, in_s2); IN(u64, in_s3);                     /* sizes of the types after step 0, 1, 2 */
	static struct scope sc;
	bool isidx[ND], wellformed;
	unsigned kd[ND], k, pos;
	u64 iv[ND], mo[ND], sz[ND + 1], want;
	unsigned long long offset;

	__CPROVER_assume(in_n <= ND && in_k0 < K_N && in_k1 < K_N && in_k2 < K_N);
	__CPROVER_assume(in_term >= TNONE && in_term <= THASHHASH && in_term != TLBRACK && in_term != TPERIOD);
	__CPROVER_assume(in_off0 < 65536 && in_i0 < 256 && in_i1 < 256 && in_i2 < 256 && in_m0 < 65536 && in_m1 < 65536 && in_m2 < 65536);
	__CPROVER_assume(in_s1 < 256 && in_s2 < 256 && in_s3 < 256);
	isidx[0] = in_d0; isidx[1] = in_d1; isidx[2] = in_d2;
	kd[0] = in_k0; kd[1] = in_k1; kd[2] = in_k2;
	iv[0] = in_i0; iv[1] = in_i1; iv[2] = in_i2;
	g_neg[0] = in_neg0; g_neg[1] = in_neg1; g_neg[2] = in_neg2;
	g_found[0] = in_f0; g_found[1] = in_f1; g_found[2] = in_f2;
	mo[0] = in_m0; mo[1] = in_m1; mo[2] = in_m2;
	sz[0] = 0; sz[1] = in_s1; sz[2] = in_s2; sz[3] = in_s3;

	/* the types: ty[k] is what designator k applies to; an array's element type / a member's type is ty[k+1] */
	for (k = 0; k < ND; k++) {
		ty[k].kind = kindof(kd[k]);
		ty[k].size = sz[k];
		ty[k].base = kd[k] == K_ARRAY ? &ty[k + 1] : 0;
		memb[k].type = &ty[k + 1];
		memb[k].offset = mo[k];
		memb[k].name = 0;
		g_idx[k] = iv[k];
	}
	ty[ND].kind = TYPEINT; ty[ND].size = sz[ND];

	/* the script */
	for (k = 0; k < ND; k++) {
		pos = 3 * k;
		g_name[k] = 0;
		if (k < in_n) {
			if (isidx[k]) {
				s_kind[pos] = TLBRACK; s_lit[pos] = 0; s_skip[pos] = false;
				s_kind[pos + 1] = TNUMBER; s_lit[pos + 1] = 0; s_skip[pos + 1] = false;
				s_kind[pos + 2] = TRBRACK; s_lit[pos + 2] = 0; s_skip[pos + 2] = false;
			} else {
				g_name[k] = malloc(2);
				__CPROVER_assume(g_name[k] != 0);
				g_name[k][0] = 'a' + (char)k; g_name[k][1] = 0;
				s_kind[pos] = TPERIOD; s_lit[pos] = 0; s_skip[pos] = false;
				s_kind[pos + 1] = TIDENT; s_lit[pos + 1] = g_name[k]; s_skip[pos + 1] = false;
				s_skip[pos + 2] = true;
			}
		} else if (k == in_n) {
			s_kind[pos] = in_term; s_lit[pos] = 0; s_skip[pos] = false;
		}
	}
	if (in_n == ND) { s_kind[3 * ND] = in_term; s_lit[3 * ND] = 0; s_skip[3 * ND] = false; }
	s_n = 3 * in_n + 1;
	s_pos = 0;

	/*
	 * C11 7.19p3: offsetof(type, member-designator) is the offset of  t.member-designator  for `static type t;`, so each
	 * step must be a valid postfix expression on the current type: 6.5.2.1p1 a subscript needs (after array decay) an
	 * array here; 6.5.2.3p1 "The first operand of the . operator shall have an ... structure or union type, and the second
	 * operand shall name a member of that type"; the index is an integer constant expression (7.19p3: address constant),
	 * nonnegative (a negative one designates no element of the array: 6.5.6p8).
	 */
	wellformed = true;
	want = in_off0;
	for (k = 0; k < ND; k++) {
		if (k < in_n) {
			if (isidx[k]) {
				if (kd[k] != K_ARRAY || g_neg[k]) wellformed = false;
				want += iv[k] * sz[k + 1];          /* 6.5.2.1p2, 6.5.6p8: i elements of the ELEMENT type further */
			} else {
				if (kd[k] != K_STRUCT && kd[k] != K_UNION || !g_found[k]) wellformed = false;
				want += mo[k];                      /* the member's offset inside the struct/union */
			}
		}
	}

	offset = in_off0;
	g_offp = &offset;
	g_step = 0; g_nidx = g_nmemb = 0;
	g_no_error = wellformed;
	next();
	designator(&sc, &ty[0], &offset);

	__CPROVER_assert(wellformed, "C11 6.5.2.1p1, 6.5.2.3p1 via 7.19p3: an index applied to a non-array, a member selection applied to a non-struct/union or naming no member, or a negative index is diagnosed");
	__CPROVER_assume(wellformed);
	__CPROVER_assert(offset == want, "C11 7.19p3: the offsets accumulate: start + sum of index * sizeof(element) and member offsets, in source order");
	__CPROVER_assert(g_step == in_n && g_calls_ok, "each designator is processed once, in source order, against the type the previous one produced");
	__CPROVER_assert(tok.kind == (enum tokenkind)in_term && s_pos == s_n, "the member-designator ends at the first token that is neither `[` nor `.`; that token is current, nothing after it has been read");
#ifdef VERIF_CANARY
	__CPROVER_assert(!(in_n == 3 && in_d0 && !in_d1 && in_d2), "CANARY");
#endif
}
