/*
 * binaryexpr_redirect.h -- include BEFORE "expr.c" (and `#undef binaryexpr` after it).
 *
 * Redirects every CALL binaryexpr(s, l, i) inside expr.c to wrap_binaryexpr(s, l, i) while leaving the DEFINITION of
 * binaryexpr alone (same preprocessor technique as units/qbe_lower/funcexpr_redirect.h: in the definition the first
 * macro argument starts with the keyword `struct`, in a call with an identifier).  wrap_binaryexpr() calls the real
 * binaryexpr() and keeps a symbolic-execution budget; what runs is the real recursion.
 */
#ifndef BINARYEXPR_REDIRECT_H
#define BINARYEXPR_REDIRECT_H

struct scope;
struct expr;
struct expr *wrap_binaryexpr(struct scope *, struct expr *, int);

#define BXR_CAT_(a, b) a##b
#define BXR_CAT(a, b) BXR_CAT_(a, b)
#define BXR_PROBE_struct ~, 1,
#define BXR_SECOND_(a, b, ...) b
#define BXR_SECOND(...) BXR_SECOND_(__VA_ARGS__)
#define BXR_ISDECL(a) BXR_SECOND(BXR_CAT_(BXR_PROBE_, a), 0, ~)
#define BXR_SEL_1(a, b, c) binaryexpr(a, b, c)
#define BXR_SEL_0(a, b, c) wrap_binaryexpr(a, b, c)
#define binaryexpr(a, b, c) BXR_CAT(BXR_SEL_, BXR_ISDECL(a))(a, b, c)

#endif
