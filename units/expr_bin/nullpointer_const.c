/* UNIT
{
 "id": "EXPR.nullptr.const",
 "file": "expr.c", "function": "nullpointer",
 "properties": {"C05": "contract", "C10": "contract", "C19": "safety"},
 "mode": "harness",
 "kind": "proof",
 "unwindset": ["recorded.0:9", "tysel.0:27"],
 "link_repo": ["type.c"], "cflags": ["-DVERIF_OWN_XMALLOC"],
 "timeout": 120,
 "expects": ["assertion_verif"],
 "replay": false,
 "assumes": ["the operand is FOLDED (a constant node, an opaque non-constant node, or a bit-field access): callers that fold first (mkbinaryexpr, condexpr) -- the caller that does not, exprassign, is EXPR.nullptr.ice's business",
             "integer constant expression == folded constant of integer type (6.6p10 lets an implementation accept other forms; EVAL.* units prove the folding)",
             "case split: zero constants of type pointer to QUALIFIED void are EXPR.nullptr.qualvoid's business (known defect)",
             "type universe of units/expr/expr_util.h"]
}
*/
#define NP_CASE   (!QUALVOID0)
#define NP_CANARY (g_oek == EK_CONST && g_ots == TS_PTR && g_obs == BS_VOID && g_oq == QUALNONE && g_ov == 0)
#include "nullpointer_common.h"
/* IN(bool, in_signedchar) IN(unsigned, in_enAb) IN(unsigned, in_enBb) IN(unsigned, in_ots) IN(unsigned, in_obs)
   IN(unsigned, in_oq) IN(unsigned, in_oek) IN(u64, in_ov) IN(bool, in_olv): declared in nullpointer_common.h */
