/* UNIT
{
 "id": "EXPR.mkexpr.del",
 "file": "expr.c", "function": "delexpr", "also_functions": ["mkexpr", "mkconstexpr"],
 "properties": {"C19": "all"},
 "mode": "harness",
 "unwind": 4,
 "kind": "bounded",
 "bound": "trees of depth <= 2 built with mkexpr()/mkconstexpr() themselves: a constant; unary/cast/incdec/bit-field over a constant; binary over (cast of constant, constant); conditional over three constants; comma list of two constants (the EXPRCALL arm: symbolic execution of the recursion did not finish in 120 s, not covered)",
 "cbmc_flags": ["--memory-leak-check"],
 "variants": {"CONST": ["-DV_SHAPE=0"], "UNARY": ["-DV_SHAPE=1", "-DV_UK=EXPRUNARY"], "CAST": ["-DV_SHAPE=1", "-DV_UK=EXPRCAST"], "INCDEC": ["-DV_SHAPE=1", "-DV_UK=EXPRINCDEC"], "BITFIELD": ["-DV_SHAPE=1", "-DV_UK=EXPRBITFIELD"], "BINARY": ["-DV_SHAPE=2"], "COND": ["-DV_SHAPE=3"], "COMMA": ["-DV_SHAPE=4"]},
 "canary_variant": "BINARY",
 "link_repo": ["type.c"],
 "timeout": 120, "replay": false,
 "expects": ["assertion_verif"],
 "assumes": ["xmalloc() does not fail (stubs/base.c); EXPRASSIGN nodes are documented in delexpr() as deliberately not released (shared operands of compound assignment) and are not exercised"]
}
*/
#include <stdlib.h>
#include "expr.c"
#include "verif.h"

struct token tok;
const struct target *targ;
extern int g_no_error;
struct expr *eval(struct expr *e) { return e; }

/* read through parameters (CONVENTIONS 6) */
static bool fresh_ok(struct expr *e, enum exprkind k, struct type *t, struct expr *b)
{
	return e->kind == k && e->type == t && e->base == b && e->qual == QUALNONE && !e->lvalue && !e->decayed && e->next == 0 && e->toeval == 0;
}

void
harness(void)
{
	IN(u64, in_v);
	struct expr *c1, *c2, *c3, *e, *x;
	int shape = V_SHAPE;

	g_no_error = 1;
	c1 = mkconstexpr(&typeint, in_v);
	/* mkconstexpr / mkexpr: a NEW node of the given kind and type over the given base, with every other attribute neutral:
	   not an lvalue (6.5.1: a constant is not an lvalue), unqualified, not decayed, in no list */
	__CPROVER_assert(fresh_ok(c1, EXPRCONST, &typeint, 0), "mkconstexpr: a fresh, neutral EXPRCONST node of the given type");
	__CPROVER_assert(c1->u.constant.u == in_v, "mkconstexpr: carrying the given value");
	c2 = mkconstexpr(&typelong, 2);
	__CPROVER_assert(c2 != c1 && fresh_ok(c1, EXPRCONST, &typeint, 0) && c1->u.constant.u == in_v, "each call yields a distinct node; earlier nodes are untouched");

	switch (shape) {
	case 0:
		e = c1;
		delexpr(c2);
		break;
	case 1: {
#ifndef V_UK
#define V_UK EXPRUNARY
#endif
		enum exprkind k = V_UK;
		e = mkexpr(k, &typeint, c1);
		__CPROVER_assert(fresh_ok(e, k, &typeint, c1), "mkexpr: a fresh, neutral node of the given kind and type over the given base");
		delexpr(c2);
		break;
	}
	case 2: {
		__typeof__(e->u.binary) b;
		x = mkexpr(EXPRCAST, &typelong, c1);
		e = mkexpr(EXPRBINARY, &typelong, 0);
		e->op = TADD;
		b.l = x; b.r = c2;
		e->u.binary = b;
		break;
	}
	case 3: {
		__typeof__(e->u.cond) c;
		c3 = mkconstexpr(&typeint, 3);
		e = mkexpr(EXPRCOND, &typelong, c1);
		c.t = c2; c.f = c3;
		e->u.cond = c;
		break;
	}
	case 4:
		c1->next = c2;
		e = mkexpr(EXPRCOMMA, &typelong, c1);
		break;
	default: {
		__typeof__(e->u.call) c;
		c3 = mkconstexpr(&typeint, 3);
		x = mkexpr(EXPRIDENT, &typeint, 0);
		c2->next = c3;
		e = mkexpr(EXPRCALL, &typeint, x);
		c.args = c2; c.nargs = 2;
		e->u.call = c;
		delexpr(c1);
		break;
	}
	}
#ifdef VERIF_CANARY
	__CPROVER_assert(shape != 2, "CANARY");
#endif
	/* delexpr(e) releases e and every node e owns, each exactly once (double free / use after free are CBMC's built-in
	   checks; "every node" is the memory-leak check at the end of harness()) */
	delexpr(e);
}
