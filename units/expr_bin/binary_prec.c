/* UNIT
{
 "id": "EXPR.binary.prec",
 "file": "expr.c", "function": "binaryexpr", "also_functions": ["precedence"],
 "properties": {"C01": "contract", "C05": "contract", "C19": "safety"},
 "mode": "harness",
 "replace_calls": {"castexpr": "stub_castexpr", "mkbinaryexpr": "rec_mkbinaryexpr"},
 "unwind": 6,
 "kind": "bounded",
 "bound": "operand (operator operand){0..4} terminator: every sequence of up to 4 binary operators drawn from all 18 C binary operators; called as condexpr() calls it (l == NULL, i == 0, any non-binary-operator terminator) and as it calls itself (left operand given, minimum level that of any operator, terminator any token binding less tightly)",
 "timeout": 600, "replay": false,
 "expects": ["assertion_verif"],
 "assumes": ["the recursive call inside binaryexpr() goes through wrap_binaryexpr() (units/expr_bin/binaryexpr_redirect.h), which calls the real binaryexpr() again and keeps a symbolic-execution budget whose soundness is asserted", "next() is a token-script stand-in (SCAN.* / PP.* units); castexpr() is replaced by a stand-in that takes exactly one operand token and returns a fresh leaf (unary/postfix/primary parsing: EXPR.unaryops, EXPR.mkunary, ...); mkbinaryexpr() is replaced by a recorder returning a fresh node (typing and constraints of each operator: EXPR.mkbinary.*)"]
}
*/
#include <stdlib.h>
#include "binaryexpr_redirect.h"
#include "expr.c"
#undef binaryexpr
#include "verif.h"
#include "c_exprgram.h"

struct token tok;
extern int g_no_error;

#ifndef NOPS
#define NOPS 4
#endif
#define NTOK (2 * NOPS + 2)

/* ---- the token source, at token granularity ---- */
static enum tokenkind s_kind[NTOK];
static unsigned s_n, s_pos;

static void
advance(void)
{
	__CPROVER_assert(s_pos < s_n, "binaryexpr() does not read past the token that ends the expression");
	__CPROVER_assume(s_pos < s_n);
	tok.kind = s_kind[s_pos];
	tok.lit = 0;
	tok.loc.file = "in.c"; tok.loc.line = 1; tok.loc.col = s_pos;
	s_pos++;
}

/*
 * Symbolic-execution budget (no effect on what is proved).  The shape of the recursion depends on the symbolic
 * operator kinds, so CBMC would unroll (outer x inner)^depth copies of binaryexpr.  g_lb is a CONCRETE lower bound of
 * the number of operator tokens consumed so far (s_ops is the exact, symbolic count; g_lb <= s_ops is asserted wherever
 * g_lb is reset); a copy that would consume operator number NOPS+1 is cut -- after asserting that this cannot happen.
 */
static unsigned s_ops, g_lb, g_depth, g_stk[NOPS + 2];

/* next() as binaryexpr() calls it: it consumes an operator token (operands are taken by castexpr()) */
void
next(void)
{
	s_ops++;
	g_lb++;
	if (g_lb > NOPS) {
		__CPROVER_assert(0, "binaryexpr() takes no more operators than the source has");
		__CPROVER_assume(0);
	}
	g_stk[g_depth] = g_lb;
	advance();
}

/* the recursive call of binaryexpr() from its own body: the real function again */
struct expr *
wrap_binaryexpr(struct scope *s, struct expr *l, int i)
{
	unsigned saved = g_lb;
	struct expr *e;

	g_depth++;
	__CPROVER_assert(g_depth <= NOPS, "recursion no deeper than the number of operators");
	__CPROVER_assume(g_depth <= NOPS);
	e = binaryexpr(s, l, i);
	g_depth--;
	__CPROVER_assert(s_ops >= saved + 1, "a recursive call consumes at least one operator (budget bound sound)");
	g_lb = saved + 1;
	return e;
}

/* ---- leaves and recorded nodes: a phrase is known by the operands it spans ---- */
static struct expr *
mknode(unsigned first, unsigned last, enum exprkind k)
{
	struct expr *e = malloc(sizeof(*e));

	__CPROVER_assume(e != 0);
	e->kind = k;
	e->u.constant.u = first | last << 8;
	return e;
}
static unsigned nfirst(struct expr *e) { return e->u.constant.u & 0xff; }
static unsigned nlast(struct expr *e) { return e->u.constant.u >> 8; }

static unsigned g_ncast;
static bool g_castok = true;

/* castexpr(): the current token must be an operand; it is consumed; the leaf knows its source position */
struct expr *
stub_castexpr(struct scope *s)
{
	unsigned p = tok.loc.col;

	if (tok.kind != TIDENT || p % 2 != 0 || p / 2 != g_ncast)
		g_castok = false;
	g_ncast++;
	advance();
	return mknode(p / 2, p / 2, EXPRIDENT);
}

/* mkbinaryexpr(loc, op, l, r): recorded under the position of the operator token (loc->col == 2p-1 for operator p) */
static unsigned g_cnt[NOPS + 1], g_first[NOPS + 1], g_last[NOPS + 1];
static int g_opk[NOPS + 1];
static bool g_adj[NOPS + 1];
static unsigned g_nbin, g_stray;

struct expr *
rec_mkbinaryexpr(struct location *loc, enum tokenkind op, struct expr *l, struct expr *r)
{
	unsigned p, c = loc->col, hit = 0;

	for (p = 1; p <= NOPS; p++) {
		if (c == 2 * p - 1) {
			g_cnt[p]++;
			g_opk[p] = op;
			g_first[p] = nfirst(l);
			g_last[p] = nlast(r);
			g_adj[p] = nlast(l) == p - 1 && nfirst(r) == p;
			hit = 1;
		}
	}
	if (!hit)
		g_stray++;
	g_lb = g_stk[g_depth];          /* budget: forget what the recursive calls of this iteration consumed */
	g_nbin++;
	return mknode(nfirst(l), nlast(r), EXPRBINARY);
}

void
harness(void)
{
	IN(unsigned, in_n); IN(unsigned, in_c1); IN(unsigned, in_c2); IN(unsigned, in_c3); IN(unsigned, in_c4);
	IN(int, in_term); IN(bool, in_top); IN(unsigned, in_cmin);
	static struct scope sc;
	unsigned c[6], p, q;
	int t[NOPS + 2], tmin, level;
	struct expr *l, *res;

	__CPROVER_assume(in_n <= NOPS && in_c1 < SPEC_NBINOP && in_c2 < SPEC_NBINOP && in_c3 < SPEC_NBINOP && in_c4 < SPEC_NBINOP && in_cmin < SPEC_NBINOP);
	__CPROVER_assume(in_term >= TNONE && in_term <= THASHHASH);
	c[1] = in_c1; c[2] = in_c2; c[3] = in_c3; c[4] = in_c4;

	/* the script: a0 op1 a1 ... opn an TERM */
	s_kind[0] = TIDENT;
	for (p = 1; p <= NOPS + 1; p++) {
		if (p <= in_n) {
			s_kind[2 * p - 1] = spec_binop(c[p]);
			s_kind[2 * p] = TIDENT;
			t[p] = spec_bintight(spec_binop(c[p]));
		} else if (p == in_n + 1) {
			s_kind[2 * p - 1] = in_term;
			t[p] = spec_bintight(in_term);
		}
	}
	s_n = 2 * in_n + 2;
	s_pos = 0;

	/* the two kinds of call site */
	if (in_top) {
		/* condexpr(): binaryexpr(s, NULL, 0); whatever follows a logical-OR-expression is not a binary operator */
		tmin = 1;
		level = 0;
		__CPROVER_assume(spec_bintight(in_term) == 0);
	} else {
		/* binaryexpr() itself: left operand already parsed, only operators binding at least as tightly as `cmin`
		   belong to this phrase */
		tmin = spec_bintight(spec_binop(in_cmin));
		level = precedence(spec_binop(in_cmin));
		__CPROVER_assume(spec_bintight(in_term) < tmin);
		for (p = 1; p <= NOPS; p++)
			if (p <= in_n)
				__CPROVER_assume(t[p] >= tmin);
	}

	g_no_error = 1;
	s_ops = g_lb = g_depth = 0;
	advance();                        /* the first token of the phrase is current */
	l = 0;
	if (!in_top)
		l = stub_castexpr(&sc);
	res = binaryexpr(&sc, l, level);

	__CPROVER_assert(g_castok && g_ncast == in_n + 1, "C11 6.5.5-6.5.14: the operands are the cast-expressions of the source, each taken once, in source order");
	__CPROVER_assert(tok.kind == (enum tokenkind)in_term && s_pos == s_n, "the phrase ends at the first token that is not a binary operator of this phrase's level or tighter; that token is current and nothing after it has been read");
	__CPROVER_assert(g_nbin == in_n && g_stray == 0, "one node per operator of the source");
	for (p = 1; p <= NOPS; p++) {
		if (p <= in_n) {
			unsigned first = p - 1, last = p;
			bool run;

			/* C11 6.5.5-6.5.14 (left-recursive productions): the left operand takes every operator to the left that
			   binds AT LEAST as tightly, the right operand every operator to the right that binds MORE tightly */
			run = true;
			for (q = NOPS; q >= 1; q--)
				if (q < p) {
					if (run && t[q] >= t[p]) first = q - 1; else run = false;
				}
			run = true;
			for (q = 1; q <= NOPS; q++)
				if (q > p && q <= in_n) {
					if (run && t[q] > t[p]) last = q; else run = false;
				}
			__CPROVER_assert(g_cnt[p] == 1, "every operator yields exactly one binary node");
			__CPROVER_assert(g_opk[p] == spec_binop(c[p]), "the node's operator is the operator token at that position");
			__CPROVER_assert(g_adj[p], "the operands of an operator are the phrases immediately to its left and right");
			__CPROVER_assert(g_first[p] == first, "C11 6.5.5-6.5.14: the left operand extends over all operators to the left of equal or higher precedence (left associativity), and no further");
			__CPROVER_assert(g_last[p] == last, "C11 6.5.5-6.5.14: the right operand extends over all operators to the right of strictly higher precedence, and no further");
		}
	}
	__CPROVER_assert(nfirst(res) == 0 && nlast(res) == in_n, "the result is the phrase over all operands");
	__CPROVER_assert(IMP(in_n == 0, res->kind == EXPRIDENT) && IMP(in_n > 0, res->kind == EXPRBINARY), "a lone cast-expression is returned as it is");
#ifdef VERIF_CANARY
	__CPROVER_assert(!(in_n == NOPS && in_c1 == 13 && in_c2 == 15 && !in_top), "CANARY");
#endif
}
