/* UNIT
{
 "id": "DRV.buildexe",
 "file": "driver.c", "function": "buildexe", "also_functions": ["spawn", "succeeded"],
 "properties": {"C17": "contract", "C18": "contract", "C19": "safety"},
 "mode": "dfcc", "enforce": "buildexe/buildexe_contract",
 "replace_calls": {"arrayaddptr": "rec_arrayaddptr", "arrayaddbuf": "rec_arrayaddbuf"},
 "kind": "bounded", "bound": "at most 3 inputs (the two loops of buildexe run over the inputs)",
 "unwind": 8, "unwindset": ["osm_posix_spawnp.0:33", "rec_arrayaddptr.0:29", "expect.0:29"],
 "noreturn_macros": false, "stubs": ["os_model.c"], "link_repo": ["util.c"],
 "timeout": 200,
 "expects": ["assertion_verif", "assigns"],
 "assumes": ["OS model stubs/os_model.c: waitpid() on the live linker process does not fail and reports it once, with any status word",
             "the linker can be started (posix_spawnp succeeds); the failing case is unit DRV.buildexe.spawnfail",
             "util.c's arrayaddptr/arrayaddbuf are replaced by rec_arrayaddptr/rec_arrayaddbuf = 'append these words to the vector' without reallocation (their contract, proved on the real functions by UTIL.arrayaddptr / UTIL.arrayaddbuf): with the real ones the symbolic vector length exhausts 8 GB",
             "flags.verbose is off; the link base command has 5 words (config.h linkcmd) in a 256-byte array, as main() leaves it",
             "startfiles/endfiles are the six-word lists of the pinned config.h"]
}
*/
#include "drv_common.h"

#ifndef SPAWN_MAY_FAIL
#define SPAWN_MAY_FAIL 0
#endif
#define MAXIN 3
#define NBASE 5
#define MAXWORDS 28

/* ------------------------------------------------------------------ ghosts */
size_t g_n;                          /* ninputs */
char *g_out;                         /* output */
char *g_name[MAXIN];                 /* inputs[i].name */
int g_ft[MAXIN];                     /* inputs[i].filetype */
bool g_lib[MAXIN];
bool g_nostdlib;
int *g_errno;
int g_j;                             /* arbitrary argv position */
int g_i;                             /* arbitrary input */
/* the documented link command (DESIGN C17/C18; cproc(1) -l, -o, -nostdlib): base command, "-o" output, start files,
   the inputs in command-line order (libraries as "-l" name), end files */
int g_nexp;                          /* number of words */
void *g_exp[MAXWORDS];               /* word j is this pointer ... */
int g_expkind[MAXWORDS];             /* ... or (1) a string equal to "-o", (2) a string equal to "-l" */

/* stand-ins for util.c's arrayaddptr / arrayaddbuf: append to a vector whose storage (MAXWORDS words) never has to
   grow; slots are written under "loop counter == index" guards so that CBMC needs no array theory */
void
rec_arrayaddptr(struct array *a, void *v)
{
	size_t i;

	__CPROVER_assert(a == &stages[LINK].cmd, "buildexe appends to the link command only");
	__CPROVER_assert(a->len % sizeof(void *) == 0 && a->len / sizeof(void *) < MAXWORDS, "link command fits the harness vector");
	for (i = 0; i < MAXWORDS; ++i) {
		if (i == a->len / sizeof(void *))
			((void **)a->val)[i] = v;
	}
	a->len += sizeof(void *);
}

void
rec_arrayaddbuf(struct array *a, const void *src, size_t n)
{
	size_t k;

	__CPROVER_assert(n % sizeof(void *) == 0 && n / sizeof(void *) <= 6, "word lists of at most 6 entries");
	for (k = 0; k < 6; ++k) {
		if (k < n / sizeof(void *))
			rec_arrayaddptr(a, ((void *const *)src)[k]);
	}
}

/* append one word to the documented command line */
static void
expect(int kind, void *p)
{
	int i;

	for (i = 0; i < MAXWORDS; ++i) {
		if (i == g_nexp) {
			g_exp[i] = p;
			g_expkind[i] = kind;
		}
	}
	++g_nexp;
}

#define LINKER     (osm.child[0])
#define LARGV      (LINKER.argv)
#define ISTMP(i)   (g_ft[i] != OBJ)

#define PRE(X) \
	X(inputs != 0 && ninputs == g_n && g_n >= 1 && g_n <= MAXIN && output == g_out && g_out != 0) \
	X(stages[LINK].cmd.val != 0 && stages[LINK].cmd.len == NBASE * sizeof(char *) && stages[LINK].cmd.cap == MAXWORDS * sizeof(char *)) \
	X(!flags.verbose && flags.nostdlib == g_nostdlib) \
	X(osm.nattempt == 0 && osm.spawned == 0 && osm.nfail == 0 && osm.nunlink == 0 && osm.nwait == 0 && osm.exited == 0) \
	X(SPAWN_MAY_FAIL || osm_tape.spawn_err[0] == 0) \
	X(g_errno == &errno) \
	X(g_j >= 0 && g_j < MAXWORDS && g_i >= 0 && g_i < MAXIN)

/* buildexe does not return */
#define POST(X) X(0)

void
osm_at_exit(int status)
{
	int spawned = osm.spawned == 1u;

	__CPROVER_assert(osm.nspawn == 1, "EXIT the linker was started exactly once");
	/* C17: the command line */
	__CPROVER_assert(IMP(spawned, LINKER.argc == g_nexp), "EXIT link command has the documented number of words");
	__CPROVER_assert(IMP(spawned && g_j < g_nexp && g_expkind[g_j] == 0, LARGV[g_j] == g_exp[g_j]), "EXIT link command word j is the documented one (base, output, start files, inputs in order, end files)");
	__CPROVER_assert(IMP(spawned && g_j < g_nexp && g_expkind[g_j] == 1, LARGV[g_j][0] == '-' && LARGV[g_j][1] == 'o' && LARGV[g_j][2] == 0), "EXIT link command: -o precedes the output");
	__CPROVER_assert(IMP(spawned && g_j < g_nexp && g_expkind[g_j] == 2, LARGV[g_j][0] == '-' && LARGV[g_j][1] == 'l' && LARGV[g_j][2] == 0), "EXIT link command: -l precedes a library");
	__CPROVER_assert(IMP(spawned, LINKER.in_fd == -1 && LINKER.out_fd == -1 && LINKER.leaked == 0), "EXIT the linker inherits the driver's stdin/stdout and nothing else");
	/* C18: status reflects the link step, the linker was reaped, temporaries are gone, user files are not */
	__CPROVER_assert(IMP(spawned, osm_nlive() == 0), "EXIT the linker was reaped");
	__CPROVER_assert(IMP(spawned, status == (osm_status_ok(LINKER.status) ? 0 : 1)), "EXIT status is 0 iff the linker exited with 0");
	__CPROVER_assert(IMP(!spawned, status == 1), "EXIT status is 1 when the linker could not be started");
	__CPROVER_assert(IMP((size_t)g_i < g_n && ISTMP(g_i), osm_was_unlinked(g_name[g_i])), "EXIT the temporary object of every non-object input was unlinked");
	__CPROVER_assert(IMP((size_t)g_i < g_n && !ISTMP(g_i), !osm_was_unlinked(g_name[g_i])), "EXIT object files and libraries given by the user are not unlinked");
	__CPROVER_assert(!osm_was_unlinked(g_out), "EXIT the output is not unlinked");
	__CPROVER_assert(osm.nunlink == (int)(((size_t)0 < g_n && ISTMP(0)) + ((size_t)1 < g_n && ISTMP(1)) + ((size_t)2 < g_n && ISTMP(2))), "EXIT nothing else is unlinked");
	__CPROVER_assert(osm.nkill == 0, "EXIT nobody is signalled");
#ifdef VERIF_CANARY
	__CPROVER_assert(!(g_n == 2 && g_lib[1] && !g_nostdlib && g_j == 14 && status == 0), "CANARY exit state reachable");
#endif
}

static void buildexe_contract(struct input *inputs, size_t ninputs, char *output)
REQUIRES(PRE)
__CPROVER_assigns(stages[LINK].cmd.len, __CPROVER_object_whole(stages[LINK].cmd.val), osm, *g_errno)
ENSURES(POST);

void
harness(void)
{
	char out_path[] = "a.out", n0[] = "/tmp/cproc-000000", n1[] = "x.o", n2[] = "m";
	char w[NBASE][4] = {"ld", "-L", "/x", "-d", "/y"};
	struct input in[MAXIN], *inputs = in;
	size_t ninputs, i;
	char *output = out_path, **v;
	int j;

	IN(size_t, in_n);
	IN(bool, in_nostdlib);
	IN(int, in_ft0); IN(int, in_ft1); IN(int, in_ft2);
	IN(bool, in_lib0); IN(bool, in_lib1); IN(bool, in_lib2);
	IN(int, in_pidhi);
	IN(int, in_sp);
	IN(int, in_ws);
	ING(int, g_j);
	ING(int, g_i);

	__CPROVER_assume(in_n >= 1 && in_n <= MAXIN);
	__CPROVER_assume(in_pidhi >= 1 && in_pidhi <= 15);
	__CPROVER_assume(osm_status_valid(in_ws));
	/* main(): a -l input has file type OBJ; file types of inputs are ASM..QBE */
	__CPROVER_assume(in_ft0 >= ASM && in_ft0 <= QBE && in_ft1 >= ASM && in_ft1 <= QBE && in_ft2 >= ASM && in_ft2 <= QBE);
	__CPROVER_assume(IMP(in_lib0, in_ft0 == OBJ) && IMP(in_lib1, in_ft1 == OBJ) && IMP(in_lib2, in_ft2 == OBJ));
	memset(&osm_tape, 0, sizeof osm_tape);
	osm_tape.pidbase = in_pidhi << 3;
	osm_tape.spawn_err[0] = in_sp;
	osm_tape.wait_status[0] = in_ws;
	osm_reset();

	ninputs = in_n;
	in[0].name = n0; in[0].filetype = in_ft0; in[0].lib = in_lib0; in[0].stages = 0;
	in[1].name = n1; in[1].filetype = in_ft1; in[1].lib = in_lib1; in[1].stages = 0;
	in[2].name = n2; in[2].filetype = in_ft2; in[2].lib = in_lib2; in[2].stages = 0;
	for (i = 0; i < MAXIN; ++i) {
		g_name[i] = in[i].name; g_ft[i] = in[i].filetype; g_lib[i] = in[i].lib;
	}
	flags.verbose = 0;
	flags.nostdlib = in_nostdlib;
	v = malloc(MAXWORDS * sizeof *v);
	__CPROVER_assume(v != 0);
	stages[LINK].cmd.val = v;
	stages[LINK].cmd.cap = MAXWORDS * sizeof *v;
	stages[LINK].cmd.len = NBASE * sizeof *v;
	stages[LINK].cmdbase = NBASE * sizeof *v;

	/* the documented command line */
	g_nexp = 0;
	for (j = 0; j < NBASE; ++j) {
		v[j] = w[j];
		expect(0, w[j]);
	}
	expect(1, 0);
	expect(0, output);
	for (j = 0; j < (int)LEN(startfiles); ++j) {
		if (!in_nostdlib)
			expect(0, (void *)startfiles[j]);
	}
	for (i = 0; i < MAXIN; ++i) {
		if (i < ninputs && in[i].lib)
			expect(2, 0);
		if (i < ninputs)
			expect(0, in[i].name);
	}
	for (j = 0; j < (int)LEN(endfiles); ++j) {
		if (!in_nostdlib)
			expect(0, (void *)endfiles[j]);
	}
	g_n = ninputs; g_out = output; g_nostdlib = in_nostdlib; g_errno = &errno;

	CALL(PRE, POST, buildexe(inputs, ninputs, output));
}
