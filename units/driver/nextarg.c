/* UNIT
{
 "id": "DRV.nextarg",
 "file": "driver.c", "function": "nextarg", "also_functions": ["usage"],
 "properties": {"C17": "contract", "C19": "safety"},
 "mode": "dfcc", "enforce": "nextarg/nextarg_contract",
 "kind": "proof",
 "noreturn_macros": false, "stubs": ["os_model.c"],
 "timeout": 120,
 "expects": ["postcondition", "assertion_verif", "assigns"],
 "assumes": ["stdio output of usage() has no effect on the state the contract talks about (CBMC's fprintf/vfprintf models)"]
}
*/
#include "drv_common.h"

char **g_av0;              /* *argv at entry: points at the option being parsed */
char *g_cur, *g_next;      /* (*argv)[0], (*argv)[1] */
bool g_attached;           /* the option has its argument attached: "-Dname" rather than "-D" "name" */

#define PRE(X) \
	X(argv != 0 && *argv == g_av0 && g_av0 != 0) \
	/* main(): the current word is an option, i.e. "-" followed by at least one character; the vector ends with NULL */ \
	X(g_av0[0] == g_cur && g_cur != 0 && g_cur[0] == '-' && g_cur[1] != 0) \
	X(g_av0[1] == g_next) \
	X(g_attached == (g_cur[2] != 0)) \
	X(osm.exited == 0)

#define POST(X) \
	/* attached form: the argument is the rest of the word, the cursor stays */ \
	X(IMP(g_attached, RET == g_cur + 2 && *argv == g_av0)) \
	/* detached form: the argument is the next word, the cursor moves onto it */ \
	X(IMP(!g_attached, RET == g_next && *argv == g_av0 + 1)) \
	/* a missing argument never comes back as NULL */ \
	X(RET != 0) \
	X(g_av0[0] == g_cur && g_av0[1] == g_next) \
	CANARY(X, !(!g_attached && g_cur[1] == 'o'))

/* missing argument => usage: exit status 2 (cproc's usage()), and only then */
void
osm_at_exit(int status)
{
	__CPROVER_assert(status == 2, "EXIT usage error is status 2");
	__CPROVER_assert(!g_attached && g_next == 0, "EXIT only when the option is the last word and has no attached argument");
}

static char *nextarg_contract(char ***argv)
REQUIRES(PRE)
__CPROVER_assigns(*argv, osm)
ENSURES(POST);

void
harness(void)
{
	char cur[4], nxt[2] = "x";
	char *vec[3], **cursor, ***argv = &cursor;

	IN(u32, in_cur);           /* the option word, up to 3 bytes */
	IN(bool, in_hasnext);

	cur[0] = (char)in_cur; cur[1] = (char)(in_cur >> 8); cur[2] = (char)(in_cur >> 16); cur[3] = 0;
	__CPROVER_assume(cur[0] == '-' && cur[1] != 0);
	vec[0] = cur;
	vec[1] = in_hasnext ? nxt : (char *)0;
	vec[2] = 0;
	cursor = vec;
	memset(&osm_tape, 0, sizeof osm_tape);
	osm_reset();
	g_av0 = vec; g_cur = cur; g_next = vec[1]; g_attached = cur[2] != 0;

	CALLR(char *, PRE, POST, nextarg(argv));
}
