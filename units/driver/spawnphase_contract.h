/*
 * spawnphase_contract.h -- contract of driver.c:spawnphase() over the OS model's ghost state; enforced on the real
 * function by DRV.spawnphase (all environment failures except the ignored one) and shown to FAIL by
 * DRV.spawnphase.dup2in (posix_spawn_file_actions_adddup2(fd, 0) failing, whose result spawnphase drops).
 * The two outcomes stated here are exactly what osm_stage_start() does, which stands for spawnphase in DRV.buildobj.
 */
#ifndef SPAWNPHASE_CONTRACT_H
#define SPAWNPHASE_CONTRACT_H

int g_s;                     /* stage index: phase == &stages[g_s] */
int g_fd0;                   /* *fd at entry: -1 or the read end left by the previous stage */
int g_a;                     /* ordinal of this spawn attempt (osm.nattempt at entry) */
unsigned g_open0, g_spawned0;/* descriptor / child sets at entry */
int g_nfail0;
int g_nbase;                 /* words in the stage's base command */
char *g_input, *g_output;
bool g_last;
void *g_base[4];             /* the base command words */
int *g_errno;                /* &errno (the OS model sets it) */
int g_j;                     /* arbitrary index into the base command */

#define SP_CH        (osm.child[g_a])
#define SP_ARGV      ((char **)phase->cmd.val)
#define HAS_O        (g_last && g_output != 0)
#define HAS_IN       (g_input != 0 && g_fd0 == -1)
#define RD_END(a)    (OSM_FD0 + 2 * (a))
#define NEWCHILD     (osm.spawned == (g_spawned0 | 1u << g_a))

#define PRE_SP(X) \
	X(g_s >= 0 && g_s < NSTAGES && phase == &stages[g_s]) \
	X(fd != 0 && *fd == g_fd0) \
	X(input == g_input && output == g_output && last == g_last) \
	/* the command vector as main() leaves it: base command of 1..4 words in an array with room for 4 */ \
	X(g_nbase >= 1 && g_nbase <= 4 && phase->cmdbase == g_nbase * sizeof(char *)) \
	X(phase->cmd.val != 0 && phase->cmd.cap == 4 * sizeof(char *) && phase->cmd.len <= phase->cmd.cap) \
	X(phase->pid == 0) \
	X(!flags.verbose) \
	/* model state: attempt g_a is next; *fd is -1 or the close-on-exec read end of the predecessor's pipe */ \
	X(g_a == osm.nattempt && g_a >= 0 && g_a <= 1 && g_spawned0 == osm.spawned && g_open0 == osm.fd_open && g_nfail0 == osm.nfail) \
	X(IMP(g_a == 0, g_fd0 == -1 && g_open0 == 0)) \
	X(IMP(g_a == 1, (g_fd0 == -1 || g_fd0 == RD_END(0)) && g_open0 == 1u && (osm.fd_cloexec & 1u))) \
	X(osm.fa_bad == 0 && osm.badclose == 0 && osm.exited == 0 && (!osm.fa_live || osm.fa_destroyed)) \
	X(g_errno == &errno) \
	X(g_j >= 0 && g_j < 4)

#define POST_SP(X) \
	/* ---- success: exactly one new child, wired into the pipeline */ \
	X(IMP(RET == 0, NEWCHILD && osm.nfail == g_nfail0)) \
	X(IMP(RET == 0, SP_CH.pidp == &phase->pid && phase->pid == osm_tape.pidbase + g_a)) \
	X(IMP(RET == 0, SP_CH.in_fd == g_fd0)) \
	X(IMP(RET == 0 && g_fd0 != -1, SP_CH.in_pipe == 0)) \
	X(IMP(RET == 0 && g_last, SP_CH.out_fd == -1 && *fd == g_fd0 && osm.fd_open == g_open0)) \
	X(IMP(RET == 0 && !g_last, SP_CH.out_pipe == g_a && *fd == RD_END(g_a))) \
	/* the driver keeps only the new read end, close-on-exec; the write end is closed (downstream sees EOF) */ \
	X(IMP(RET == 0 && !g_last, osm.fd_open == (g_open0 | 1u << 2 * g_a) && (osm.fd_cloexec >> 2 * g_a & 1u))) \
	/* the child inherits no stray descriptor */ \
	X(IMP(RET == 0, SP_CH.leaked == 0)) \
	/* argv: base command, "-o" output on the last stage, the input file on the first, NULL */ \
	X(IMP(RET == 0, SP_CH.argv == SP_ARGV && SP_CH.file == SP_ARGV[0])) \
	X(IMP(RET == 0, SP_CH.argc == g_nbase + 2 * HAS_O + HAS_IN)) \
	X(IMP(RET == 0 && g_j < g_nbase, SP_ARGV[g_j] == g_base[g_j])) \
	X(IMP(RET == 0 && HAS_O, SP_ARGV[g_nbase][0] == '-' && SP_ARGV[g_nbase][1] == 'o' && SP_ARGV[g_nbase][2] == 0)) \
	X(IMP(RET == 0 && HAS_O, SP_ARGV[g_nbase + 1] == g_output)) \
	X(IMP(RET == 0 && HAS_IN, SP_ARGV[g_nbase + 2 * HAS_O] == g_input)) \
	X(IMP(RET == 0, SP_ARGV[g_nbase + 2 * HAS_O + HAS_IN] == 0)) \
	/* ---- failure: nothing is left behind */ \
	X(IMP(RET != 0, osm.spawned == g_spawned0 && phase->pid == 0)) \
	X(IMP(RET != 0, osm.nfail > g_nfail0)) \
	X(IMP(RET != 0, *fd == g_fd0 && osm.fd_open == g_open0)) \
	/* ---- always */ \
	X(osm.nattempt == g_a + 1) \
	X(osm.fa_bad == 0 && osm.badclose == 0 && (!osm.fa_live || osm.fa_destroyed)) \
	X(osm.nkill == 0 && osm.nunlink == 0 && osm.nwait == 0 && osm.exited == 0)

#endif
