/* UNIT
{
 "id": "DRV.spawn",
 "file": "driver.c", "function": "spawn",
 "properties": {"C18": "contract", "C19": "safety"},
 "mode": "dfcc", "enforce": "spawn/spawn_contract",
 "kind": "proof-const-unwind", "unwind": 8,
 "noreturn_macros": false, "stubs": ["os_model.c"],
 "timeout": 120,
 "expects": ["postcondition", "assigns"],
 "assumes": ["OS model stubs/os_model.c: posix_spawnp fails with any non-zero error number or creates a child; flags.verbose is off (the -v listing is stdio only); argument vector of 3 words + NULL"]
}
*/
#include "drv_common.h"

int g_err;                 /* what posix_spawnp will return */
pid_t *g_pid;
struct array *g_args;
char **g_argv;
int *g_errno;
pid_t g_pid0;

#define PRE(X) \
	X(pid == g_pid && args == g_args && pid != 0 && args != 0 && args->val == g_argv && g_argv != 0 && actions == 0) \
	X(!flags.verbose && osm.nattempt == 0 && osm.spawned == 0 && osm.nfail == 0 && osm_tape.spawn_err[0] == g_err) \
	X(*pid == g_pid0 && g_errno == &errno)

#define POST(X) \
	/* the error number of posix_spawnp comes back unchanged: 0 = started, anything else = not started */ \
	X(RET == g_err) \
	X(IMP(g_err == 0, osm.spawned == 1u && *g_pid == osm_tape.pidbase && osm.child[0].pidp == g_pid)) \
	X(IMP(g_err == 0, osm.child[0].argv == g_argv && osm.child[0].file == g_argv[0] && osm.child[0].argc == 3)) \
	X(IMP(g_err != 0, osm.spawned == 0 && *g_pid == g_pid0 && osm.nfail == 1)) \
	X(osm.nspawn == 1) \
	CANARY(X, !(g_err == 2))

void osm_at_exit(int s) { __CPROVER_assert(0, "no exit"); }

static int spawn_contract(pid_t *pid, struct array *args, posix_spawn_file_actions_t *actions)
REQUIRES(PRE)
__CPROVER_assigns(*pid, osm, *g_errno)
ENSURES(POST);

void
harness(void)
{
	char w0[] = "ld", w1[] = "-o", w2[] = "x";
	char *v[4];
	struct array arr, *args = &arr;
	pid_t p, *pid = &p;
	posix_spawn_file_actions_t *actions = 0;

	IN(int, in_err);
	IN(int, in_pid0);

	v[0] = w0; v[1] = w1; v[2] = w2; v[3] = 0;
	arr.val = v; arr.len = sizeof v; arr.cap = sizeof v;
	p = in_pid0;
	memset(&osm_tape, 0, sizeof osm_tape);
	osm_tape.pidbase = 1000;
	osm_tape.spawn_err[0] = in_err;
	osm_reset();
	flags.verbose = 0;
	g_err = in_err; g_pid = pid; g_args = args; g_argv = v; g_pid0 = p; g_errno = &errno;

	CALLR(int, PRE, POST, spawn(pid, args, actions));
}
