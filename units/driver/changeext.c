/* UNIT
{
 "id": "DRV.changeext",
 "file": "driver.c", "function": "changeext",
 "properties": {"C17": "contract", "C19": "safety"},
 "mode": "dfcc", "enforce": "changeext/changeext_contract",
 "kind": "bounded", "bound": "names of at most 12 bytes (any bytes, any number of dots and slashes), extensions of 1..3 bytes; libc strrchr/strlen/strcpy/memcpy are CBMC's models",
 "unwind": 14,
 "noreturn_macros": false, "stubs": ["base.c", "os_model.c"],
 "timeout": 120,
 "expects": ["postcondition"],
 "assumes": ["xmalloc does not fail (stubs/base.c; the real one calls fatal: UTIL.xmalloc)",
             "the base name does not begin with its last dot ('.c', 'd/.c'). For '.c' driver.c:118 computes --dot = name - 1, a pointer before the object (undefined by C11 6.5.6p8; CBMC: changeext.pointer_arithmetic.11/.17), without observable misbehaviour on the real binary (cproc -c .c writes .o): reported as latent UB. For 'd/.c' the code is fine but CBMC 6.11 reports the in-bounds pointer difference -1 as 'overflow on signed -' (tool artefact, reproduced on a 3-line program)",
             "cproc(1): 'the output file is determined by replacing the source file extension with .o'; the file is created in the current directory (directory part dropped), as every cc does"]
}
*/
#include "drv_common.h"

#define MAXNAME 12
int g_len;                 /* strlen(name) */
int g_slash;               /* index of the LAST '/', -1 if none */
int g_dot;                 /* index of the LAST '.' after the last '/', -1 if none */
char g_c[MAXNAME + 1];     /* copy of name */
int g_extlen;
char g_e[4];               /* copy of ext */
int g_j;                   /* arbitrary byte index */

#define BASE0    (g_slash + 1)                                   /* where the base name starts */
#define STEMLEN  ((g_dot >= 0 ? g_dot : g_len) - BASE0)          /* base name without its last extension */

#define PRE(X) \
	X(name != 0 && g_len >= 0 && g_len <= MAXNAME && name[g_len] == 0) \
	X(ext != 0 && g_extlen >= 1 && g_extlen <= 3 && ext[g_extlen] == 0) \
	X(g_slash >= -1 && g_slash < g_len && g_dot >= -1 && g_dot < g_len && (g_dot == -1 || g_dot > g_slash)) \
	/* see "assumes": the base name does not START with its last dot (".c", "d/.c") */ \
	X(g_dot != BASE0) \
	X(g_j >= 0 && g_j <= MAXNAME)

#define POST(X) \
	X(RET != 0) \
	/* the base name up to (not including) its last dot ... */ \
	X(IMP(g_j < STEMLEN, RET[g_j] == g_c[BASE0 + g_j])) \
	/* ... then ".", the new extension, and the terminator */ \
	X(RET[STEMLEN] == '.') \
	X(IMP(g_j < g_extlen, RET[STEMLEN + 1 + g_j] == g_e[g_j])) \
	X(RET[STEMLEN + 1 + g_extlen] == 0) \
	/* the source name is left alone */ \
	X(IMP(g_j <= g_len, name[g_j] == g_c[g_j])) \
	CANARY(X, !(g_len == 9 && g_slash == 3 && g_dot == 7 && g_extlen == 3))

void osm_at_exit(int status) { __CPROVER_assert(0, "no exit"); }

static char *changeext_contract(const char *name, const char *ext)
REQUIRES(PRE)
__CPROVER_assigns()
ENSURES(POST);

void
harness(void)
{
	char buf[MAXNAME + 1], ebuf[4];
	const char *name = buf, *ext = ebuf;
	int i, dot = -1, slash = -1, len = -1, elen = -1;

	IN(u64, in_lo);            /* bytes 0..7 of the name */
	IN(u32, in_hi);            /* bytes 8..11 */
	IN(u32, in_ext);           /* bytes 0..2 of the extension */
	ING(int, g_j);

	for (i = 0; i < MAXNAME; ++i)
		buf[i] = (char)(i < 8 ? in_lo >> 8 * i : in_hi >> 8 * (i - 8));
	buf[MAXNAME] = 0;
	for (i = 0; i < 3; ++i)
		ebuf[i] = (char)(in_ext >> 8 * i);
	ebuf[3] = 0;
	/* length, last slash, last dot after it: computed independently of the code under contract */
	for (i = MAXNAME; i >= 0; --i) {
		if (buf[i] == 0)
			len = i;
	}
	for (i = 3; i >= 0; --i) {
		if (ebuf[i] == 0)
			elen = i;
	}
	for (i = 0; i < MAXNAME; ++i) {
		if (i < len && buf[i] == '/')
			slash = i;
	}
	for (i = 0; i < MAXNAME; ++i) {
		if (i < len && i > slash && buf[i] == '.')
			dot = i;
	}
	for (i = 0; i <= MAXNAME; ++i)
		g_c[i] = buf[i];
	for (i = 0; i < 4; ++i)
		g_e[i] = ebuf[i];
	g_len = len; g_slash = slash; g_dot = dot; g_extlen = elen;

	CALLR(char *, PRE, POST, changeext(name, ext));
}
