/*
 * drv_common.h -- shared by the units on /repo/driver.c: pulls in the system headers first (so that the OS-model
 * macros only rewrite driver.c's CALLS), then the OS model, then the REAL driver.c.
 */
#ifndef DRV_COMMON_H
#define DRV_COMMON_H

#include <errno.h>
#include <stdarg.h>
#include <stdbool.h>
#include <stdint.h>
#include <stdio.h>
#include <stdlib.h>
#include <string.h>
#include <fcntl.h>
#include <limits.h>
#include <signal.h>
#include <spawn.h>
#include <sys/wait.h>
#include <unistd.h>

#include "os_model.h"
#include "driver.c"
#include "verif.h"

#define NSTAGES 5
#define PRELINK(m) ((m) & 15u)          /* PREPROCESS..ASSEMBLE */

/* the k-th (from 0) stage of the stage set m in pipeline order, or -1 (loop-free) */
static int
kth_stage(unsigned m, int k)
{
	int c = 0;

	if (m & 1) { if (c == k) return 0; ++c; }
	if (m & 2) { if (c == k) return 1; ++c; }
	if (m & 4) { if (c == k) return 2; ++c; }
	if (m & 8) { if (c == k) return 3; ++c; }
	if (m & 16) { if (c == k) return 4; ++c; }
	return -1;
}

static int
popcount5(unsigned m)
{
	return (m & 1) + (m >> 1 & 1) + (m >> 2 & 1) + (m >> 3 & 1) + (m >> 4 & 1);
}

#endif
