/* UNIT
{
 "id": "DRV.succeeded",
 "file": "driver.c", "function": "succeeded",
 "properties": {"C18": "contract", "C19": "safety"},
 "mode": "dfcc", "enforce": "succeeded/succeeded_contract",
 "kind": "proof",
 "noreturn_macros": false, "stubs": ["os_model.c"],
 "timeout": 120,
 "expects": ["postcondition"],
 "assumes": ["status word layout of the Linux ABI (glibc/musl <sys/wait.h>): bits 0..6 terminating signal (0: exited), bit 7 core flag, bits 8..15 exit code"]
}
*/
#include "drv_common.h"

int g_status;

#define PRE(X) X(status == g_status) X(phase != 0)

/* a stage succeeded iff it exited (was not signalled, not stopped) with exit code 0 -- for EVERY 32-bit status word */
#define EXITED    ((g_status & 0x7f) == 0)
#define EXITCODE  ((g_status >> 8) & 0xff)
#define POST(X) \
	X(RET == (EXITED && EXITCODE == 0)) \
	X(IMP(RET, WIFEXITED(g_status) && WEXITSTATUS(g_status) == 0)) \
	X(IMP(WIFSIGNALED(g_status), !RET)) \
	CANARY(X, !(g_status == 0x100))

void osm_at_exit(int s) { __CPROVER_assert(0, "no exit"); }

static bool succeeded_contract(const char *phase, pid_t pid, int status)
REQUIRES(PRE)
__CPROVER_assigns()
ENSURES(POST);

void
harness(void)
{
	char nm[] = "link";
	const char *phase = nm;
	pid_t pid;
	int status;

	IN(int, in_status);
	IN(int, in_pid);

	status = in_status; pid = in_pid; g_status = status;
	CALLR(bool, PRE, POST, succeeded(phase, pid, status));
}
