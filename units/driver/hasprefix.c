/* UNIT
{
 "id": "DRV.hasprefix",
 "file": "driver.c", "function": "hasprefix",
 "properties": {"C17": "contract", "C19": "safety"},
 "mode": "dfcc", "enforce": "hasprefix/hasprefix_contract",
 "kind": "bounded", "bound": "str up to 12 bytes, pfx up to 8 bytes (any bytes); libc strlen/memcmp are CBMC's models",
 "unwind": 14,
 "noreturn_macros": false, "stubs": ["os_model.c"],
 "timeout": 120,
 "expects": ["postcondition"],
 "assumes": ["the object str points to is at least strlen(pfx) bytes long (memcmp reads that many bytes whatever str contains): true for main()'s only use, config.h target[] (>= 17 bytes) against prefixes of at most 8 bytes; a target string shorter than 8 bytes would be read out of bounds"]
}
*/
#include "drv_common.h"

#define MAXS 12
#define MAXP 8
int g_slen, g_plen;        /* strlen(str), strlen(pfx) */
bool g_isprefix;           /* the first g_plen bytes of str are those of pfx (and str is that long) */

#define PRE(X) \
	X(str != 0 && pfx != 0 && g_slen >= 0 && g_slen <= MAXS && g_plen >= 0 && g_plen <= MAXP) \
	X(str[g_slen] == 0 && pfx[g_plen] == 0)

#define POST(X) \
	X((RET != 0) == g_isprefix) \
	CANARY(X, !(g_plen == 7 && g_slen == 9 && g_isprefix))

void osm_at_exit(int status) { __CPROVER_assert(0, "no exit"); }

static int hasprefix_contract(const char *str, const char *pfx)
REQUIRES(PRE)
__CPROVER_assigns()
ENSURES(POST);

void
harness(void)
{
	char sbuf[MAXS + 1], pbuf[MAXP + 1];
	const char *str = sbuf, *pfx = pbuf;
	int i, slen = -1, plen = -1;
	bool eq = 1;

	IN(u64, in_slo); IN(u32, in_shi);      /* bytes of str */
	IN(u64, in_p);                         /* bytes of pfx */

	for (i = 0; i < MAXS; ++i)
		sbuf[i] = (char)(i < 8 ? in_slo >> 8 * i : in_shi >> 8 * (i - 8));
	sbuf[MAXS] = 0;
	for (i = 0; i < MAXP; ++i)
		pbuf[i] = (char)(in_p >> 8 * i);
	pbuf[MAXP] = 0;
	for (i = MAXS; i >= 0; --i) {
		if (sbuf[i] == 0)
			slen = i;
	}
	for (i = MAXP; i >= 0; --i) {
		if (pbuf[i] == 0)
			plen = i;
	}
	/* "str starts with pfx", byte by byte, independently of the code under contract */
	for (i = 0; i < MAXP; ++i) {
		if (i < plen && (i >= slen || sbuf[i] != pbuf[i]))
			eq = 0;
	}
	g_slen = slen; g_plen = plen; g_isprefix = eq;

	CALLR(int, PRE, POST, hasprefix(str, pfx));
}
