/* UNIT
{
 "id": "DRV.buildobj.pipeline",
 "file": "driver.c", "function": "buildobj", "also_functions": ["spawnphase", "spawn", "succeeded"],
 "properties": {"C18": "contract", "C19": "safety"},
 "mode": "harness",
 "kind": "proof-const-unwind", "unwind": 13, "unwindset": ["buildobj.3:7", "strlen.0:20", "strcpy.0:20"],
 "variants": {"P": ["-DV_STAGES=1"], "PA": ["-DV_STAGES=9"], "PAL": ["-DV_STAGES=25"], "PC": ["-DV_STAGES=3"], "PCG": ["-DV_STAGES=7"],
              "PCGA": ["-DV_STAGES=15"], "PCGAL": ["-DV_STAGES=31"], "C": ["-DV_STAGES=2"], "CG": ["-DV_STAGES=6"], "CGA": ["-DV_STAGES=14"],
              "CGAL": ["-DV_STAGES=30"], "G": ["-DV_STAGES=4"], "GA": ["-DV_STAGES=12"], "GAL": ["-DV_STAGES=28"], "A": ["-DV_STAGES=8"], "AL": ["-DV_STAGES=24"]},
 "canary_variant": "PCGA",
 "noreturn_macros": false, "stubs": ["os_model.c"], "link_repo": ["util.c"],
 "cbmc_flags": ["--no-malloc-may-fail", "--object-bits", "10"],
 "timeout": 200,
 "expects": ["assertion_verif"],
 "assumes": ["OS model stubs/os_model.c: a child is reported by wait() exactly once, wait() does not block forever and fails only when no child is left; posix_spawnp leaves *pid alone on failure (glibc, musl; POSIX says unspecified)",
             "memory allocation in the driver does not fail (--no-malloc-may-fail): util.c fatal() on OOM exits 1 without cleanup, outside C18's fault model",
             "posix_spawn_file_actions_adddup2(fd, 0) does not fail (spawnphase ignores its result, driver.c:161)",
             "flags.verbose is off (the -v listing is stdio only)",
             "no earlier temporary exists (first input); the multi-input case is unit DRV.buildobj.prevtmp",
             "stage sets are the 16 that main() can produce (file-type table cut at the last stage), one CBMC run each: a symbolic stage set costs > 30 GB",
             "stage command vectors hold 2 base arguments in a 32-byte array (growth through the real arrayadd happens on the last stage)",
             "no DFCC frame check (harness mode): DFCC instrumentation of the whole pipeline did not finish symex in 70 s"]
}
*/
#include "drv_common.h"

/* ------------------------------------------------------------------ ghosts (logical variables of the contract) */
unsigned g_stages0;          /* input->stages at entry */
int g_ft;                    /* input->filetype */
char *g_name0;               /* input->name at entry */
char *g_out;                 /* the output argument */
int g_outdash;               /* output is "-" */
int g_namedash;              /* input->name is "-" (standard input) */
int g_k;                     /* an arbitrary child index: "for every spawned stage" without a quantifier */
void *g_arg0[NSTAGES];       /* first word of each stage's base command */
size_t g_base[NSTAGES];      /* cmdbase of each stage */

#define LINKING      ((g_stages0 >> LINK & 1) != 0)
#define NRUN         popcount5(PRELINK(g_stages0))                 /* stages that must be spawned */
#define STAGE_OF(k)  kth_stage(PRELINK(g_stages0), (k))
#define CH(k)        (osm.child[k])
#define ISLAST(k)    ((k) == NRUN - 1)
/* the file the pipeline produces, as far as the caller can name it: the -o argument unless it is "-" */
#define NAMED_OUT    (!LINKING && g_out != 0 && !g_outdash)
#define TO_STDOUT    (!LINKING && ((g_out != 0 && g_outdash) || (g_out == 0 && PRELINK(g_stages0) == 1u)))
/* argv of child k: base command, then "-o" output for the last stage when there is an output file, then the input
   file for the first stage when it is not standard input, then NULL */
#define ARGV(k)      (CH(k).argv)
#define NBASE(k)     ((int)(g_base[STAGE_OF(k)] / sizeof(char *)))
#define HAS_O(k)     (ISLAST(k) && !TO_STDOUT)
#define HAS_IN(k)    ((k) == 0 && !g_namedash)

#define PRE(X) \
	X(input != 0 && input->name != 0 && input->name == g_name0) \
	X(g_ft == (int)input->filetype && g_ft >= ASM && g_ft <= QBE) \
	X(g_stages0 == input->stages && g_stages0 >= 1 && g_stages0 <= 31) \
	X(output == g_out) \
	X(IMP(g_out != 0, g_outdash == (g_out[0] == '-' && g_out[1] == 0))) \
	X(g_namedash == (g_name0[0] == '-' && g_name0[1] == 0)) \
	/* invariant of main's loop (and a postcondition below): no stage process is pending */ \
	X(stages[0].pid == 0 && stages[1].pid == 0 && stages[2].pid == 0 && stages[3].pid == 0 && stages[4].pid == 0) \
	X(!flags.verbose) \
	X(osm.nattempt == 0 && osm.spawned == 0 && osm.nfail == 0 && osm.ntmp == 0 && osm.nunlink == 0 && osm.fd_open == 0 && osm.exited == 0) \
	X(g_k >= 0 && g_k < NSTAGES)

/* (a) normal return */
#define POST(X) \
	X(IMP(g_ft == OBJ, osm.nspawn == 0 && input->name == g_name0 && input->stages == g_stages0)) \
	/* every requested stage was started exactly once, none failed to start */ \
	X(IMP(g_ft != OBJ, osm.nspawn == NRUN && osm_nchild() == NRUN)) \
	/* every spawned stage exited with status 0 ... */ \
	X(IMP(g_ft != OBJ, osm.nfail == 0)) \
	/* ... and was reaped */ \
	X(IMP(g_ft != OBJ, osm_nlive() == 0)) \
	X(IMP(g_ft != OBJ, input->stages == 0)) \
	/* input->name is the produced file */ \
	X(IMP(g_ft != OBJ && LINKING, osm.ntmp == 1 && input->name == osm.tmp[0] && osm_tmp_left() == 1)) \
	X(IMP(g_ft != OBJ && NAMED_OUT, input->name == g_out)) \
	X(IMP(g_ft != OBJ && TO_STDOUT, input->name == 0)) \
	X(IMP(g_ft != OBJ && !LINKING && !NAMED_OUT && !TO_STDOUT, input->name != 0 && input->name != g_name0)) \
	/* the output stays in place: nothing is removed, nobody is signalled without cause */ \
	X(osm.nunlink == 0) \
	X(osm.badkill == 0) \
	X(osm.nkill == 0) \
	/* no stage process pending: establishes PRE for the next input */ \
	X(stages[0].pid == 0 && stages[1].pid == 0 && stages[2].pid == 0 && stages[3].pid == 0 && stages[4].pid == 0) \
	/* the pipeline: child g_k is stage STAGE_OF(g_k), reads the pipe its predecessor writes, first reads no pipe, \
	   last writes no pipe; no stage inherits a stray pipe descriptor (downstream must see EOF) */ \
	X(IMP(g_ft != OBJ && g_k < NRUN, CH(g_k).pidp == &stages[STAGE_OF(g_k)].pid)) \
	X(IMP(g_ft != OBJ && g_k < NRUN && g_k == 0, CH(g_k).in_fd == -1)) \
	X(IMP(g_ft != OBJ && g_k < NRUN && g_k > 0, CH(g_k).in_pipe != -1 && CH(g_k).in_pipe == CH(g_k > 0 ? g_k - 1 : 0).out_pipe)) \
	X(IMP(g_ft != OBJ && g_k < NRUN && ISLAST(g_k), CH(g_k).out_fd == -1)) \
	X(IMP(g_ft != OBJ && g_k < NRUN && !ISLAST(g_k), CH(g_k).out_pipe != -1)) \
	X(IMP(g_ft != OBJ && g_k < NRUN, CH(g_k).leaked == 0)) \
	X(osm_write_ends_open() == 0) \
	X(osm.badclose == 0 && osm.fa_bad == 0 && IMP(g_ft != OBJ && NRUN > 0, osm.fa_destroyed == 1)) \
	/* each tool gets its base command, "-o output" on the last stage, the input file on the first */ \
	X(IMP(g_ft != OBJ && g_k < NRUN, ARGV(g_k) == stages[STAGE_OF(g_k)].cmd.val && ARGV(g_k)[0] == g_arg0[STAGE_OF(g_k)])) \
	X(IMP(g_ft != OBJ && g_k < NRUN, CH(g_k).argc == NBASE(g_k) + 2 * HAS_O(g_k) + HAS_IN(g_k))) \
	X(IMP(g_ft != OBJ && g_k < NRUN && HAS_O(g_k), ARGV(g_k)[NBASE(g_k)][0] == '-' && ARGV(g_k)[NBASE(g_k)][1] == 'o' && ARGV(g_k)[NBASE(g_k)][2] == 0)) \
	X(IMP(g_ft != OBJ && g_k < NRUN && HAS_O(g_k), ARGV(g_k)[NBASE(g_k) + 1] == input->name)) \
	X(IMP(g_ft != OBJ && g_k < NRUN && HAS_IN(g_k), ARGV(g_k)[NBASE(g_k) + 2 * HAS_O(g_k)] == g_name0)) \
	CANARY(X, !(g_stages0 == 15 && g_k == 2 && g_out == 0))

/* (b) exit(status): clauses evaluated by the OS model when the real code calls exit() */
void
osm_at_exit(int status)
{
	__CPROVER_assert(status == 1, "EXIT status is 1");
	__CPROVER_assert(osm.nfail > 0 || osm_tape.mkstemp_err != 0, "EXIT only if some stage failed (spawn failure, non-zero exit, signal) or mkstemp failed");
	__CPROVER_assert(osm_nlive() == 0, "EXIT no child is still live (all reaped)");
	__CPROVER_assert(osm_term_missing() == 0, "EXIT every stage that was live at the first failure was sent SIGTERM");
	__CPROVER_assert(osm.badkill == 0, "EXIT kill(SIGTERM) went to live stage pids only");
	__CPROVER_assert(osm_tmp_left() == 0, "EXIT the mkstemp temporary was unlinked");
	__CPROVER_assert(IMP(NAMED_OUT && osm.nspawn > 0, osm_was_unlinked(g_out)), "EXIT the -o output file was unlinked");
	__CPROVER_assert(IMP(TO_STDOUT, osm.nunlink == 0), "EXIT nothing is unlinked when the output is standard output");
	__CPROVER_assert(IMP(!TO_STDOUT && osm.nspawn > 0, osm.nunlink == 1), "EXIT exactly the output file was unlinked");
	__CPROVER_assert(IMP(osm.nunlink == 1, osm.unlinked[0] != g_name0), "EXIT the input file is never unlinked");
#ifdef VERIF_CANARY_EXIT
	__CPROVER_assert(!(g_stages0 == 7 && osm.nspawnfail == 0), "CANARY exit reachable");
#endif
}

static char name_path[] = "d/t.c";
static char name_dash[] = "-";
static char out_path[] = "o.x";
static char out_dash[] = "-";
static char *const toolname[NSTAGES] = {"cpp", "cc", "qbe", "as", "ld"};

static void
mkstage(int i, unsigned nbase)
{
	char **v;
	unsigned j;

	v = malloc(4 * sizeof *v);
	__CPROVER_assume(v != 0);
	for (j = 0; j < 4; ++j)
		v[j] = toolname[i];
	stages[i].cmd.val = v;
	stages[i].cmd.cap = 4 * sizeof *v;
	stages[i].cmd.len = nbase * sizeof *v;
	stages[i].cmdbase = nbase * sizeof *v;
	stages[i].pid = 0;
	g_arg0[i] = v[0];
	g_base[i] = stages[i].cmdbase;
}

void
harness(void)
{
	static struct input in;
	struct input *input = &in;
	char *output;

	IN(int, in_ft);
	IN(unsigned, in_stages);
	IN(int, in_outmode);        /* 0: NULL, 1: "-", 2: a path */
	IN(bool, in_namedash);
	/* the environment's choices */
	IN(int, in_pidbase);
	IN(int, in_sp0); IN(int, in_sp1); IN(int, in_sp2); IN(int, in_sp3);
	IN(u8, in_wp0); IN(u8, in_wp1); IN(u8, in_wp2); IN(u8, in_wp3); IN(u8, in_wp4);
	IN(bool, in_wu0); IN(bool, in_wu1); IN(bool, in_wu2); IN(bool, in_wu3); IN(bool, in_wu4);
	IN(int, in_ws0); IN(int, in_ws1); IN(int, in_ws2); IN(int, in_ws3); IN(int, in_ws4);
	IN(int, in_nunknown);
	IN(int, in_pe0); IN(int, in_pe1); IN(int, in_pe2);
	IN(int, in_fe0); IN(int, in_fe1); IN(int, in_fe2); IN(int, in_fe3); IN(int, in_fe4); IN(int, in_fe5);
	IN(int, in_fi0); IN(int, in_fi1); IN(int, in_fi2); IN(int, in_fi3);
	IN(int, in_fo0); IN(int, in_fo1); IN(int, in_fo2);
	IN(int, in_mk);
	ING(int, g_k);

	__CPROVER_assume(in_pidbase >= 1 && in_pidbase <= 0x7fff0000);
	__CPROVER_assume(in_nunknown >= 0 && in_nunknown <= 1);
	__CPROVER_assume(osm_status_valid(in_ws0) && osm_status_valid(in_ws1) && osm_status_valid(in_ws2) &&
	                 osm_status_valid(in_ws3) && osm_status_valid(in_ws4));
	/* errno values are positive */
	__CPROVER_assume(in_pe0 >= 0 && in_pe1 >= 0 && in_pe2 >= 0 && in_mk >= 0);
	__CPROVER_assume(in_fe0 >= 0 && in_fe1 >= 0 && in_fe2 >= 0 && in_fe3 >= 0 && in_fe4 >= 0 && in_fe5 >= 0);
	osm_tape.pidbase = in_pidbase;
	osm_tape.spawn_err[0] = in_sp0; osm_tape.spawn_err[1] = in_sp1; osm_tape.spawn_err[2] = in_sp2; osm_tape.spawn_err[3] = in_sp3;
	osm_tape.wait_pick[0] = in_wp0; osm_tape.wait_pick[1] = in_wp1; osm_tape.wait_pick[2] = in_wp2; osm_tape.wait_pick[3] = in_wp3; osm_tape.wait_pick[4] = in_wp4;
	osm_tape.wait_unknown[0] = in_wu0; osm_tape.wait_unknown[1] = in_wu1; osm_tape.wait_unknown[2] = in_wu2; osm_tape.wait_unknown[3] = in_wu3; osm_tape.wait_unknown[4] = in_wu4;
	osm_tape.wait_status[0] = in_ws0; osm_tape.wait_status[1] = in_ws1; osm_tape.wait_status[2] = in_ws2; osm_tape.wait_status[3] = in_ws3; osm_tape.wait_status[4] = in_ws4;
	osm_tape.nunknown = in_nunknown;
	osm_tape.pipe_err[0] = in_pe0; osm_tape.pipe_err[1] = in_pe1; osm_tape.pipe_err[2] = in_pe2;
	osm_tape.fcntl_err[0][0] = in_fe0; osm_tape.fcntl_err[0][1] = in_fe1; osm_tape.fcntl_err[1][0] = in_fe2;
	osm_tape.fcntl_err[1][1] = in_fe3; osm_tape.fcntl_err[2][0] = in_fe4; osm_tape.fcntl_err[2][1] = in_fe5;
	osm_tape.fa_init_err[0] = in_fi0; osm_tape.fa_init_err[1] = in_fi1; osm_tape.fa_init_err[2] = in_fi2; osm_tape.fa_init_err[3] = in_fi3;
	osm_tape.fa_dup2_out_err[0] = in_fo0; osm_tape.fa_dup2_out_err[1] = in_fo1; osm_tape.fa_dup2_out_err[2] = in_fo2;
	osm_tape.mkstemp_err = in_mk;
	osm_reset();

	mkstage(PREPROCESS, 2); mkstage(COMPILE, 2); mkstage(CODEGEN, 2); mkstage(ASSEMBLE, 2); mkstage(LINK, 2);
	flags.verbose = 0;

	__CPROVER_assume(in_ft >= ASM && in_ft <= QBE);
#ifdef V_STAGES
	/* one CBMC run per stage set that main() can produce */
	__CPROVER_assume(in_stages == V_STAGES);
#else
	__CPROVER_assume(in_stages >= 1 && in_stages <= 31);
#endif
	__CPROVER_assume(in_outmode >= 0 && in_outmode <= 2);
	input->filetype = in_ft;
	input->stages = in_stages;
	input->name = in_namedash ? name_dash : name_path;
	input->lib = 0;
	output = in_outmode == 0 ? 0 : in_outmode == 1 ? out_dash : out_path;

	g_ft = in_ft; g_stages0 = in_stages; g_name0 = input->name; g_out = output;
	g_outdash = in_outmode == 1; g_namedash = in_namedash;

	HCALL(PRE, POST, buildobj(input, output));
}
