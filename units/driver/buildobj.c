/* UNIT
{
 "id": "DRV.buildobj",
 "file": "driver.c", "function": "buildobj", "also_functions": ["succeeded", "changeext"],
 "properties": {"C18": "contract", "C19": "safety"},
 "mode": "dfcc", "enforce": "buildobj/buildobj_contract",
 "replace_calls": {"spawnphase": "rec_spawnphase", "fatal": "osm_oom"},
 "kind": "proof-const-unwind", "unwind": 8, "unwindset": ["strlen.0:20", "strcpy.0:20"],
 "noreturn_macros": false, "stubs": ["os_model.c"], "link_repo": ["util.c"],
 "timeout": 200,
 "expects": ["postcondition", "assertion_verif", "assigns"],
 "assumes": ["OS model stubs/os_model.c: a child is reported by wait() exactly once, wait() does not block forever and fails only when no child is left",
             "spawnphase() is replaced by rec_spawnphase(): either fails with any errno leaving nothing behind, or starts one child for that stage (osm_stage_start); unit DRV.spawnphase proves the real spawnphase has exactly these two outcomes",
             "util.c's fatal() (reached only when malloc/realloc fail inside xmalloc/arrayadd) ends the path: OOM in the driver exits 1 without cleanup, outside C18's fault model",
             "no earlier temporary exists (first input); the multi-input case is unit DRV.buildobj.prevtmp",
             "at most one unrelated child is reported by wait()"]
}
*/
#include "drv_common.h"

/* ------------------------------------------------------------------ ghosts (logical variables of the contract) */
unsigned g_stages0;          /* input->stages at entry */
int g_ft;                    /* input->filetype */
char *g_name0;               /* input->name at entry */
char *g_out;                 /* the output argument */
int g_outdash;               /* output is "-" */
int g_namedash;              /* input->name is "-" (standard input) */
int *g_errno;               /* &errno (the OS model sets it) */
int g_k;                     /* an arbitrary attempt index: "for every spawned stage" without a quantifier */

/* what the stub that stands for spawnphase() was asked to do, per attempt */
struct rec {
	struct stageinfo *phase;
	char *input, *output;
	int fd_in;
	bool last;
} rec[OSM_MAXCHILD];

int
rec_spawnphase(struct stageinfo *phase, int *fd, char *input, char *output, bool last)
{
	int i;

	for (i = 0; i < OSM_MAXCHILD; ++i) {
		if (i == osm.nattempt) {
			rec[i].phase = phase;
			rec[i].input = input;
			rec[i].output = output;
			rec[i].fd_in = *fd;
			rec[i].last = last;
		}
	}
	return osm_stage_start(&phase->pid, fd, last);
}

#ifndef NPREV
#define NPREV 0              /* temporaries left by earlier inputs of the same invocation (DRV.buildobj.prevtmp: 1) */
#endif
/* clauses about what the spawnphase stand-in recorded: the native replay runs the REAL spawnphase (replace_calls is
   a goto-instrument step), so there they are vacuous and only the OS-model clauses are evaluated */
#ifdef VERIF_REPLAY
#define REC(c) 1
#else
#define REC(c) (c)
#endif
#define LINKING      ((g_stages0 >> LINK & 1) != 0)
#define NRUN         popcount5(PRELINK(g_stages0))                 /* stages that must be spawned */
#define STAGE_OF(k)  kth_stage(PRELINK(g_stages0), (k))
#define CH(k)        (osm.child[k])
#define ISLAST(k)    ((k) == NRUN - 1)
/* the file the pipeline produces, as far as the caller can name it: the -o argument unless it is "-" */
#define NAMED_OUT    (!LINKING && g_out != 0 && !g_outdash)
#define TO_STDOUT    (!LINKING && ((g_out != 0 && g_outdash) || (g_out == 0 && PRELINK(g_stages0) == 1u)))
#define RUNS         (g_ft != OBJ)
#define ZEROPIDS     (stages[0].pid == 0 && stages[1].pid == 0 && stages[2].pid == 0 && stages[3].pid == 0 && stages[4].pid == 0)

#define PRE(X) \
	X(input != 0 && input->name != 0 && input->name == g_name0) \
	X(g_ft == (int)input->filetype && g_ft >= ASM && g_ft <= QBE) \
	X(g_stages0 == input->stages && g_stages0 >= 1 && g_stages0 <= 31) \
	X(output == g_out) \
	X(IMP(g_out != 0, g_outdash == (g_out[0] == '-' && g_out[1] == 0))) \
	X(g_namedash == (g_name0[0] == '-' && g_name0[1] == 0)) \
	/* invariant of main's loop (and a postcondition below): no stage process is pending */ \
	X(ZEROPIDS) \
	X(osm.nattempt == 0 && osm.spawned == 0 && osm.nfail == 0 && osm.ntmp == NPREV && osm.nunlink == 0 && osm.fd_open == 0 && osm.exited == 0) \
	X(g_errno == &errno) \
	X(g_k >= 0 && g_k < NSTAGES)

/* (a) normal return */
#define POST(X) \
	X(IMP(!RUNS, osm.nspawn == 0 && input->name == g_name0 && input->stages == g_stages0)) \
	/* every requested stage was started exactly once, in pipeline order */ \
	X(IMP(RUNS, osm.nspawn == NRUN && osm_nchild() == NRUN)) \
	X(IMP(RUNS && g_k < NRUN, REC(rec[g_k].phase == &stages[STAGE_OF(g_k)]))) \
	/* every spawned stage exited with status 0 ... */ \
	X(IMP(RUNS, osm.nfail == 0)) \
	/* ... and was reaped */ \
	X(IMP(RUNS, osm_nlive() == 0)) \
	X(IMP(RUNS, input->stages == 0)) \
	/* input->name is the produced file */ \
	X(IMP(RUNS && LINKING, osm.ntmp == NPREV + 1 && input->name == osm.tmp[NPREV] && osm_tmp_left() == NPREV + 1)) \
	X(IMP(RUNS && NAMED_OUT, input->name == g_out)) \
	X(IMP(RUNS && TO_STDOUT, input->name == 0)) \
	X(IMP(RUNS && !LINKING && !NAMED_OUT && !TO_STDOUT, input->name != 0 && input->name != g_name0)) \
	/* the output stays in place: nothing is removed, nobody is signalled */ \
	X(osm.nunlink == 0) \
	X(osm.badkill == 0) \
	X(osm.nkill == 0) \
	/* no stage process pending: establishes PRE for the next input */ \
	X(ZEROPIDS) \
	/* the pipeline: the first stage reads the input file (or the driver's stdin), each later stage reads the pipe \
	   its predecessor writes; only the last stage gets the output file */ \
	X(IMP(RUNS && g_k < NRUN && g_k == 0, REC(rec[g_k].fd_in == -1 && rec[g_k].input == (g_namedash ? (char *)0 : g_name0)))) \
	X(IMP(RUNS && g_k < NRUN && g_k > 0, CH(g_k).in_pipe != -1 && CH(g_k).in_pipe == CH(g_k > 0 ? g_k - 1 : 0).out_pipe)) \
	X(IMP(RUNS && g_k < NRUN, REC(rec[g_k].last == ISLAST(g_k)))) \
	X(IMP(RUNS && g_k < NRUN && ISLAST(g_k), REC(rec[g_k].output == input->name))) \
	/* the mkstemp descriptor is closed again */ \
	X(osm.badclose == 0 && (osm.fd_open >> (2 * OSM_MAXCHILD)) == 0) \
	CANARY(X, !(g_stages0 == 15 && g_k == 2 && g_out == 0))

/* (b) exit(status): clauses evaluated by the OS model when the real code calls exit() */
void
osm_at_exit(int status)
{
	__CPROVER_assert(status == 1, "EXIT status is 1");
	__CPROVER_assert(osm.nfail > 0 || osm.nattempt == 0, "EXIT only if some stage failed (spawn failure, non-zero exit, signal), or before any stage was started (mkstemp/strdup failure)");
	__CPROVER_assert(osm_nlive() == 0, "EXIT no child is still live (all reaped)");
	__CPROVER_assert(osm_term_missing() == 0, "EXIT every stage that was live at the first failure was sent SIGTERM");
	__CPROVER_assert(osm.late_term == 0, "EXIT after the first failure every still-live stage was sent SIGTERM before the next wait()");
	__CPROVER_assert(osm.badkill == 0, "EXIT kill(SIGTERM) went to live stage pids only");
	__CPROVER_assert(osm_tmp_left() == 0, "EXIT no temporary object of this invocation is left behind");
	__CPROVER_assert(IMP(NAMED_OUT && osm.nspawn > 0, osm_was_unlinked(g_out)), "EXIT the -o output file was unlinked");
	__CPROVER_assert(IMP(TO_STDOUT, osm.nunlink == 0), "EXIT nothing is unlinked when the output is standard output");
	__CPROVER_assert(IMP(!TO_STDOUT && osm.nspawn > 0, osm.nunlink == 1), "EXIT exactly the output file was unlinked");
	__CPROVER_assert(IMP(osm.nunlink >= 1, osm.unlinked[0] != g_name0), "EXIT the input file is never unlinked");
}

static void buildobj_contract(struct input *input, char *output)
REQUIRES(PRE)
__CPROVER_assigns(input->name, input->stages, osm, *g_errno, __CPROVER_object_whole(rec),
                  stages[0].pid, stages[1].pid, stages[2].pid, stages[3].pid, stages[4].pid)
ENSURES(POST);

void
harness(void)
{
	/* DFCC makes every static object nondeterministic at the start: all inputs are built here */
	char prev_tmp[] = "/tmp/cproc-a12345";
	char name_path[] = "d/t.c", name_dash[] = "-", out_path[] = "o.x", out_dash[] = "-";
	struct input in;
	struct input *input = &in;
	char *output;
	int i;

	IN(int, in_ft);
	IN(unsigned, in_stages);
	IN(int, in_outmode);        /* 0: NULL, 1: "-", 2: a path */
	IN(bool, in_namedash);
	/* the environment's choices */
	IN(int, in_pidhi);          /* pids are (in_pidhi << 3) + 0..7 */
	IN(int, in_sp0); IN(int, in_sp1); IN(int, in_sp2); IN(int, in_sp3);
	IN(u8, in_wp0); IN(u8, in_wp1); IN(u8, in_wp2); IN(u8, in_wp3); IN(u8, in_wp4);
	IN(bool, in_wu0); IN(bool, in_wu1); IN(bool, in_wu2); IN(bool, in_wu3); IN(bool, in_wu4);
	IN(int, in_ws0); IN(int, in_ws1); IN(int, in_ws2); IN(int, in_ws3); IN(int, in_ws4);
	IN(int, in_nunknown);
	IN(int, in_mk);
	ING(int, g_k);

	__CPROVER_assume(in_pidhi >= 1 && in_pidhi <= 15);
	__CPROVER_assume(in_nunknown >= 0 && in_nunknown <= 1);
	__CPROVER_assume(osm_status_valid(in_ws0) && osm_status_valid(in_ws1) && osm_status_valid(in_ws2) &&
	                 osm_status_valid(in_ws3) && osm_status_valid(in_ws4));
	__CPROVER_assume(in_mk >= 0);
	osm_tape.pidbase = in_pidhi << 3;
	osm_tape.spawn_err[0] = in_sp0; osm_tape.spawn_err[1] = in_sp1; osm_tape.spawn_err[2] = in_sp2; osm_tape.spawn_err[3] = in_sp3;
	osm_tape.wait_pick[0] = in_wp0; osm_tape.wait_pick[1] = in_wp1; osm_tape.wait_pick[2] = in_wp2; osm_tape.wait_pick[3] = in_wp3; osm_tape.wait_pick[4] = in_wp4;
	osm_tape.wait_unknown[0] = in_wu0; osm_tape.wait_unknown[1] = in_wu1; osm_tape.wait_unknown[2] = in_wu2; osm_tape.wait_unknown[3] = in_wu3; osm_tape.wait_unknown[4] = in_wu4;
	osm_tape.wait_status[0] = in_ws0; osm_tape.wait_status[1] = in_ws1; osm_tape.wait_status[2] = in_ws2; osm_tape.wait_status[3] = in_ws3; osm_tape.wait_status[4] = in_ws4;
	osm_tape.nunknown = in_nunknown;
	osm_tape.mkstemp_err = in_mk;
	osm_reset();
#if NPREV
	osm_pretend_tmp(prev_tmp);      /* an earlier input was built successfully: its object is the POST state of that call */
#endif
	for (i = 0; i < NSTAGES; ++i)
		stages[i].pid = 0;
#ifdef VERIF_REPLAY
	/* the real spawnphase runs natively: give every stage a base command */
	for (i = 0; i < NSTAGES; ++i) {
		arrayaddptr(&stages[i].cmd, "tool");
		stages[i].cmdbase = stages[i].cmd.len;
	}
#endif

	__CPROVER_assume(in_ft >= ASM && in_ft <= QBE);
	__CPROVER_assume(in_stages >= 1 && in_stages <= 31);
	__CPROVER_assume(in_outmode >= 0 && in_outmode <= 2);
	input->filetype = in_ft;
	input->stages = in_stages;
	input->name = in_namedash ? name_dash : name_path;
	input->lib = 0;
	output = in_outmode == 0 ? 0 : in_outmode == 1 ? out_dash : out_path;

	g_errno = &errno;
	g_ft = in_ft; g_stages0 = in_stages; g_name0 = input->name; g_out = output;
	g_outdash = in_outmode == 1; g_namedash = in_namedash;

	CALL(PRE, POST, buildobj(input, output));
}
