/* UNIT
{
 "id": "DRV.buildobj.outname",
 "file": "driver.c", "function": "buildobj",
 "properties": {"C17": "contract"},
 "mode": "dfcc", "enforce": "buildobj/buildobj_contract",
 "replace_calls": {"spawnphase": "rec_spawnphase", "changeext": "rec_changeext", "fatal": "osm_oom"},
 "kind": "proof-const-unwind", "unwind": 8, "unwindset": ["strlen.0:20", "strcpy.0:20"],
 "noreturn_macros": false, "stubs": ["os_model.c"], "link_repo": ["util.c"],
 "timeout": 200,
 "expects": ["postcondition"],
 "assumes": ["the environment lets every stage succeed (the naming rule concerns the successful run; failures are DRV.buildobj)",
             "spawnphase() replaced by rec_spawnphase() as in DRV.buildobj; changeext() replaced by a recorder (its own contract is DRV.changeext)",
             "EXPECTED TO FAIL on the pinned tree for -emit-qbe without -o: cproc(1) says the output goes to standard output, buildobj writes <basename>.qbe"]
}
*/
#include "drv_common.h"

unsigned g_stages0;
char *g_name0, *g_out;
int g_namedash, g_outdash;
int *g_errno;

/* recorder standing for spawnphase(): what the last stage was given as output */
char *rec_lastout;
int rec_nlast;
int
rec_spawnphase(struct stageinfo *phase, int *fd, char *input, char *output, bool last)
{
	if (last) {
		rec_lastout = output;
		++rec_nlast;
	}
	return osm_stage_start(&phase->pid, fd, last);
}

/* recorder standing for changeext(): which name, which extension */
char rec_result[4];
const char *rec_cename, *rec_ceext;
int rec_nce;
char *
rec_changeext(const char *name, const char *ext)
{
	rec_cename = name;
	rec_ceext = ext;
	++rec_nce;
	return rec_result;
}

#ifdef VERIF_REPLAY
#define REC(c) 1          /* the native replay runs the real spawnphase/changeext: recorder clauses are vacuous there */
#else
#define REC(c) (c)
#endif
#define LAST_IS(s)  ((g_stages0 >> (s) & 1u) && (g_stages0 >> ((s) + 1)) == 0)
#define EXT_IS1(c)  (rec_ceext[0] == (c) && rec_ceext[1] == 0)
#define ZEROPIDS    (stages[0].pid == 0 && stages[1].pid == 0 && stages[2].pid == 0 && stages[3].pid == 0 && stages[4].pid == 0)

#define PRE(X) \
	X(input != 0 && input->name == g_name0 && g_name0 != 0 && input->filetype != OBJ) \
	X(g_stages0 == input->stages && g_stages0 >= 1 && g_stages0 <= 15) \
	X(output == g_out && IMP(g_out != 0, g_outdash == (g_out[0] == '-' && g_out[1] == 0))) \
	X(g_namedash == (g_name0[0] == '-' && g_name0[1] == 0)) \
	X(ZEROPIDS && osm.nattempt == 0 && osm.spawned == 0 && osm.nfail == 0 && osm.exited == 0) \
	X(rec_nlast == 0 && rec_nce == 0 && g_errno == &errno)

/* cproc(1), option -o: "Write the output to output.  By default, output is written to a.out.  Or, if -c is used,
   the output file is determined by replacing the source file extension with .o.  Or, if -E or -emit-qbe is used,
   the output is written to standard output."  (-c: last stage ASSEMBLE, -E: PREPROCESS, -emit-qbe: COMPILE) */
#define POST(X) \
	X(REC(rec_nlast == 1)) \
	/* -o file */ \
	X(IMP(g_out != 0 && !g_outdash, REC(rec_lastout == g_out) && input->name == g_out && REC(rec_nce == 0))) \
	/* -o - : standard output */ \
	X(IMP(g_out != 0 && g_outdash, REC(rec_lastout == 0) && input->name == 0 && REC(rec_nce == 0))) \
	/* -c without -o: source file extension replaced by .o */ \
	X(IMP(g_out == 0 && LAST_IS(ASSEMBLE), REC(rec_nce == 1 && rec_cename == g_name0 && EXT_IS1('o') && rec_lastout == rec_result && input->name == rec_result))) \
	/* -E without -o: standard output */ \
	X(IMP(g_out == 0 && LAST_IS(PREPROCESS), REC(rec_lastout == 0) && input->name == 0 && REC(rec_nce == 0))) \
	/* -emit-qbe without -o: standard output */ \
	X(IMP(g_out == 0 && LAST_IS(COMPILE), REC(rec_lastout == 0) && input->name == 0 && REC(rec_nce == 0))) \
	CANARY(X, !(g_stages0 == 15 && g_out == 0))

void
osm_at_exit(int status)
{
	__CPROVER_assert(0, "no exit when every stage succeeds");
}

static void buildobj_contract(struct input *input, char *output)
REQUIRES(PRE)
__CPROVER_assigns(input->name, input->stages, osm, *g_errno, rec_lastout, rec_nlast, rec_cename, rec_ceext, rec_nce,
                  stages[0].pid, stages[1].pid, stages[2].pid, stages[3].pid, stages[4].pid)
ENSURES(POST);

void
harness(void)
{
	char name_path[] = "d/t.c", name_dash[] = "-", out_path[] = "o.x", out_dash[] = "-";
	struct input in;
	struct input *input = &in;
	char *output;
	int i;

	IN(int, in_ft);
	IN(unsigned, in_stages);
	IN(int, in_outmode);        /* 0: NULL, 1: "-", 2: a path */
	IN(bool, in_namedash);
	IN(u8, in_wp0); IN(u8, in_wp1); IN(u8, in_wp2); IN(u8, in_wp3);

	memset(&osm_tape, 0, sizeof osm_tape);          /* every spawn succeeds, every child exits 0 */
	osm_tape.pidbase = 1000;
	osm_tape.wait_pick[0] = in_wp0; osm_tape.wait_pick[1] = in_wp1; osm_tape.wait_pick[2] = in_wp2; osm_tape.wait_pick[3] = in_wp3;
	osm_reset();
	for (i = 0; i < NSTAGES; ++i)
		stages[i].pid = 0;
	rec_nlast = rec_nce = 0;
#ifdef VERIF_REPLAY
	for (i = 0; i < NSTAGES; ++i) {
		arrayaddptr(&stages[i].cmd, "tool");
		stages[i].cmdbase = stages[i].cmd.len;
	}
#endif

	__CPROVER_assume(in_ft >= ASM && in_ft <= QBE && in_ft != OBJ);
	__CPROVER_assume(in_stages >= 1 && in_stages <= 15);
	__CPROVER_assume(in_outmode >= 0 && in_outmode <= 2);
	input->filetype = in_ft;
	input->stages = in_stages;
	input->name = in_namedash ? name_dash : name_path;
	input->lib = 0;
	output = in_outmode == 0 ? (char *)0 : in_outmode == 1 ? out_dash : out_path;

	g_stages0 = in_stages; g_name0 = input->name; g_out = output;
	g_outdash = in_outmode == 1; g_namedash = in_namedash; g_errno = &errno;

	CALL(PRE, POST, buildobj(input, output));
}
