/* UNIT
{
 "id": "DRV.detectfiletype",
 "file": "driver.c", "function": "detectfiletype",
 "properties": {"C17": "contract", "C19": "safety"},
 "mode": "dfcc", "enforce": "detectfiletype/detectfiletype_contract",
 "kind": "bounded", "bound": "file names of at most 12 bytes (any bytes, any number of dots); libc strrchr/strcmp are CBMC's models",
 "unwind": 14,
 "noreturn_macros": false, "stubs": ["os_model.c"],
 "timeout": 120,
 "expects": ["postcondition"],
 "assumes": ["suffix table: cproc(1) only says 'known file extensions' and lists the -x formats (c, c-header, cpp-output, qbe, assembler, assembler-with-cpp); the suffix of each format is the conventional one (.c .h .i .qbe .s .S) as in gcc(1) 'Options Controlling the Kind of Output'; anything else goes to the linker"]
}
*/
#include "drv_common.h"

#define MAXNAME 12
int g_len;                 /* strlen(name) */
int g_dot;                 /* index of the LAST '.', -1 if there is none */
char g_c[MAXNAME + 1];     /* copy of the name */

/* suffix = the bytes after the last dot */
#define SUFLEN      (g_len - g_dot - 1)
#define SUF1(a)     (g_dot >= 0 && SUFLEN == 1 && g_c[g_dot + 1] == (a))
#define SUF3(a,b,c) (g_dot >= 0 && SUFLEN == 3 && g_c[g_dot + 1] == (a) && g_c[g_dot + 2] == (b) && g_c[g_dot + 3] == (c))
#define KNOWN       (SUF1('c') || SUF1('h') || SUF1('i') || SUF3('q','b','e') || SUF1('s') || SUF1('S'))

#define PRE(X) \
	X(name != 0 && g_len >= 0 && g_len <= MAXNAME) \
	X(name[g_len] == 0 && g_c[g_len] == 0) \
	X(g_dot >= -1 && g_dot < g_len)

#define POST(X) \
	X(IMP(SUF1('c'), RET == C)) \
	X(IMP(SUF1('h'), RET == CHDR)) \
	X(IMP(SUF1('i'), RET == CPPOUT)) \
	X(IMP(SUF3('q','b','e'), RET == QBE)) \
	X(IMP(SUF1('s'), RET == ASM)) \
	X(IMP(SUF1('S'), RET == ASMPP)) \
	/* no dot, or any other suffix (.o .a .so .C .cc .qb ...): an object for the linker */ \
	X(IMP(g_dot < 0, RET == OBJ)) \
	X(IMP(!KNOWN, RET == OBJ)) \
	CANARY(X, !(g_len == 7 && g_dot == 3 && SUF3('q','b','e')))

void osm_at_exit(int status) { __CPROVER_assert(0, "no exit"); }

static enum filetype detectfiletype_contract(const char *name)
REQUIRES(PRE)
__CPROVER_assigns()
ENSURES(POST);

void
harness(void)
{
	char buf[MAXNAME + 1];
	const char *name = buf;
	int i, dot = -1, len = -1;

	IN(u64, in_lo);            /* bytes 0..7 of the name */
	IN(u32, in_hi);            /* bytes 8..11 */

	for (i = 0; i < MAXNAME; ++i)
		buf[i] = (char)(i < 8 ? in_lo >> 8 * i : in_hi >> 8 * (i - 8));
	buf[MAXNAME] = 0;
	/* length and last dot, computed independently of the code under contract */
	for (i = MAXNAME; i >= 0; --i) {
		if (buf[i] == 0)
			len = i;
	}
	for (i = 0; i < MAXNAME; ++i) {
		if (i < len && buf[i] == '.')
			dot = i;
	}
	for (i = 0; i <= MAXNAME; ++i)
		g_c[i] = buf[i];
	g_len = len; g_dot = dot;

	CALLR(enum filetype, PRE, POST, detectfiletype(name));
}
