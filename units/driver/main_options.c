/* UNIT
{
 "id": "DRV.main.options",
 "file": "driver.c", "function": "main", "also_functions": ["nextarg", "hasprefix", "usage"],
 "properties": {"C17": "contract", "C19": "safety"},
 "mode": "harness",
 "replace_calls": {"arrayaddptr": "rec_arrayaddptr", "arrayaddbuf": "rec_arrayaddbuf", "compilecommand": "rec_compilecommand",
                   "buildobj": "rec_buildobj", "buildexe": "rec_buildexe", "fatal": "osm_oom"},
 "variants": {"D.att": ["-DV_OPT=0", "-DV_ATT=1", "-DV_HAS=0", "-DV_N=1"],
              "D.det": ["-DV_OPT=0", "-DV_ATT=0", "-DV_HAS=1", "-DV_N=1"],
              "D.missing": ["-DV_OPT=0", "-DV_ATT=0", "-DV_HAS=0", "-DV_N=1"],
              "U.att": ["-DV_OPT=1", "-DV_ATT=1", "-DV_HAS=0", "-DV_N=1"],
              "U.det": ["-DV_OPT=1", "-DV_ATT=0", "-DV_HAS=1", "-DV_N=1"],
              "U.missing": ["-DV_OPT=1", "-DV_ATT=0", "-DV_HAS=0", "-DV_N=1"],
              "I.att": ["-DV_OPT=2", "-DV_ATT=1", "-DV_HAS=0", "-DV_N=1"],
              "I.det": ["-DV_OPT=2", "-DV_ATT=0", "-DV_HAS=1", "-DV_N=1"],
              "I.missing": ["-DV_OPT=2", "-DV_ATT=0", "-DV_HAS=0", "-DV_N=1"],
              "L.att": ["-DV_OPT=3", "-DV_ATT=1", "-DV_HAS=0", "-DV_N=1"],
              "L.det": ["-DV_OPT=3", "-DV_ATT=0", "-DV_HAS=1", "-DV_N=1"],
              "L.missing": ["-DV_OPT=3", "-DV_ATT=0", "-DV_HAS=0", "-DV_N=1"],
              "include.det": ["-DV_OPT=4", "-DV_ATT=0", "-DV_HAS=1", "-DV_N=1"],
              "include.missing": ["-DV_OPT=4", "-DV_ATT=0", "-DV_HAS=0", "-DV_N=1"],
              "idirafter.det": ["-DV_OPT=5", "-DV_ATT=0", "-DV_HAS=1", "-DV_N=1"],
              "idirafter.missing": ["-DV_OPT=5", "-DV_ATT=0", "-DV_HAS=0", "-DV_N=1"],
              "isystem.det": ["-DV_OPT=6", "-DV_ATT=0", "-DV_HAS=1", "-DV_N=1"],
              "isystem.missing": ["-DV_OPT=6", "-DV_ATT=0", "-DV_HAS=0", "-DV_N=1"],
              "iquote.det": ["-DV_OPT=7", "-DV_ATT=0", "-DV_HAS=1", "-DV_N=1"],
              "iquote.missing": ["-DV_OPT=7", "-DV_ATT=0", "-DV_HAS=0", "-DV_N=1"],
              "MT.det": ["-DV_OPT=8", "-DV_ATT=0", "-DV_HAS=1", "-DV_N=1"],
              "MT.missing": ["-DV_OPT=8", "-DV_ATT=0", "-DV_HAS=0", "-DV_N=1"],
              "MF.det": ["-DV_OPT=9", "-DV_ATT=0", "-DV_HAS=1", "-DV_N=1"],
              "MF.missing": ["-DV_OPT=9", "-DV_ATT=0", "-DV_HAS=0", "-DV_N=1"],
              "nostdinc": ["-DV_OPT=10", "-DV_ATT=0", "-DV_HAS=0", "-DV_N=1"],
              "stdc11": ["-DV_OPT=11", "-DV_ATT=0", "-DV_HAS=0", "-DV_N=1"],
              "M": ["-DV_OPT=12", "-DV_ATT=0", "-DV_HAS=0", "-DV_N=1"],
              "MM": ["-DV_OPT=13", "-DV_ATT=0", "-DV_HAS=0", "-DV_N=1"],
              "MD": ["-DV_OPT=14", "-DV_ATT=0", "-DV_HAS=0", "-DV_N=1"],
              "MMD": ["-DV_OPT=15", "-DV_ATT=0", "-DV_HAS=0", "-DV_N=1"],
              "static": ["-DV_OPT=16", "-DV_ATT=0", "-DV_HAS=0", "-DV_N=1"],
              "P": ["-DV_OPT=17", "-DV_ATT=0", "-DV_HAS=0", "-DV_N=1"],
              "s": ["-DV_OPT=18", "-DV_ATT=0", "-DV_HAS=0", "-DV_N=1"],
              "pthread": ["-DV_OPT=19", "-DV_ATT=0", "-DV_HAS=0", "-DV_N=1"],
              "Wp.1": ["-DV_OPT=20", "-DV_ATT=0", "-DV_HAS=0", "-DV_N=1"],
              "Wp.2": ["-DV_OPT=20", "-DV_ATT=0", "-DV_HAS=0", "-DV_N=2"],
              "Wp.3": ["-DV_OPT=20", "-DV_ATT=0", "-DV_HAS=0", "-DV_N=3"],
              "Wa.1": ["-DV_OPT=21", "-DV_ATT=0", "-DV_HAS=0", "-DV_N=1"],
              "Wa.2": ["-DV_OPT=21", "-DV_ATT=0", "-DV_HAS=0", "-DV_N=2"],
              "Wa.3": ["-DV_OPT=21", "-DV_ATT=0", "-DV_HAS=0", "-DV_N=3"],
              "Wl.1": ["-DV_OPT=22", "-DV_ATT=0", "-DV_HAS=0", "-DV_N=1"],
              "Wl.2": ["-DV_OPT=22", "-DV_ATT=0", "-DV_HAS=0", "-DV_N=2"],
              "Wl.3": ["-DV_OPT=22", "-DV_ATT=0", "-DV_HAS=0", "-DV_N=3"],
              "g": ["-DV_OPT=23", "-DV_ATT=0", "-DV_HAS=0", "-DV_N=1"],
              "O2": ["-DV_OPT=24", "-DV_ATT=0", "-DV_HAS=0", "-DV_N=1"],
              "pipe": ["-DV_OPT=25", "-DV_ATT=0", "-DV_HAS=0", "-DV_N=1"],
              "pedantic": ["-DV_OPT=26", "-DV_ATT=0", "-DV_HAS=0", "-DV_N=1"],
              "Wall": ["-DV_OPT=27", "-DV_ATT=0", "-DV_HAS=0", "-DV_N=1"],
              "c": ["-DV_OPT=28", "-DV_ATT=0", "-DV_HAS=0", "-DV_N=1"],
              "E": ["-DV_OPT=29", "-DV_ATT=0", "-DV_HAS=0", "-DV_N=1"],
              "S": ["-DV_OPT=30", "-DV_ATT=0", "-DV_HAS=0", "-DV_N=1"],
              "emit-qbe": ["-DV_OPT=31", "-DV_ATT=0", "-DV_HAS=0", "-DV_N=1"],
              "v": ["-DV_OPT=32", "-DV_ATT=0", "-DV_HAS=0", "-DV_N=1"],
              "nostdlib": ["-DV_OPT=33", "-DV_ATT=0", "-DV_HAS=0", "-DV_N=1"],
              "o.att": ["-DV_OPT=34", "-DV_ATT=1", "-DV_HAS=0", "-DV_N=1"],
              "o.det": ["-DV_OPT=34", "-DV_ATT=0", "-DV_HAS=1", "-DV_N=1"],
              "o.missing": ["-DV_OPT=34", "-DV_ATT=0", "-DV_HAS=0", "-DV_N=1"],
              "l.att": ["-DV_OPT=35", "-DV_ATT=1", "-DV_HAS=0", "-DV_N=1"],
              "l.det": ["-DV_OPT=35", "-DV_ATT=0", "-DV_HAS=1", "-DV_N=1"],
              "l.missing": ["-DV_OPT=35", "-DV_ATT=0", "-DV_HAS=0", "-DV_N=1"]},
 "canary_variant": "D.att",
 "kind": "bounded", "bound": "the 60 command lines 'cproc OPTION [ARGUMENT]' (argc <= 3) made of the 36 option spellings of the table below in attached / detached / missing-argument form, argument word \"ab\", comma lists of 1..3 items, one CBMC run each (a symbolic option word costs > 2 min and 7 GB per option); no input file, so main ends in usage() (or, for -l, in the link step)",
 "unwind": 14, "unwindset": ["strcmp.0:20", "strlen.0:20", "main.0:5", "main.1:4", "main.3:3"],
 "noreturn_macros": false, "stubs": ["os_model.c"], "link_repo": ["util.c"],
 "cbmc_flags": ["--no-malloc-may-fail"],
 "timeout": 200,
 "expects": ["assertion_verif"],
 "assumes": ["arrayaddptr/arrayaddbuf are replaced by recorders that log (stage, word) in call order (their append semantics: UTIL.arrayaddptr/UTIL.arrayaddbuf); compilecommand() by a stub returning a fixed string; buildobj()/buildexe() by recorders that check the inputs (buildexe stops)",
             "option table from cproc(1) and the C17 statement: -D/-U/-I (+ -include, -idirafter, -isystem, -iquote, -nostdinc, -std=, -P, -M*, -Wp,) to the preprocessor; -Wa, to the assembler; -L/-s/-static/-pthread/-Wl, to the linker; -l makes a library input; -g/-O/-pipe/-pedantic/-W<other> are ineffective; -c/-E/-S/-emit-qbe/-o/-x/-v/-nostdlib add no words",
             "config.h target is x86_64-* (the pinned config.h): compile gets -t x86_64-sysv, codegen gets -t amd64_sysv"]
}
*/
#include "drv_common.h"

/* ------------------------------------------------------------------ recorders */
#define MAXLOG 12
struct { int stage; void *word; } g_log[MAXLOG];
int g_nlog;
int g_nbuf[NSTAGES];                 /* base-command words added by arrayaddbuf, per stage */
char g_cc[] = "/x/cproc-qbe";

static int
stage_of(struct array *a)
{
	int i, s = -1;

	for (i = 0; i < NSTAGES; ++i) {
		if (a == &stages[i].cmd)
			s = i;
	}
	return s;
}

void
rec_arrayaddptr(struct array *a, void *v)
{
	int i, s = stage_of(a);

	__CPROVER_assert(s >= 0, "words are added to stage commands only");
	__CPROVER_assert(g_nlog < MAXLOG, "log large enough");
	for (i = 0; i < MAXLOG; ++i) {
		if (i == g_nlog) {
			g_log[i].stage = s;
			g_log[i].word = v;
		}
	}
	++g_nlog;
}

void
rec_arrayaddbuf(struct array *a, const void *src, size_t n)
{
	int s = stage_of(a);

	__CPROVER_assert(s >= 0 && g_nlog <= 1, "base commands are added before any option word, to stage commands only");
	g_nbuf[s] += (int)(n / sizeof(char *));
}

char *
rec_compilecommand(char *arg)
{
	return g_cc;
}

/* ------------------------------------------------------------------ the option table (cproc(1), C17) */
enum form { F_FLAGARG, F_PAIR, F_SELF, F_LIT, F_LIT2, F_LIST, F_NONE, F_NONEARG, F_LIB };
static const struct opt { const char *spell; int stage; enum form form; const char *lit, *lit2; } opts[] = {
	{"-D", PREPROCESS, F_FLAGARG, "-D"}, {"-U", PREPROCESS, F_FLAGARG, "-U"}, {"-I", PREPROCESS, F_FLAGARG, "-I"},
	{"-L", LINK, F_FLAGARG, "-L"},
	{"-include", PREPROCESS, F_PAIR}, {"-idirafter", PREPROCESS, F_PAIR}, {"-isystem", PREPROCESS, F_PAIR},
	{"-iquote", PREPROCESS, F_PAIR}, {"-MT", PREPROCESS, F_PAIR}, {"-MF", PREPROCESS, F_PAIR},
	{"-nostdinc", PREPROCESS, F_SELF}, {"-std=c11", PREPROCESS, F_SELF}, {"-M", PREPROCESS, F_SELF},
	{"-MM", PREPROCESS, F_SELF}, {"-MD", PREPROCESS, F_SELF}, {"-MMD", PREPROCESS, F_SELF},
	{"-static", LINK, F_SELF},
	{"-P", PREPROCESS, F_LIT, "-P"}, {"-s", LINK, F_LIT, "-s"}, {"-pthread", LINK, F_LIT2, "-l", "pthread"},
	{"-Wp,", PREPROCESS, F_LIST}, {"-Wa,", ASSEMBLE, F_LIST}, {"-Wl,", LINK, F_LIST},
	{"-g", 0, F_NONE}, {"-O2", 0, F_NONE}, {"-pipe", 0, F_NONE}, {"-pedantic", 0, F_NONE}, {"-Wall", 0, F_NONE},
	{"-c", 0, F_NONE}, {"-E", 0, F_NONE}, {"-S", 0, F_NONE}, {"-emit-qbe", 0, F_NONE}, {"-v", 0, F_NONE},
	{"-nostdlib", 0, F_NONE},
	{"-o", 0, F_NONEARG}, {"-l", 0, F_LIB},
};
#define NOPTS ((int)LEN(opts))

/* ghosts */
int g_opt;                   /* which option */
bool g_attached, g_hasarg;   /* "-Dab" / "-D" "ab" / "-D" (argument missing) */
char *g_word1, *g_word2;     /* argv[1], argv[2] */
char *g_arg;                 /* where the option's argument text starts */
int g_nitems;                /* comma list: number of items */
char *g_item[3];

#define NPRE 5               /* words logged before the option loop: cc command, -t arch (compile); -t arch (codegen) */
#define LOGIS(i, s, w)   (g_log[i].stage == (s) && g_log[i].word == (void *)(w))
#define LOGSTR(i, s, lit) (g_log[i].stage == (s) && strcmp((char *)g_log[i].word, (lit)) == 0)
#define MISSING          (!g_attached && !g_hasarg)

static void
check_routing(void)
{
	const struct opt *o = &opts[g_opt];
	int k;

	/* every tool got its configured base command and, where applicable, the target flag */
	__CPROVER_assert(g_nbuf[PREPROCESS] == (int)LEN(preprocesscmd) && g_nbuf[CODEGEN] == (int)LEN(codegencmd) &&
	                 g_nbuf[ASSEMBLE] == (int)LEN(assemblecmd) && g_nbuf[LINK] == (int)LEN(linkcmd) && g_nbuf[COMPILE] == 0,
	                 "ROUTE base commands come from config.h");
	__CPROVER_assert(g_nlog >= NPRE && LOGIS(0, COMPILE, g_cc) && LOGSTR(1, COMPILE, "-t") && LOGSTR(2, COMPILE, "x86_64-sysv") &&
	                 LOGSTR(3, CODEGEN, "-t") && LOGSTR(4, CODEGEN, "amd64_sysv"), "ROUTE compiler and code generator get the target flag");
	switch (o->form) {
	case F_FLAGARG:   /* -X arg and -Xarg: the flag word, then the argument, to the option's tool */
		if (MISSING)
			break;
		__CPROVER_assert(g_nlog == NPRE + 2, "ROUTE option with argument adds two words");
		__CPROVER_assert(LOGSTR(NPRE, o->stage, o->lit), "ROUTE flag word goes to the documented tool");
		__CPROVER_assert(LOGIS(NPRE + 1, o->stage, g_arg), "ROUTE argument (attached or detached) follows the flag word");
		break;
	case F_PAIR:      /* -include file: both words as given */
		if (!g_hasarg) {
			__CPROVER_assert(g_nlog == NPRE, "ROUTE a missing argument adds nothing");
			break;
		}
		__CPROVER_assert(g_nlog == NPRE + 2 && LOGIS(NPRE, o->stage, g_word1) && LOGIS(NPRE + 1, o->stage, g_word2),
		                 "ROUTE option and its argument go to the documented tool");
		break;
	case F_SELF:
		__CPROVER_assert(g_nlog == NPRE + 1 && LOGIS(NPRE, o->stage, g_word1), "ROUTE option word is passed through to the documented tool");
		break;
	case F_LIT:
		__CPROVER_assert(g_nlog == NPRE + 1 && LOGSTR(NPRE, o->stage, o->lit), "ROUTE flag goes to the documented tool");
		break;
	case F_LIT2:
		__CPROVER_assert(g_nlog == NPRE + 2 && LOGSTR(NPRE, o->stage, o->lit) && LOGSTR(NPRE + 1, o->stage, o->lit2),
		                 "ROUTE -pthread is -l pthread for the linker");
		break;
	case F_LIST:      /* -Wx,a,b: each comma separated item is one word for that tool */
		__CPROVER_assert(g_nlog == NPRE + g_nitems, "ROUTE one word per comma separated item");
		for (k = 0; k < 3; ++k) {
			if (k < g_nitems)
				__CPROVER_assert(LOGIS(NPRE + k, o->stage, g_item[k]) && strchr(g_item[k], ',') == 0,
				                 "ROUTE items go to the documented tool, in order, without the commas");
		}
		break;
	case F_NONE:
	case F_NONEARG:
	case F_LIB:
		__CPROVER_assert(g_nlog == NPRE || (o->form != F_NONE && MISSING), "ROUTE option adds no word to any tool");
		break;
	}
}

/* per-input build, reached only through -l: the input is a library, nothing to build */
void
rec_buildobj(struct input *input, char *output)
{
	__CPROVER_assert(opts[g_opt].form == F_LIB && !MISSING && input->filetype == OBJ && input->lib, "BUILD reached only with the -l input");
}

/* the link step, reached only through -l: one library input */
void
rec_buildexe(struct input *inputs, size_t ninputs, char *output)
{
	__CPROVER_assert(opts[g_opt].form == F_LIB && !MISSING, "LINK reached only with an input");
	__CPROVER_assert(ninputs == 1 && inputs[0].lib && inputs[0].filetype == OBJ && inputs[0].name == g_arg,
	                 "LINK -l name makes one library input");
	__CPROVER_assert(strcmp(output, "a.out") == 0, "LINK default output is a.out");
	check_routing();
	__CPROVER_assume(0);
}

void
osm_at_exit(int status)
{
	__CPROVER_assert(status == 2, "EXIT without an input file the driver ends in usage (status 2)");
#ifdef VERIF_CANARY
	__CPROVER_assert(!(g_opt == 0 && g_attached), "CANARY exit reachable");
#endif
	__CPROVER_assert(opts[g_opt].form != F_LIB || MISSING, "EXIT -l with an argument goes on to link");
	check_routing();
}

void
harness(void)
{
	char w0[] = "cproc", w1[12], w2[] = "ab";
	char *argv[4];
	int argc, i, n;
	const char *sp;

	IN(int, in_opt);
	IN(bool, in_attached);
	IN(bool, in_hasarg);
	IN(int, in_nitems);

	__CPROVER_assume(in_opt >= 0 && in_opt < NOPTS);
	__CPROVER_assume(in_nitems >= 1 && in_nitems <= 3);
#ifdef V_OPT
	/* one concrete command line per CBMC run */
	__CPROVER_assume(in_opt == V_OPT && in_attached == V_ATT && in_hasarg == V_HAS && in_nitems == V_N);
	in_opt = V_OPT; in_attached = V_ATT; in_hasarg = V_HAS; in_nitems = V_N;
#endif
	sp = opts[in_opt].spell;
	/* argv[1]: the spelling, then the attached argument / the comma list */
	for (n = 0; n < 11 && sp[n]; ++n)
		w1[n] = sp[n];
	g_arg = 0;
	g_nitems = 0;
	if (opts[in_opt].form == F_LIST) {
		for (i = 0; i < 3; ++i) {
			if (i < in_nitems) {
				if (i)
					w1[n++] = ',';
				g_item[i] = &w1[n];
				w1[n++] = (char)('a' + i);
			}
		}
		g_nitems = in_nitems;
	} else if (in_attached && (opts[in_opt].form == F_FLAGARG || opts[in_opt].form == F_NONEARG || opts[in_opt].form == F_LIB)) {
		g_arg = &w1[n];
		w1[n++] = 'a'; w1[n++] = 'b';
	}
	w1[n] = 0;
	g_attached = g_arg != 0;
	argv[0] = w0; argv[1] = w1;
	argv[2] = in_hasarg ? w2 : (char *)0;
	argv[3] = 0;
	argc = in_hasarg ? 3 : 2;
	if (!g_attached && in_hasarg)
		g_arg = w2;
	g_opt = in_opt; g_hasarg = in_hasarg; g_word1 = w1; g_word2 = argv[2];

	memset(&osm_tape, 0, sizeof osm_tape);
	osm_reset();
	g_nlog = 0;
	for (i = 0; i < NSTAGES; ++i)
		g_nbuf[i] = 0;

	/* a detached word that is not consumed by the option is an input file: keep to option-only command lines */
	__CPROVER_assume(IMP(in_hasarg, !g_attached && (opts[in_opt].form == F_FLAGARG || opts[in_opt].form == F_PAIR ||
	                 opts[in_opt].form == F_NONEARG || opts[in_opt].form == F_LIB)));

	main(argc, argv);
	__CPROVER_assert(0, "main does not return on these command lines");
}
