/* UNIT
{
 "id": "DRV.spawnphase.dup2in",
 "file": "driver.c", "function": "spawnphase", "also_functions": ["spawn"],
 "properties": {"C17": "contract"},
 "mode": "dfcc", "enforce": "spawnphase/spawnphase_contract", "post_macro": "POST_SP",
 "replace_calls": {"fatal": "osm_oom"},
 "kind": "proof-const-unwind", "unwind": 9,
 "cflags": ["-DDUP2IN_MAY_FAIL=1", "-DV_NBASE=2"],
 "noreturn_macros": false, "stubs": ["os_model.c"], "link_repo": ["util.c"],
 "timeout": 200,
 "expects": ["postcondition", "assigns"],
 "assumes": ["same contract and harness as DRV.spawnphase, but posix_spawn_file_actions_adddup2(fd, 0) may fail (POSIX: ENOMEM, EBADF): EXPECTED TO FAIL on the pinned tree, spawnphase overwrites that result (driver.c:161) and starts the stage reading the driver's own stdin instead of the pipe"]
}
*/
#include "drv_common.h"
#include "spawnphase_contract.h"

#ifndef DUP2IN_MAY_FAIL
#define DUP2IN_MAY_FAIL 0
#endif

#define PRE(X)  PRE_SP(X) X(DUP2IN_MAY_FAIL || osm_tape.fa_dup2_in_err[g_a] == 0)
#define POST(X) POST_SP(X) CANARY(X, !(RET == 0 && g_a == 1 && !g_last))

void
osm_at_exit(int status)
{
	__CPROVER_assert(0, "spawnphase never exits");
}

static int spawnphase_contract(struct stageinfo *phase, int *fd, char *input, char *output, bool last)
REQUIRES(PRE)
__CPROVER_assigns(*fd, phase->pid, phase->cmd, osm, *g_errno, __CPROVER_object_whole(phase->cmd.val))
__CPROVER_frees(phase->cmd.val)
ENSURES(POST);

void
harness(void)
{
	char name_in[] = "t.c", name_out[] = "t.o", w[4][4] = {"cc", "-a", "-b", "-c"};
	struct stageinfo *phase;
	char *input, *output, **v;
	bool last;
	int fdv = -1, *fd = &fdv, a, j;
	pid_t prevpid = 0;

	IN(int, in_s);
	IN(bool, in_hasprev);
	IN(bool, in_fdprev);
	IN(bool, in_last);
	IN(bool, in_hasin);
	IN(bool, in_hasout);
	IN(int, in_nbase);
	IN(int, in_pidhi);
	IN(int, in_fi); IN(int, in_pe); IN(int, in_fe0); IN(int, in_fe1); IN(int, in_di); IN(int, in_do); IN(int, in_sp);
	ING(int, g_j);

	/* one CBMC run per base-command length; the stage is fixed (spawnphase treats *phase as an opaque record):
	   both as symbolic values exhaust 10 GB */
	__CPROVER_assume(in_s == COMPILE);
#ifdef V_NBASE
	__CPROVER_assume(in_nbase == V_NBASE);
#else
	__CPROVER_assume(in_nbase >= 1 && in_nbase <= 4);
#endif
	__CPROVER_assume(in_pidhi >= 1 && in_pidhi <= 15);
	__CPROVER_assume(in_pe >= 0 && in_fe0 >= 0 && in_fe1 >= 0);      /* errno values are positive */
	a = in_hasprev ? 1 : 0;
	memset(&osm_tape, 0, sizeof osm_tape);
	osm_tape.pidbase = in_pidhi << 3;
	osm_tape.fa_init_err[a] = in_fi; osm_tape.pipe_err[a] = in_pe;
	osm_tape.fcntl_err[a][0] = in_fe0; osm_tape.fcntl_err[a][1] = in_fe1;
	osm_tape.fa_dup2_in_err[a] = in_di; osm_tape.fa_dup2_out_err[a] = in_do; osm_tape.spawn_err[a] = in_sp;
	osm_reset();
	if (in_hasprev) {
		osm_stage_start(&prevpid, fd, 0);          /* the predecessor: leaves its pipe's read end in fdv */
		if (!in_fdprev)
			fdv = -1;
	}

	phase = &stages[in_s];
	v = malloc(4 * sizeof *v);
	__CPROVER_assume(v != 0);
	for (j = 0; j < 4; ++j) {
		v[j] = w[j];
		g_base[j] = w[j];
	}
	phase->cmd.val = v;
	phase->cmd.cap = 4 * sizeof *v;
	phase->cmd.len = in_nbase * sizeof *v;
	phase->cmdbase = in_nbase * sizeof *v;
	phase->pid = 0;
	flags.verbose = 0;
	input = in_hasin ? &name_in[0] : (char *)0;
	output = in_hasout ? &name_out[0] : (char *)0;
	last = in_last;

	g_s = in_s; g_fd0 = fdv; g_a = a; g_open0 = osm.fd_open; g_spawned0 = osm.spawned; g_nfail0 = osm.nfail;
	g_nbase = in_nbase; g_input = input; g_output = output; g_last = last; g_errno = &errno;

	CALLR(int, PRE, POST, spawnphase(phase, fd, input, output, last));
}
