/* UNIT
{
 "id": "DRV.main.modes",
 "file": "driver.c",
 "function": "main",
 "also_functions": [
  "detectfiletype",
  "usage"
 ],
 "properties": {
  "C17": "contract",
  "C19": "safety"
 },
 "c19_quick": false,
 "mode": "harness",
 "replace_calls": {
  "arrayaddptr": "rec_arrayaddptr",
  "arrayaddbuf": "rec_arrayaddbuf",
  "compilecommand": "rec_compilecommand",
  "buildobj": "rec_buildobj",
  "buildexe": "rec_buildexe",
  "fatal": "osm_oom"
 },
 "variants": {
  "link.c.n": [
   "-DV_MODE=0",
   "-DV_SUF=0",
   "-DV_OUT=0"
  ],
  "link.c.f": [
   "-DV_MODE=0",
   "-DV_SUF=0",
   "-DV_OUT=1"
  ],
  "link.c.d": [
   "-DV_MODE=0",
   "-DV_SUF=0",
   "-DV_OUT=2"
  ],
  "link.h.n": [
   "-DV_MODE=0",
   "-DV_SUF=1",
   "-DV_OUT=0"
  ],
  "link.h.f": [
   "-DV_MODE=0",
   "-DV_SUF=1",
   "-DV_OUT=1"
  ],
  "link.h.d": [
   "-DV_MODE=0",
   "-DV_SUF=1",
   "-DV_OUT=2"
  ],
  "link.i.n": [
   "-DV_MODE=0",
   "-DV_SUF=2",
   "-DV_OUT=0"
  ],
  "link.i.f": [
   "-DV_MODE=0",
   "-DV_SUF=2",
   "-DV_OUT=1"
  ],
  "link.i.d": [
   "-DV_MODE=0",
   "-DV_SUF=2",
   "-DV_OUT=2"
  ],
  "link.qbe.n": [
   "-DV_MODE=0",
   "-DV_SUF=3",
   "-DV_OUT=0"
  ],
  "link.qbe.f": [
   "-DV_MODE=0",
   "-DV_SUF=3",
   "-DV_OUT=1"
  ],
  "link.qbe.d": [
   "-DV_MODE=0",
   "-DV_SUF=3",
   "-DV_OUT=2"
  ],
  "link.s.n": [
   "-DV_MODE=0",
   "-DV_SUF=4",
   "-DV_OUT=0"
  ],
  "link.s.f": [
   "-DV_MODE=0",
   "-DV_SUF=4",
   "-DV_OUT=1"
  ],
  "link.s.d": [
   "-DV_MODE=0",
   "-DV_SUF=4",
   "-DV_OUT=2"
  ],
  "link.S.n": [
   "-DV_MODE=0",
   "-DV_SUF=5",
   "-DV_OUT=0"
  ],
  "link.S.f": [
   "-DV_MODE=0",
   "-DV_SUF=5",
   "-DV_OUT=1"
  ],
  "link.S.d": [
   "-DV_MODE=0",
   "-DV_SUF=5",
   "-DV_OUT=2"
  ],
  "link.o.n": [
   "-DV_MODE=0",
   "-DV_SUF=6",
   "-DV_OUT=0"
  ],
  "link.o.f": [
   "-DV_MODE=0",
   "-DV_SUF=6",
   "-DV_OUT=1"
  ],
  "link.o.d": [
   "-DV_MODE=0",
   "-DV_SUF=6",
   "-DV_OUT=2"
  ],
  "c.c.n": [
   "-DV_MODE=1",
   "-DV_SUF=0",
   "-DV_OUT=0"
  ],
  "c.c.f": [
   "-DV_MODE=1",
   "-DV_SUF=0",
   "-DV_OUT=1"
  ],
  "c.c.d": [
   "-DV_MODE=1",
   "-DV_SUF=0",
   "-DV_OUT=2"
  ],
  "c.h.n": [
   "-DV_MODE=1",
   "-DV_SUF=1",
   "-DV_OUT=0"
  ],
  "c.h.f": [
   "-DV_MODE=1",
   "-DV_SUF=1",
   "-DV_OUT=1"
  ],
  "c.h.d": [
   "-DV_MODE=1",
   "-DV_SUF=1",
   "-DV_OUT=2"
  ],
  "c.i.n": [
   "-DV_MODE=1",
   "-DV_SUF=2",
   "-DV_OUT=0"
  ],
  "c.i.f": [
   "-DV_MODE=1",
   "-DV_SUF=2",
   "-DV_OUT=1"
  ],
  "c.i.d": [
   "-DV_MODE=1",
   "-DV_SUF=2",
   "-DV_OUT=2"
  ],
  "c.qbe.n": [
   "-DV_MODE=1",
   "-DV_SUF=3",
   "-DV_OUT=0"
  ],
  "c.qbe.f": [
   "-DV_MODE=1",
   "-DV_SUF=3",
   "-DV_OUT=1"
  ],
  "c.qbe.d": [
   "-DV_MODE=1",
   "-DV_SUF=3",
   "-DV_OUT=2"
  ],
  "c.s.n": [
   "-DV_MODE=1",
   "-DV_SUF=4",
   "-DV_OUT=0"
  ],
  "c.s.f": [
   "-DV_MODE=1",
   "-DV_SUF=4",
   "-DV_OUT=1"
  ],
  "c.s.d": [
   "-DV_MODE=1",
   "-DV_SUF=4",
   "-DV_OUT=2"
  ],
  "c.S.n": [
   "-DV_MODE=1",
   "-DV_SUF=5",
   "-DV_OUT=0"
  ],
  "c.S.f": [
   "-DV_MODE=1",
   "-DV_SUF=5",
   "-DV_OUT=1"
  ],
  "c.S.d": [
   "-DV_MODE=1",
   "-DV_SUF=5",
   "-DV_OUT=2"
  ],
  "c.o.n": [
   "-DV_MODE=1",
   "-DV_SUF=6",
   "-DV_OUT=0"
  ],
  "c.o.f": [
   "-DV_MODE=1",
   "-DV_SUF=6",
   "-DV_OUT=1"
  ],
  "c.o.d": [
   "-DV_MODE=1",
   "-DV_SUF=6",
   "-DV_OUT=2"
  ],
  "S.c.n": [
   "-DV_MODE=2",
   "-DV_SUF=0",
   "-DV_OUT=0"
  ],
  "S.c.f": [
   "-DV_MODE=2",
   "-DV_SUF=0",
   "-DV_OUT=1"
  ],
  "S.c.d": [
   "-DV_MODE=2",
   "-DV_SUF=0",
   "-DV_OUT=2"
  ],
  "S.h.n": [
   "-DV_MODE=2",
   "-DV_SUF=1",
   "-DV_OUT=0"
  ],
  "S.h.f": [
   "-DV_MODE=2",
   "-DV_SUF=1",
   "-DV_OUT=1"
  ],
  "S.h.d": [
   "-DV_MODE=2",
   "-DV_SUF=1",
   "-DV_OUT=2"
  ],
  "S.i.n": [
   "-DV_MODE=2",
   "-DV_SUF=2",
   "-DV_OUT=0"
  ],
  "S.i.f": [
   "-DV_MODE=2",
   "-DV_SUF=2",
   "-DV_OUT=1"
  ],
  "S.i.d": [
   "-DV_MODE=2",
   "-DV_SUF=2",
   "-DV_OUT=2"
  ],
  "S.qbe.n": [
   "-DV_MODE=2",
   "-DV_SUF=3",
   "-DV_OUT=0"
  ],
  "S.qbe.f": [
   "-DV_MODE=2",
   "-DV_SUF=3",
   "-DV_OUT=1"
  ],
  "S.qbe.d": [
   "-DV_MODE=2",
   "-DV_SUF=3",
   "-DV_OUT=2"
  ],
  "S.s.n": [
   "-DV_MODE=2",
   "-DV_SUF=4",
   "-DV_OUT=0"
  ],
  "S.s.f": [
   "-DV_MODE=2",
   "-DV_SUF=4",
   "-DV_OUT=1"
  ],
  "S.s.d": [
   "-DV_MODE=2",
   "-DV_SUF=4",
   "-DV_OUT=2"
  ],
  "S.S.n": [
   "-DV_MODE=2",
   "-DV_SUF=5",
   "-DV_OUT=0"
  ],
  "S.S.f": [
   "-DV_MODE=2",
   "-DV_SUF=5",
   "-DV_OUT=1"
  ],
  "S.S.d": [
   "-DV_MODE=2",
   "-DV_SUF=5",
   "-DV_OUT=2"
  ],
  "S.o.n": [
   "-DV_MODE=2",
   "-DV_SUF=6",
   "-DV_OUT=0"
  ],
  "S.o.f": [
   "-DV_MODE=2",
   "-DV_SUF=6",
   "-DV_OUT=1"
  ],
  "S.o.d": [
   "-DV_MODE=2",
   "-DV_SUF=6",
   "-DV_OUT=2"
  ],
  "q.c.n": [
   "-DV_MODE=3",
   "-DV_SUF=0",
   "-DV_OUT=0"
  ],
  "q.c.f": [
   "-DV_MODE=3",
   "-DV_SUF=0",
   "-DV_OUT=1"
  ],
  "q.c.d": [
   "-DV_MODE=3",
   "-DV_SUF=0",
   "-DV_OUT=2"
  ],
  "q.h.n": [
   "-DV_MODE=3",
   "-DV_SUF=1",
   "-DV_OUT=0"
  ],
  "q.h.f": [
   "-DV_MODE=3",
   "-DV_SUF=1",
   "-DV_OUT=1"
  ],
  "q.h.d": [
   "-DV_MODE=3",
   "-DV_SUF=1",
   "-DV_OUT=2"
  ],
  "q.i.n": [
   "-DV_MODE=3",
   "-DV_SUF=2",
   "-DV_OUT=0"
  ],
  "q.i.f": [
   "-DV_MODE=3",
   "-DV_SUF=2",
   "-DV_OUT=1"
  ],
  "q.i.d": [
   "-DV_MODE=3",
   "-DV_SUF=2",
   "-DV_OUT=2"
  ],
  "q.qbe.n": [
   "-DV_MODE=3",
   "-DV_SUF=3",
   "-DV_OUT=0"
  ],
  "q.qbe.f": [
   "-DV_MODE=3",
   "-DV_SUF=3",
   "-DV_OUT=1"
  ],
  "q.qbe.d": [
   "-DV_MODE=3",
   "-DV_SUF=3",
   "-DV_OUT=2"
  ],
  "q.s.n": [
   "-DV_MODE=3",
   "-DV_SUF=4",
   "-DV_OUT=0"
  ],
  "q.s.f": [
   "-DV_MODE=3",
   "-DV_SUF=4",
   "-DV_OUT=1"
  ],
  "q.s.d": [
   "-DV_MODE=3",
   "-DV_SUF=4",
   "-DV_OUT=2"
  ],
  "q.S.n": [
   "-DV_MODE=3",
   "-DV_SUF=5",
   "-DV_OUT=0"
  ],
  "q.S.f": [
   "-DV_MODE=3",
   "-DV_SUF=5",
   "-DV_OUT=1"
  ],
  "q.S.d": [
   "-DV_MODE=3",
   "-DV_SUF=5",
   "-DV_OUT=2"
  ],
  "q.o.n": [
   "-DV_MODE=3",
   "-DV_SUF=6",
   "-DV_OUT=0"
  ],
  "q.o.f": [
   "-DV_MODE=3",
   "-DV_SUF=6",
   "-DV_OUT=1"
  ],
  "q.o.d": [
   "-DV_MODE=3",
   "-DV_SUF=6",
   "-DV_OUT=2"
  ],
  "E.c.n": [
   "-DV_MODE=4",
   "-DV_SUF=0",
   "-DV_OUT=0"
  ],
  "E.c.f": [
   "-DV_MODE=4",
   "-DV_SUF=0",
   "-DV_OUT=1"
  ],
  "E.c.d": [
   "-DV_MODE=4",
   "-DV_SUF=0",
   "-DV_OUT=2"
  ],
  "E.h.n": [
   "-DV_MODE=4",
   "-DV_SUF=1",
   "-DV_OUT=0"
  ],
  "E.h.f": [
   "-DV_MODE=4",
   "-DV_SUF=1",
   "-DV_OUT=1"
  ],
  "E.h.d": [
   "-DV_MODE=4",
   "-DV_SUF=1",
   "-DV_OUT=2"
  ],
  "E.i.n": [
   "-DV_MODE=4",
   "-DV_SUF=2",
   "-DV_OUT=0"
  ],
  "E.i.f": [
   "-DV_MODE=4",
   "-DV_SUF=2",
   "-DV_OUT=1"
  ],
  "E.i.d": [
   "-DV_MODE=4",
   "-DV_SUF=2",
   "-DV_OUT=2"
  ],
  "E.qbe.n": [
   "-DV_MODE=4",
   "-DV_SUF=3",
   "-DV_OUT=0"
  ],
  "E.qbe.f": [
   "-DV_MODE=4",
   "-DV_SUF=3",
   "-DV_OUT=1"
  ],
  "E.qbe.d": [
   "-DV_MODE=4",
   "-DV_SUF=3",
   "-DV_OUT=2"
  ],
  "E.s.n": [
   "-DV_MODE=4",
   "-DV_SUF=4",
   "-DV_OUT=0"
  ],
  "E.s.f": [
   "-DV_MODE=4",
   "-DV_SUF=4",
   "-DV_OUT=1"
  ],
  "E.s.d": [
   "-DV_MODE=4",
   "-DV_SUF=4",
   "-DV_OUT=2"
  ],
  "E.S.n": [
   "-DV_MODE=4",
   "-DV_SUF=5",
   "-DV_OUT=0"
  ],
  "E.S.f": [
   "-DV_MODE=4",
   "-DV_SUF=5",
   "-DV_OUT=1"
  ],
  "E.S.d": [
   "-DV_MODE=4",
   "-DV_SUF=5",
   "-DV_OUT=2"
  ],
  "E.o.n": [
   "-DV_MODE=4",
   "-DV_SUF=6",
   "-DV_OUT=0"
  ],
  "E.o.f": [
   "-DV_MODE=4",
   "-DV_SUF=6",
   "-DV_OUT=1"
  ],
  "E.o.d": [
   "-DV_MODE=4",
   "-DV_SUF=6",
   "-DV_OUT=2"
  ]
 },
 "canary_variant": "c.c.n",
 "unwind": 14,
 "kind": "bounded",
 "bound": "105 concrete command lines `cproc [MODE] [-o OUT] x.SUFFIX`: every mode flag (none = link, -c, -S, -emit-qbe, -E) x every input suffix (.c .h .i .qbe .s .S .o) x output (none, -o out, -o -); one CBMC run each",
 "noreturn_macros": false,
 "stubs": [
  "os_model.c"
 ],
 "link_repo": [
  "util.c"
 ],
 "timeout": 200,
 "replay": false,
 "assumes": [
  "buildobj/buildexe are recorders (their own contracts: DRV.buildobj, DRV.buildexe); arrayaddptr/arrayaddbuf/compilecommand recorders as in DRV.main.options",
  "the stage table per input type is the conventional one cproc's driver documents in its source (cproc(1) names the modes but has no suffix table): .c = preprocess, compile, codegen, assemble, link; .h = preprocess only; .i = from compile; .qbe = from codegen; .s = assemble, link; .S = preprocess, assemble, link; .o = link"
 ]
}
*/
#include "drv_common.h"

int fputc(int c, FILE *f) { return c; }   /* usage() message text: no effect on the claim */

/* recorders for the tool command lines: not what this unit is about */
void rec_arrayaddptr(struct array *a, void *v) { }
void rec_arrayaddbuf(struct array *a, const void *src, size_t n) { }
static char g_cc[] = "/x/cproc-qbe";
char *rec_compilecommand(char *arg) { return g_cc; }

/*
 * C17: "each input passes through exactly the stages implied by its type (by suffix or -x) and the mode flag (-E,
 * -emit-qbe, -S, -c, or link), connected in pipeline order; ... outputs are named by the documented rules (-o, replaced
 * suffix, a.out, standard output) and invalid combinations are refused with a usage error before anything runs."
 */
enum { M_LINK, M_C, M_S, M_Q, M_E };
static const int lastof[] = {LINK, ASSEMBLE, CODEGEN, COMPILE, PREPROCESS};
static const unsigned typestages[] = {
	/* .c   */ 1<<PREPROCESS|1<<COMPILE|1<<CODEGEN|1<<ASSEMBLE|1<<LINK,
	/* .h   */ 1<<PREPROCESS,
	/* .i   */ 1<<COMPILE|1<<CODEGEN|1<<ASSEMBLE|1<<LINK,
	/* .qbe */ 1<<CODEGEN|1<<ASSEMBLE|1<<LINK,
	/* .s   */ 1<<ASSEMBLE|1<<LINK,
	/* .S   */ 1<<PREPROCESS|1<<ASSEMBLE|1<<LINK,
	/* .o   */ 1<<LINK,
};
static const char *const sufname[] = {"c", "h", "i", "qbe", "s", "S", "o"};

int g_mode, g_suf, g_out;
int g_nobj, g_nexe;
unsigned g_obj_stages; char *g_obj_out; char *g_obj_name;
size_t g_exe_n; char *g_exe_out;
static char in_name[8], out_name[] = "out", dash[] = "-";

#define LAST        (lastof[g_mode])
#define TAKES_PART  ((typestages[g_suf] >> LAST) & 1)
#define WANT_STAGES (typestages[g_suf] & ((1u << (LAST + 1)) - 1))
#define USAGE_WANTED (g_out == 2 && LAST >= ASSEMBLE)

void
rec_buildobj(struct input *input, char *output)
{
	g_nobj++;
	g_obj_stages = input->stages;
	g_obj_out = output;
	g_obj_name = input->name;
}

static void
check_build(void)
{
	__CPROVER_assert(!USAGE_WANTED, "MODE an object or executable cannot be written to standard output: usage error before anything runs");
	__CPROVER_assert(g_nobj == (TAKES_PART ? 1 : 0), "MODE an input is processed iff its type takes part in the last stage of the mode (a .h with -c, a .S with -S is ignored)");
	if (TAKES_PART) {
		__CPROVER_assert(g_obj_stages == WANT_STAGES, "MODE exactly the stages of its type up to the mode's last stage");
		__CPROVER_assert(g_obj_name == in_name, "MODE the input is the file named on the command line");
		__CPROVER_assert(g_obj_out == (g_out == 0 ? (char *)0 : g_out == 1 ? out_name : dash), "MODE -o is handed to the per-input build as given (naming rules: DRV.buildobj / DRV.changeext)");
	}
}

void
rec_buildexe(struct input *inputs, size_t ninputs, char *output)
{
	g_nexe++;
	__CPROVER_assert(g_mode == M_LINK, "LINK the link step runs only without a mode flag");
	check_build();
	__CPROVER_assert(ninputs == (TAKES_PART ? 1u : 0u) && (ninputs == 0 || inputs[0].name == in_name),
	                 "LINK exactly the inputs that take part in linking are handed to the link step (an ignored .h is neither linked nor treated as a temporary)");
	__CPROVER_assert(g_out == 0 ? strcmp(output, "a.out") == 0 : output == out_name, "LINK output is -o's argument, a.out by default");
	__CPROVER_assume(0);
}

void
osm_at_exit(int status)
{
	/* the only exit the driver's main takes by itself is usage() */
	__CPROVER_assert(status == 2, "EXIT usage error has status 2");
	__CPROVER_assert(USAGE_WANTED, "EXIT a valid command line is not refused");
	__CPROVER_assert(g_nobj == 0 && g_nexe == 0, "EXIT refused before anything runs");
}

void
harness(void)
{
	static char w0[] = "cproc", mc[] = "-c", mS[] = "-S", mq[] = "-emit-qbe", mE[] = "-E", wo[] = "-o";
	char *argv[6];
	int argc = 0, r;
	unsigned i;

	g_mode = V_MODE; g_suf = V_SUF; g_out = V_OUT;
	g_nobj = g_nexe = 0;
	in_name[0] = 'x'; in_name[1] = '.';
	for (i = 0; sufname[g_suf][i]; i++) in_name[2 + i] = sufname[g_suf][i];
	in_name[2 + i] = 0;
	argv[argc++] = w0;
	if (g_mode == M_C) argv[argc++] = mc;
	if (g_mode == M_S) argv[argc++] = mS;
	if (g_mode == M_Q) argv[argc++] = mq;
	if (g_mode == M_E) argv[argc++] = mE;
	if (g_out) { argv[argc++] = wo; argv[argc++] = g_out == 1 ? out_name : dash; }
	argv[argc++] = in_name;
	argv[argc] = 0;
	memset(&osm_tape, 0, sizeof osm_tape);
	osm_reset();
	r = main(argc, argv);
	/* main returns (instead of exiting through buildexe) only when it does not link */
	__CPROVER_assert(r == 0 && g_mode != M_LINK, "MODE main returns 0 after the per-input builds of a non-link mode");
	__CPROVER_assert(g_nexe == 0, "MODE no link step with a mode flag");
	check_build();
#ifdef VERIF_CANARY
	__CPROVER_assert(g_nobj == 0, "CANARY");
#endif
}
