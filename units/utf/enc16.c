/* UNIT
{
 "id": "UTF.enc16",
 "file": "utf.c", "function": "utf16enc",
 "properties": {"C14": "contract", "C19": "safety"},
 "mode": "dfcc", "enforce": "utf16enc/utf16enc_contract",
 "kind": "proof",
 "timeout": 120,
 "expects": ["postcondition", "assertion_repo"],
 "assumes": ["c is a Unicode scalar value: the only caller is expr.c:encodechar16 with hexoct == false (chr = 0, a simple escape, or a utf8dec result, which UTF.dec proves to be a scalar value)",
             "s is writable for spec_utf16_enclen(c) 16-bit units"]
}
*/
#include <stdlib.h>
#include "utf.c"
#include "verif.h"
#include "../../spec/utf.h"

/*
 * utf16enc(s, c): RFC 2781 section 2.1.  c < 0x10000: one unit equal to c; otherwise the surrogate pair
 * W1 = 0xD800 | (U' >> 10), W2 = 0xDC00 | (U' & 0x3FF) with U' = c - 0x10000; returns the number of units;
 * decoding the units by section 2.2 gives c back; nothing else is written; assert(0) unreachable.
 */
size_t g_avail;            /* 16-bit units that exist behind s */
unsigned short g_s0, g_s1; /* their values before the call */

#define ENCLEN spec_utf16_enclen(c)
#define PRE(X) \
	X(s != 0) \
	X(spec_is_scalar(c)) \
	X(g_avail >= ENCLEN && g_avail <= 2) \
	X(s[0] == g_s0 && IMP(g_avail > 1, s[1] == g_s1))

#define POST(X) \
	X(RET == ENCLEN) \
	X(s[0] == spec_utf16_unit(c, 0)) \
	X(IMP(ENCLEN > 1, s[1] == spec_utf16_unit(c, 1))) \
	/* section 2.2 decoding of what was written is valid and yields c */ \
	X(spec_utf16_valid(s[0], g_avail > 1 ? s[1] : 0, RET)) \
	X(spec_utf16_dec(s[0], g_avail > 1 ? s[1] : 0) == c) \
	/* frame */ \
	X(IMP(g_avail > 1 && ENCLEN <= 1, s[1] == g_s1)) \
	CANARY(X, !(c == 0x1F600 && s[0] == 0xD83D && s[1] == 0xDE00))

size_t utf16enc_contract(uint_least16_t *s, uint_least32_t c)
REQUIRES(PRE)
__CPROVER_assigns(__CPROVER_object_whole(s))
ENSURES(POST);

void
harness(void)
{
	IN(u32, in_c);
	IN(unsigned, in_avail);
	IN(unsigned short, in_s0);
	IN(unsigned short, in_s1);
	uint_least32_t c = in_c;
	uint_least16_t *s;

	__CPROVER_assume(in_avail >= 1 && in_avail <= 2);
	s = malloc(in_avail * sizeof *s);
	__CPROVER_assume(s != 0);
	s[0] = in_s0;
	if (in_avail > 1) s[1] = in_s1;
	g_avail = in_avail;
	g_s0 = in_s0; g_s1 = in_s1;
	CALLR(size_t, PRE, POST, utf16enc(s, c));
}
