/* contract of utf.c:utf8dec, shared by UTF.dec (enforced) and EXPR.decodechar (replaces the call) */
#ifndef DEC_CONTRACT_H
#define DEC_CONTRACT_H
#include "../../spec/utf.h"
#pragma CPROVER check push
#pragma CPROVER check disable "signed-overflow"

/*
 * utf8dec(c, s, n): RFC 3629.  "Returns the length and stores the character number iff s[0..] (at most n octets) starts
 * with a well-formed UTF8-char (section 4 ABNF: shortest form, no surrogates, <= U+10FFFF); otherwise returns (size_t)-1."
 * The caller (decodechar) diagnoses on -1 and never looks at *c in that case, so nothing is required of *c then.
 *
 * ghosts: the octets and how many of them really exist behind s (the harness allocates exactly g_avail octets, so any
 * read past the sequence is a pointer obligation).
 */
size_t g_avail;
u8 g_b0, g_b1, g_b2, g_b3;     /* octets that do not exist are 0 (not a UTF8-tail) */

#define DEC_NONTAIL(b) (!SPEC_TAIL(b))
#define PRE_DEC(X) \
	X(c != 0 && s != 0) \
	X(n >= 1) \
	X(g_avail >= 1 && g_avail <= 4) \
	X(s[0] == g_b0) \
	X(g_avail > 1 ? s[1] == g_b1 : g_b1 == 0) \
	X(g_avail > 2 ? s[2] == g_b2 : g_b2 == 0) \
	X(g_avail > 3 ? s[3] == g_b3 : g_b3 == 0) \
	/* either n octets exist, or a non-tail octet (closing quote, NUL) stops the sequence before the end */ \
	X(n <= g_avail || (g_avail > 1 && DEC_NONTAIL(g_b1)) || (g_avail > 2 && DEC_NONTAIL(g_b2)) || (g_avail > 3 && DEC_NONTAIL(g_b3)))

#define DEC_LEN   spec_utf8_len(g_b0, g_b1, g_b2, g_b3, n)
#define DEC_FAIL  ((size_t)-1)
#define POST_DEC(X) \
	/* well-formed: length and character number of RFC 3629 section 3 */ \
	X(IMP(DEC_LEN != 0, RET == DEC_LEN)) \
	X(IMP(DEC_LEN != 0, *c == spec_utf8_val(g_b0, g_b1, g_b2, g_b3, DEC_LEN))) \
	X(IMP(RET != DEC_FAIL, spec_is_scalar(*c))) \
	/* not well-formed: rejected.  First the classes RFC 3629 section 10 warns about, one clause each, then the rest */ \
	X(IMP(SPEC_IN(g_b0, 0xC0, 0xC1), RET == DEC_FAIL))                       /* overlong 2-octet form (U+0000..007F)   */ \
	X(IMP(g_b0 == 0xE0 && g_b1 < 0xA0, RET == DEC_FAIL))                     /* overlong 3-octet form (U+0000..07FF)   */ \
	X(IMP(g_b0 == 0xF0 && g_b1 < 0x90, RET == DEC_FAIL))                     /* overlong 4-octet form (U+0000..FFFF)   */ \
	X(IMP(g_b0 == 0xED && g_b1 > 0x9F, RET == DEC_FAIL))                     /* surrogates U+D800..DFFF                */ \
	X(IMP((g_b0 == 0xF4 && g_b1 > 0x8F) || g_b0 > 0xF4, RET == DEC_FAIL))    /* above U+10FFFF, 5/6-octet forms, FE/FF */ \
	X(IMP(SPEC_IN(g_b0, 0x80, 0xBF), RET == DEC_FAIL))                       /* stray tail octet                       */ \
	X(IMP(DEC_LEN == 0, RET == DEC_FAIL))                                        /* everything else: truncated / bad tail  */ \
	X(RET == DEC_FAIL || (RET >= 1 && RET <= 4 && RET <= n)) \
	/* the input octets are not modified */ \
	X(s[0] == g_b0 && IMP(g_avail > 1, s[1] == g_b1) && IMP(g_avail > 2, s[2] == g_b2) && IMP(g_avail > 3, s[3] == g_b3)) \
	CANARY(X, !(g_b0 == 0xE2 && g_b1 == 0x82 && g_b2 == 0xAC && RET == 3))

size_t utf8dec_contract(uint_least32_t *c, const unsigned char *s, size_t n)
REQUIRES(PRE_DEC)
__CPROVER_assigns(*c)
ENSURES(POST_DEC);

#pragma CPROVER check pop
#endif
