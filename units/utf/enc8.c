/* UNIT
{
 "id": "UTF.enc8",
 "file": "utf.c", "function": "utf8enc",
 "properties": {"C14": "contract", "C19": "safety"},
 "mode": "dfcc", "enforce": "utf8enc/utf8enc_contract",
 "kind": "proof",
 "timeout": 120,
 "expects": ["postcondition", "assertion_repo"],
 "assumes": ["c is a Unicode scalar value: the only caller is expr.c:encodechar8 with hexoct == false, whose chr is 0 (terminator), a simple escape (ASCII) or the result of utf8dec -- UTF.dec proves (postcondition 3) that utf8dec only yields scalar values; EXPR.decodechar proves hexoct == false only on those paths",
             "s is writable for spec_utf8_enclen(c) octets (stringconcat sizes the buffer by source length; not verified here)"]
}
*/
#include <stdlib.h>
#include "utf.c"
#include "verif.h"
#include "../../spec/utf.h"

/*
 * utf8enc(s, c): RFC 3629 section 3.  For every scalar value c the octets written are the encoding table's and the
 * return value is their number; nothing else is written; the assert(0) at the end is unreachable (safety group).
 */
size_t g_avail;                 /* octets that exist behind s (the harness allocates exactly that many) */
u8 g_s0, g_s1, g_s2, g_s3;      /* their values before the call */

#define ENCLEN spec_utf8_enclen(c)
#define PRE(X) \
	X(s != 0) \
	X(spec_is_scalar(c)) \
	X(g_avail >= ENCLEN && g_avail <= 4) \
	X(s[0] == g_s0 && IMP(g_avail > 1, s[1] == g_s1) && IMP(g_avail > 2, s[2] == g_s2) && IMP(g_avail > 3, s[3] == g_s3))

#define POST(X) \
	X(RET == ENCLEN) \
	X(s[0] == spec_utf8_byte(c, 0)) \
	X(IMP(ENCLEN > 1, s[1] == spec_utf8_byte(c, 1))) \
	X(IMP(ENCLEN > 2, s[2] == spec_utf8_byte(c, 2))) \
	X(IMP(ENCLEN > 3, s[3] == spec_utf8_byte(c, 3))) \
	/* the octets written are a well-formed UTF8-char (section 4 ABNF) carrying c */ \
	X(spec_utf8_len(s[0], g_avail > 1 ? s[1] : 0, g_avail > 2 ? s[2] : 0, g_avail > 3 ? s[3] : 0, RET) == RET) \
	/* frame: nothing after the encoding is touched */ \
	X(IMP(g_avail > 1 && ENCLEN <= 1, s[1] == g_s1)) \
	X(IMP(g_avail > 2 && ENCLEN <= 2, s[2] == g_s2)) \
	X(IMP(g_avail > 3 && ENCLEN <= 3, s[3] == g_s3)) \
	CANARY(X, !(c == 0x20AC && s[0] == 0xE2 && s[1] == 0x82 && s[2] == 0xAC))

size_t utf8enc_contract(unsigned char *s, uint_least32_t c)
REQUIRES(PRE)
__CPROVER_assigns(__CPROVER_object_whole(s))
ENSURES(POST);

void
harness(void)
{
	IN(u32, in_c);
	IN(unsigned, in_avail);
	IN(u8, in_s0);
	IN(u8, in_s1);
	IN(u8, in_s2);
	IN(u8, in_s3);
	uint_least32_t c = in_c;
	unsigned char *s;

	__CPROVER_assume(in_avail >= 1 && in_avail <= 4);
	s = malloc(in_avail);
	__CPROVER_assume(s != 0);
	s[0] = in_s0;
	if (in_avail > 1) s[1] = in_s1;
	if (in_avail > 2) s[2] = in_s2;
	if (in_avail > 3) s[3] = in_s3;
	g_avail = in_avail;
	g_s0 = in_s0; g_s1 = in_s1; g_s2 = in_s2; g_s3 = in_s3;
	CALLR(size_t, PRE, POST, utf8enc(s, c));
}
