/* UNIT
{
 "id": "UTF.roundtrip.dec",
 "file": "utf.c", "function": "utf8enc", "also_functions": ["utf8dec"],
 "properties": {"C14": "contract", "C19": "safety"},
 "mode": "harness",
 "kind": "proof-const-unwind", "unwind": 4,
 "timeout": 120,
 "expects": ["assertion_verif", "assertion_repo"],
 "assumes": ["lemma over the two real functions composed the way stringconcat composes them for a plain/u8 string literal (decodechar: utf8dec(&c, s, 4), error() on -1; encodechar8: utf8enc(dst, c)); the octets range over all 2^32 values"]
}
*/
#include <stdlib.h>
#include "utf.c"
#include "verif.h"
#include "../../spec/utf.h"

/*
 * Converse lemma: whatever octets utf8dec ACCEPTS (anything else is diagnosed by the caller), utf8enc of the decoded
 * value does not abort (assert(0) in utf8enc: safety group) and reproduces exactly the accepted octets -- a source
 * character in a char/u8 string literal is copied, not altered (C14: "invalid UTF-8 ... rejected rather than altered").
 */
u8 g_b0, g_b1, g_b2, g_b3;
u8 g_o0, g_o1, g_o2, g_o3;
size_t g_ld, g_le;
uint_least32_t g_c;

static void
decenc(void)
{
	unsigned char in[4], out[4] = {0, 0, 0, 0};

	in[0] = g_b0; in[1] = g_b1; in[2] = g_b2; in[3] = g_b3;
	g_ld = utf8dec(&g_c, in, 4);
	__CPROVER_assume(g_ld != (size_t)-1);     /* decodechar: error(loc, "%s contains invalid UTF-8") */
	g_le = utf8enc(out, g_c);
	g_o0 = out[0]; g_o1 = out[1]; g_o2 = out[2]; g_o3 = out[3];
}

#define PRE(X) X(1)

#define POST(X) \
	X(g_le == g_ld) \
	X(g_o0 == g_b0) \
	X(IMP(g_ld > 1, g_o1 == g_b1)) \
	X(IMP(g_ld > 2, g_o2 == g_b2)) \
	X(IMP(g_ld > 3, g_o3 == g_b3)) \
	CANARY(X, !(g_b0 == 0xF4 && g_b1 == 0x8F && g_ld == 4))

void
harness(void)
{
	ING(u8, g_b0);
	ING(u8, g_b1);
	ING(u8, g_b2);
	ING(u8, g_b3);

	HCALL(PRE, POST, decenc());
}
