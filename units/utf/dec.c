/* UNIT
{
 "id": "UTF.dec",
 "file": "utf.c", "function": "utf8dec",
 "properties": {"C14": "contract", "C19": "safety"},
 "mode": "dfcc", "enforce": "utf8dec/utf8dec_contract", "post_macro": "POST_DEC",
 "kind": "proof-const-unwind", "unwind": 4,
 "loops_expected": {"utf8dec": 1},
 "timeout": 120,
 "expects": ["postcondition"],
 "assumes": ["n >= 1 (the only caller, expr.c:decodechar, passes n = 4; utf8dec reads s[0] without looking at n)",
             "s is readable up to min(n, first octet that is not a UTF8-tail) -- at the call site s points into a NUL-terminated token, so the claimed n = 4 may exceed what is really there"]
}
*/
#include <stdlib.h>
#include "utf.c"
#include "verif.h"

#include "dec_contract.h"

void
harness(void)
{
	IN(u8, in_b0);
	IN(u8, in_b1);
	IN(u8, in_b2);
	IN(u8, in_b3);
	IN(size_t, in_n);
	IN(unsigned, in_avail);
	IN(u32, in_c0);
	uint_least32_t cv = in_c0, *c = &cv;
	size_t n = in_n;
	unsigned char *buf;
	const unsigned char *s;

	__CPROVER_assume(in_avail >= 1 && in_avail <= 4);
	buf = malloc(in_avail);
	__CPROVER_assume(buf != 0);
	buf[0] = in_b0;
	if (in_avail > 1) buf[1] = in_b1;
	if (in_avail > 2) buf[2] = in_b2;
	if (in_avail > 3) buf[3] = in_b3;
	s = buf;
	g_avail = in_avail;
	g_b0 = in_b0;
	g_b1 = in_avail > 1 ? in_b1 : 0;
	g_b2 = in_avail > 2 ? in_b2 : 0;
	g_b3 = in_avail > 3 ? in_b3 : 0;
	CALLR(size_t, PRE_DEC, POST_DEC, utf8dec(c, s, n));
}
