/* UNIT
{
 "id": "UTF.roundtrip",
 "file": "utf.c", "function": "utf8dec", "also_functions": ["utf8enc"],
 "properties": {"C14": "contract", "C19": "safety"},
 "mode": "harness",
 "kind": "proof-const-unwind", "unwind": 4,
 "timeout": 120,
 "expects": ["assertion_verif", "assertion_repo"],
 "assumes": ["lemma over the two real functions composed in the harness (no DFCC): c ranges over all Unicode scalar values"]
}
*/
#include <stdlib.h>
#include "utf.c"
#include "verif.h"
#include "../../spec/utf.h"

/*
 * Lemma (RFC 3629: UTF-8 is a bijection between scalar values and well-formed sequences):
 * for every scalar value c, utf8dec(utf8enc(c)) == c, with equal lengths, whether utf8dec is offered exactly the
 * encoded octets or 4 octets (what decodechar claims) followed by anything.
 */
uint_least32_t g_d1, g_d4;    /* decoded values                                   */
size_t g_le, g_l1, g_l4;      /* encoded length, decoded length with n = le / n = 4 */
u8 g_t0, g_t1, g_t2, g_t3;    /* what follows in the 4-octet buffer               */

static void
roundtrip(uint_least32_t c)
{
	unsigned char exact[4], *buf4;

	buf4 = malloc(4);
	__CPROVER_assume(buf4 != 0);
	buf4[0] = g_t0; buf4[1] = g_t1; buf4[2] = g_t2; buf4[3] = g_t3;
	g_le = utf8enc(buf4, c);
	utf8enc(exact, c);
	g_d1 = g_d4 = ~c;
	g_l1 = utf8dec(&g_d1, exact, g_le);
	g_l4 = utf8dec(&g_d4, buf4, 4);
	free(buf4);
}

#define PRE(X) \
	X(spec_is_scalar(c))

#define POST(X) \
	X(g_le == spec_utf8_enclen(c)) \
	X(g_l1 == g_le) \
	X(g_d1 == c) \
	X(g_l4 == g_le) \
	X(g_d4 == c) \
	CANARY(X, !(c == 0x10FFFF && g_l4 == 4))

void
harness(void)
{
	IN(u32, in_c);
	ING(u8, g_t0);
	ING(u8, g_t1);
	ING(u8, g_t2);
	ING(u8, g_t3);
	uint_least32_t c = in_c;

	HCALL(PRE, POST, roundtrip(c));
}
