/* UNIT
{
 "id": "QBE.casesearch.bnd",
 "file": "qbe.c", "function": "casesearch", "also_functions": ["funcswitch"],
 "properties": {"C15": "contract", "C01": "contract", "C19": "safety"},
 "mode": "harness",
 "replace_calls": {"funcinst": "rec_funcinst", "funcjnz": "rec_funcjnz", "funcjmp": "rec_funcjmp", "funclabel": "rec_funclabel", "mkblock": "rec_mkblock", "mkintconst": "rec_mkintconst"},
 "unwind": 5, "replay": false,
 "kind": "bounded",
 "bound": "case trees of height <= 2 (up to 3 case labels, every shape, all 64-bit keys canonical for the controlling type), every probe value; thorough: height <= 3 (up to 7 labels)",
 "variants": {"w": ["-DV_CLASS='w'"], "l": ["-DV_CLASS='l'"]},
 "tiers": {"thorough": {"cflags": ["-DV_H3"], "unwind": 9, "timeout": 1200}},
 "timeout": 300,
 "assumes": ["the IL builder is replaced by stand-ins that EXECUTE the emitted compare-and-branch ladder for one arbitrary run-time value of the controlling expression (ghost probe): ceqw/ceql/cultw/cultl per the QBE IL reference (class w compares the low 32 bits), jnz takes its first target iff the tested word is non-zero, a label makes its block current, jmp transfers control",
             "the case tree is a binary search tree on the 64-bit keys and every key is canonical for the promoted controlling type (sign- or zero-extended 32-bit value for class w): postconditions of TREE.insert.bnd and STMT.label.case",
             "native replay impossible (static callees redirected)"]
}
*/
#include "qbe.c"
#include "verif.h"
#include "c_arith.h"

/* ---------------------------------------------------------------- executing stand-ins for the IL builder */
static u64 g_probe;                /* run-time value of the controlling expression (class w: upper half arbitrary) */
static struct block *g_emit;       /* block instructions are currently appended to */
static struct block *g_pc;         /* block control is in, for this probe          */
static bool g_done;                /* control has left the ladder                  */
#define NV 40
static struct value vpool[NV]; static unsigned nv;
#define NB 40
static struct block bpool[NB]; static unsigned nb;
static struct value v_ctl;

/* the ghost numeric value of a temporary/constant is kept in the value object itself */
static u64 gv(struct value *v) { return v == &v_ctl ? g_probe : v->u.i; }
static struct value *newv(u64 g) { __CPROVER_assert(nv < NV, "value pool"); vpool[nv].kind = VALUE_INTCONST; vpool[nv].u.i = g; return &vpool[nv++]; }

struct block *rec_mkblock(char *name) { __CPROVER_assert(nb < NB, "block pool"); return &bpool[nb++]; }
struct value *rec_mkintconst(unsigned long long n) { return newv(n); }
struct value *
rec_funcinst(struct func *f, int op, int class, struct value *a, struct value *b)
{
	u64 x = gv(a), y = gv(b), r = 0;
	switch (op) {
	case ICEQW: r = (u32)x == (u32)y; break;
	case ICEQL: r = x == y; break;
	case ICULTW: r = (u32)x < (u32)y; break;
	case ICULTL: r = x < y; break;
	default: __CPROVER_assert(0, "only equality and unsigned-less-than compares are emitted");
	}
	__CPROVER_assert(class == 'w', "a comparison yields a word");
	return newv(r);
}
void
rec_funcjnz(struct func *f, struct value *v, struct type *t, struct block *b1, struct block *b2)
{
	__CPROVER_assert(t == 0, "the tested value is already a word");
	if (!g_done && g_pc == g_emit)
		g_pc = (u32)gv(v) ? b1 : b2;
	g_emit = 0;                            /* block terminated */
}
void rec_funcjmp(struct func *f, struct block *b) { if (!g_done && g_pc == g_emit) { g_pc = b; } g_emit = 0; }
void rec_funclabel(struct func *f, struct block *b) { __CPROVER_assert(g_emit == 0, "the previous block was terminated before a label is placed"); g_emit = b; }

/*
 * C15: "a switch statement jumps to the case whose constant equals the value, else to default if present, else past the
 * statement - independent of the number of cases, their order of appearance, their sign or magnitude".
 */
#ifdef V_H3
#define NN 7
#else
#define NN 3
#endif
static struct switchcase nd[NN];
static struct block body[NN], dflt, entry;

void
harness(void)
{
	IN(u64, in_probe);
	IN(u64, in_k0); IN(u64, in_k1); IN(u64, in_k2);
	IN(bool, in_has0); IN(bool, in_has1); IN(bool, in_has2);
	IN(bool, in_signed);
#ifdef V_H3
	IN(u64, in_k3); IN(u64, in_k4); IN(u64, in_k5); IN(u64, in_k6);
	IN(bool, in_has3); IN(bool, in_has4); IN(bool, in_has5); IN(bool, in_has6);
	u64 key[NN] = {in_k0, in_k1, in_k2, in_k3, in_k4, in_k5, in_k6};
	bool has[NN] = {in_has0, in_has1, in_has2, in_has3, in_has4, in_has5, in_has6};
#else
	u64 key[NN] = {in_k0, in_k1, in_k2};
	bool has[NN] = {in_has0, in_has1, in_has2};
#endif
	/* heap-ordered positions: node i has children 2i+1 (smaller keys) and 2i+2 (larger keys) */
	u64 lo[NN], hi[NN];
	struct block *want = &dflt;
	unsigned i;
	int class = V_CLASS;

	nv = nb = 0; g_done = false;
	for (i = 0; i < NN; i++) {
		unsigned p = (i - 1) / 2;
		if (i > 0)
			__CPROVER_assume(!has[i] || has[p]);                    /* a child needs its parent */
		lo[i] = i == 0 ? 0 : (i % 2 ? lo[p] : key[p] + 1);
		hi[i] = i == 0 ? ~0ull : (i % 2 ? key[p] - 1 : hi[p]);
		if (has[i]) {
			if (i > 0)
				__CPROVER_assume(i % 2 ? key[p] > 0 : key[p] < ~0ull);
			__CPROVER_assume(lo[i] <= key[i] && key[i] <= hi[i]);  /* binary search tree on the 64-bit keys */
			if (class == 'w')
				__CPROVER_assume(spec_canon(key[i], 4, in_signed));  /* canonical for the 32-bit controlling type */
		}
		nd[i].node.key = key[i];
		nd[i].node.child[0] = 2 * i + 1 < NN && has[2 * i + 1] ? &nd[2 * i + 1] : 0;
		nd[i].node.child[1] = 2 * i + 2 < NN && has[2 * i + 2] ? &nd[2 * i + 2] : 0;
		nd[i].node.height = 1;
		nd[i].body = &body[i];
	}
	for (i = 0; i < NN; i++)
		if (has[i] && (class == 'w' ? (u32)key[i] == (u32)in_probe : key[i] == in_probe))
			want = &body[i];
	g_probe = in_probe;
	g_emit = &entry; g_pc = &entry;

	{
		/* entered through funcswitch(), which picks the compare class from the promoted controlling type */
		static struct type t; static struct switchcases sw;
		t.kind = class == 'w' ? TYPEINT : TYPELONG; t.prop = PROPSCALAR|PROPARITH|PROPREAL|PROPINT;
		t.size = t.align = class == 'w' ? 4 : 8; t.u.basic.issigned = in_signed;
		sw.root = has[0] ? &nd[0] : 0; sw.type = &t; sw.defaultlabel = 0;
		funcswitch(0, &v_ctl, &sw, &dflt);
	}

	__CPROVER_assert(g_emit == 0, "the last block of the ladder is terminated");
	__CPROVER_assert(g_pc == want, "control reaches the body of the case whose constant equals the value, else the default target");
#ifdef VERIF_CANARY
	__CPROVER_assert(!(has[0] && has[2] && want == &body[2]), "CANARY");
#endif
}
