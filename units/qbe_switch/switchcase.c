/* UNIT
{
 "id": "QBE.switchcase",
 "file": "qbe.c", "function": "switchcase",
 "properties": {"C15": "contract", "C19": "safety"},
 "mode": "dfcc", "enforce": "switchcase/switchcase_contract",
 "kind": "proof",
 "timeout": 120,
 "expects": ["postcondition", "assigns", "assertion_verif"],
 "assumes": ["tree.c treeinsert replaced by a model stating what TREE.insert.bnd shows of it: it returns the node carrying the key - the existing one with new == false, or a freshly allocated one of the requested size with new == true (linked into the tree, whose shape is tree.c's business)",
             "error() does not return"]
}
*/
/*
 * C15: "duplicate case constants ... are rejected" and every case constant leads to its own body.
 * switchcase(cases, i, b) registers case value i (already converted by the caller) with body block b:
 *   - if i is already in the case tree, a diagnostic is issued (the path ends): a normal return implies i was absent;
 *   - otherwise the node created for i records b, and it is a node big enough to hold a struct switchcase
 *     (treeinsert is asked for sizeof(struct switchcase) bytes; a smaller request would make c->body a heap overflow);
 *   - nothing else changes: no other node's body, not cases->type / cases->defaultlabel.
 */
#include "qbe.c"
#include "verif.h"

extern int g_no_error;
struct switchcases *g_cases;
unsigned long long g_i;
struct block *g_b;
bool g_present;                 /* i is already a key of the tree                         */
struct switchcase *g_existing;  /* then: its node                                         */
struct block *g_exbody;         /* and the body recorded there                            */
struct switchcase *g_ret;       /* the node treeinsert handed out                         */
unsigned g_ins_n;
struct type *g_type0; struct block *g_default0;

/* model of tree.c:treeinsert (see "assumes") */
void *
treeinsert(void **root, unsigned long long key, size_t sz)
{
	struct treenode *n;

	__CPROVER_assert(root == &g_cases->root, "treeinsert: called on the case tree of this switch");
	__CPROVER_assert(key == g_i, "treeinsert: called with the case value");
	__CPROVER_assert(sz > sizeof(struct treenode), "treeinsert: its own assert(sz > sizeof(struct treenode))");
	__CPROVER_assert(sz >= sizeof(struct switchcase), "treeinsert: the node has room for the body pointer");
	++g_ins_n;
	if (g_present) {
		n = &g_existing->node;
		n->new = false;
	} else {
		n = malloc(sz);
		__CPROVER_assume(n != 0);
		n->key = key;
		n->child[0] = n->child[1] = 0;
		n->height = 1;
		n->new = true;
		if (!*root)
			*root = n;          /* (elsewhere in the tree otherwise; rebalancing may also change *root) */
	}
	g_ret = (struct switchcase *)n;
	return n;
}

#define PRE(X) \
	X(cases != 0 && cases == g_cases && i == g_i && b == g_b) \
	X(IMP(g_present, g_existing != 0 && g_existing->node.key == g_i && g_exbody == g_existing->body)) \
	X(g_ins_n == 0 && g_type0 == cases->type && g_default0 == cases->defaultlabel)

#define POST(X) \
	/* a duplicate case value does not get past the diagnostic */ \
	X(!g_present) \
	/* the value was looked up / entered exactly once */ \
	X(g_ins_n == 1) \
	/* its node records this body */ \
	X(g_ret != 0 && g_ret->node.key == g_i && g_ret->body == g_b) \
	X(g_cases->type == g_type0 && g_cases->defaultlabel == g_default0) \
	CANARY(X, !(g_i == 7 && !g_present))

void switchcase_contract(struct switchcases *cases, unsigned long long i, struct block *b)
REQUIRES(PRE)
__CPROVER_assigns(cases->root, g_ins_n, g_ret)
__CPROVER_assigns(g_present: g_existing->node.new)
ENSURES(POST);

void
harness(void)
{
	static struct switchcases t_cases;
	static struct switchcase t_old, t_other;
	static struct block t_b, t_ob;
	static struct type t_type;
	struct switchcases *cases = &t_cases;
	struct block *b = &t_b;

	IN(unsigned long long, i);
	IN(bool, in_present);
	IN(bool, in_empty);
	IN(bool, in_stalenew);

	g_cases = cases; g_i = i; g_b = b;
	g_present = in_present;
	t_old.node.key = i;
	t_old.node.new = in_stalenew;       /* flag left over from the insertion of that node */
	t_old.node.height = 1;
	t_old.body = &t_ob;
	g_existing = in_present ? &t_old : 0;
	g_exbody = &t_ob;
	t_cases.root = in_present ? (void *)&t_old : in_empty ? (void *)0 : (void *)&t_other;
	t_cases.type = &t_type;
	g_type0 = t_cases.type; g_default0 = t_cases.defaultlabel;
	g_no_error = !in_present;           /* a new case value must be accepted: reaching the diagnostic is then a failure */
	CALL(PRE, POST, switchcase(cases, i, b));
}
