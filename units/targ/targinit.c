/* UNIT
{
 "id": "TARG.init",
 "file": "targ.c", "function": "targinit",
 "properties": {"C06": "contract", "C08": "contract", "C14": "contract", "C19": "safety"},
 "mode": "harness",
 "link_repo": ["type.c"],
 "variants": {"default": ["-DV_T=0"], "x86_64": ["-DV_T=1"], "aarch64": ["-DV_T=2"], "riscv64": ["-DV_T=3"], "unknown": ["-DV_T=4"]},
 "canary_variant": "aarch64",
 "unwind": 14,
 "kind": "proof-const-unwind",
 "bound": "the -t option values: absent, x86_64-sysv, aarch64, riscv64, and a name that is none of them",
 "timeout": 120, "replay": false,
 "assumes": ["type.c is the real file (typeadjust: TYPE.adjust); strcmp is CBMC's library model"]
}
*/
/*
 * Target-dependent ABI facts (property C06/C08 "equals the platform ABI", C14 for wchar_t and plain char):
 *   x86-64 SysV psABI 3.5.7: va_list is an array of one 24-byte, 8-aligned structure; wchar_t is int (4.1 figure 3.1 / glibc);
 *     plain char is signed.
 *   AAPCS64 (IHI 0055) B.3/7.1.4: va_list is a 32-byte, 8-aligned structure; wchar_t is unsigned int; plain char is unsigned.
 *   RISC-V psABI: va_list is void *; wchar_t is int; plain char is unsigned.
 * No -t option selects x86_64-sysv (the documented default); any other name is rejected.
 */
#include "targ.c"
#include "verif.h"

struct token tok;
extern int g_no_error;

void
harness(void)
{
	static char n1[] = "x86_64-sysv", n2[] = "aarch64", n3[] = "riscv64", n4[] = "mips";
	const char *name = V_T == 0 ? (char *)0 : V_T == 1 ? n1 : V_T == 2 ? n2 : V_T == 3 ? n3 : n4;
	IN(bool, in_junk);

	targ = 0;                                   /* as at program start */
	typechar.u.basic.issigned = in_junk;        /* whatever: must be set by targinit */
	g_no_error = V_T != 4;
	targinit(name);
	__CPROVER_assert(V_T != 4, "an unknown target name is rejected");
	__CPROVER_assert(targ != 0, "a target is selected");
#if V_T <= 1
	__CPROVER_assert(targ->typevalist->kind == TYPEARRAY && targ->typevalist->size == 24 && targ->typevalist->align == 8 && targ->typevalist->base->kind == TYPESTRUCT && targ->typevalist->base->size == 24, "x86-64 psABI 3.5.7: va_list is an array of one 24-byte structure, 8-aligned");
	__CPROVER_assert(targ->typewchar == &typeint && typechar.u.basic.issigned, "wchar_t is int, plain char is signed");
	__CPROVER_assert(typeadjvalist->kind == TYPEPOINTER && typeadjvalist->base == targ->typevalist->base, "as a parameter va_list is a pointer to that structure (6.7.6.3p7)");
#elif V_T == 2
	__CPROVER_assert(targ->typevalist->kind == TYPESTRUCT && targ->typevalist->size == 32 && targ->typevalist->align == 8, "AAPCS64: va_list is a 32-byte structure, 8-aligned");
	__CPROVER_assert(targ->typewchar == &typeuint && !typechar.u.basic.issigned, "wchar_t is unsigned int, plain char is unsigned");
	__CPROVER_assert(typeadjvalist == targ->typevalist, "a structure is passed as itself");
#elif V_T == 3
	__CPROVER_assert(targ->typevalist->kind == TYPEPOINTER && targ->typevalist->size == 8 && targ->typevalist->align == 8 && targ->typevalist->base == &typevoid, "RISC-V psABI: va_list is void *");
	__CPROVER_assert(targ->typewchar == &typeint && !typechar.u.basic.issigned, "wchar_t is int, plain char is unsigned");
	__CPROVER_assert(typeadjvalist == targ->typevalist, "a pointer is passed as itself");
#endif
#ifdef VERIF_CANARY
	__CPROVER_assert(targ == 0, "CANARY");
#endif
}
