/* UNIT
{
 "id": "SCOPE.chain",
 "file": "scope.c", "function": "scopegetdecl", "also_functions": ["scopegettag", "scopeputdecl", "scopeputtag", "mkscope", "delscope"],
 "properties": {"C16": "contract", "C19": "safety"},
 "mode": "harness",
 "unwind": 7,
 "kind": "proof-const-unwind",
 "bound": "scope chains of depth 3 (file scope + two nested block scopes); two distinct names; arbitrary bindings of either name, as ordinary identifier and as tag, in every scope",
 "timeout": 200,
 "assumes": ["the name table (map.c) is taken by its abstract behaviour, which MAP.putget.bnd/MAP.keyindex/MAP.init establish for the real code: mapget returns the value last stored under an equal key or NULL, mapput returns the slot of the key (creating it NULL and incrementing len), mapinit empties the table; keys are compared by content (names 'a' and 'b')",
             "chain depth is fixed by the harness, so the walk loops are fully unwound (unwinding assertions on)"]
}
*/
#include "scope.c"
#include "verif.h"

const struct target *targ;
struct block { int dummy; };

/* ---- abstract name table: per struct map, one slot per name ('a' -> 0, 'b' -> 1) ---- */
#define NMAP 6
static struct map *mp[NMAP];
static void *mval[NMAP][2];
static bool mhas[NMAP][2];
static unsigned nmap;

static int
midx(struct map *m)
{
	unsigned i;
	for (i = 0; i < nmap && i < NMAP; i++)
		if (mp[i] == m)
			return i;
	__CPROVER_assert(nmap < NMAP, "model capacity");
	mp[nmap] = m; mhas[nmap][0] = mhas[nmap][1] = false; mval[nmap][0] = mval[nmap][1] = 0;
	return nmap++;
}
static int nameid(const struct mapkey *k) { return ((const char *)k->str)[0] == 'a' ? 0 : 1; }

void mapkey(struct mapkey *k, const void *s, size_t n) { k->str = s; k->len = n; k->hash = 0; }
void mapinit(struct map *m, size_t cap) { int i = midx(m); mhas[i][0] = mhas[i][1] = false; m->len = 0; m->cap = cap; }
void mapfree(struct map *m, void del(void *)) { int i = midx(m); mhas[i][0] = mhas[i][1] = false; m->len = 0; }
void *mapget(struct map *m, struct mapkey *k) { int i = midx(m), n = nameid(k); return mhas[i][n] ? mval[i][n] : 0; }
void **
mapput(struct map *m, struct mapkey *k)
{
	int i = midx(m), n = nameid(k);
	if (!mhas[i][n]) { mhas[i][n] = true; mval[i][n] = 0; ++m->len; }
	return &mval[i][n];
}

/*
 * C11 6.2.1p4: "... the inner declaration hides the outer"; 6.2.3: tags and ordinary identifiers live in separate
 * name spaces.  For a use of name N in scope S: the declaration found is the one bound to N in the innermost scope,
 * from S outwards, that binds N in THAT name space; with recurse == false only S itself is consulted (redeclaration
 * checks); nothing bound in the other name space or under another name is ever returned.
 */
void
harness(void)
{
	static struct decl dd[3][2];          /* ordinary declarations: [scope][name] */
	static struct type tt[3][2];          /* tags */
	static char na[] = "a", nb[] = "b";
	struct scope *sc[3], *r;
	struct decl *wantd, *gotd;
	struct type *wantt, *gott;
	unsigned i, n;
	IN(unsigned, in_binddecl);            /* bit (2*scope + name): that scope binds that ordinary name */
	IN(unsigned, in_bindtag);
	IN(unsigned, in_from);                /* the scope the lookup starts in */
	IN(unsigned, in_name);
	IN(bool, in_recurse);
	static struct block b0, b1; static struct switchcases sw;

	__CPROVER_assume(in_from < 3 && in_name < 2 && in_binddecl < 64 && in_bindtag < 64);
	nmap = 0;
	filescope.parent = 0; filescope.decls.len = 0; filescope.tags.len = 0;
	filescope.breaklabel = &b0; filescope.continuelabel = &b1; filescope.switchcases = &sw;
	sc[0] = &filescope;
	sc[1] = mkscope(sc[0]);
	sc[2] = mkscope(sc[1]);
	__CPROVER_assert(sc[1] != sc[0] && sc[2] != sc[1] && sc[1]->parent == sc[0] && sc[2]->parent == sc[1], "mkscope links a fresh scope to its parent");
	__CPROVER_assert(sc[2]->decls.len == 0 && sc[2]->tags.len == 0, "a fresh scope binds nothing");
	__CPROVER_assert(sc[2]->breaklabel == &b0 && sc[2]->continuelabel == &b1 && sc[2]->switchcases == &sw, "a nested scope inherits the enclosing break/continue targets and case set");
	for (i = 0; i < 3; i++) {
		for (n = 0; n < 2; n++) {
			dd[i][n].name = n ? nb : na;
			if (in_binddecl >> (2 * i + n) & 1)
				scopeputdecl(sc[i], &dd[i][n]);
			if (in_bindtag >> (2 * i + n) & 1)
				scopeputtag(sc[i], n ? nb : na, &tt[i][n]);
		}
	}
	/* oracle: innermost binding from in_from outwards */
	wantd = 0; wantt = 0;
	for (i = 0; i <= in_from; i++) {
		unsigned j = in_from - i;
		if (!wantd && (in_binddecl >> (2 * j + in_name) & 1) && (in_recurse || j == in_from))
			wantd = &dd[j][in_name];
		if (!wantt && (in_bindtag >> (2 * j + in_name) & 1) && (in_recurse || j == in_from))
			wantt = &tt[j][in_name];
	}
	gotd = scopegetdecl(sc[in_from], in_name ? nb : na, in_recurse);
	gott = scopegettag(sc[in_from], in_name ? nb : na, in_recurse);
	__CPROVER_assert(gotd == wantd, "ordinary identifier: the innermost visible declaration of that name (only the given scope when !recurse), never a tag, never another name");
	__CPROVER_assert(gott == wantt, "tag: the innermost visible tag of that name, independent of ordinary identifiers");
	r = delscope(sc[2]);
	__CPROVER_assert(r == sc[1], "leaving a scope returns to the enclosing one");
	gotd = scopegetdecl(sc[1], na, true);
	__CPROVER_assert(gotd == ((in_binddecl >> 2 & 1) ? &dd[1][0] : (in_binddecl & 1) ? &dd[0][0] : 0), "bindings of enclosing scopes are unaffected by a scope that ended");
#ifdef VERIF_CANARY
	__CPROVER_assert(!(in_from == 2 && wantd == &dd[0][1]), "CANARY");
#endif
}
