/* UNIT
{
 "id": "MAP.keyindex",
 "file": "map.c", "function": "keyindex", "also_functions": ["keyequal"],
 "properties": {"C16": "contract", "C19": "safety"},
 "mode": "harness",
 "replace_calls": {"memcmp": "verif_memcmp2"},
 "kind": "bounded",
 "bound": "capacity 4 or 8 (every slot content: empty / any key of 0..2 bytes with any 64-bit hash), any probe key; keyequal inlined",
 "variants": {"cap4": ["-DV_CAP=4"], "cap8": ["-DV_CAP=8"]},
 "canary_variant": "cap8",
 "unwindset": ["keyindex.0:9", "build.0:9", "has_empty.0:9"],
 "timeout": 120,
 "expects": ["assertion_verif", "pointer_dereference", "array_bounds"],
 "assumes": ["memcmp for n <= 2 modelled by two byte comparisons",
             "bounded: the unbounded statement needs a loop invariant quantifying over the probed slots and a variant 'distance to an empty slot' whose slot contents (key bytes behind h->keys[j].str) cannot be set up for a table of symbolic size without quantifiers; not attempted"]
}
*/
/*
 * C16: linear probing finds the right slot whatever collides.  For a table whose capacity is a power of two and which
 * has at least one empty slot (mapput keeps len <= cap/2 + 1 < cap: MAP.putget.bnd) - and NO other assumption on its
 * contents - keyindex(h, k) terminates and returns i < cap such that
 *   - slot i is empty or holds a key equal to k (same hash, same length, same bytes),
 *   - no slot strictly between the home slot (hash & (cap-1)) and i, in cyclic probe order, is empty or equal to k,
 * and the table is not modified.
 */
#include "map.c"
#include "verif.h"

#ifndef V_CAP
#define V_CAP 8
#endif
#define CAP V_CAP

int
verif_memcmp2(const void *a, const void *b, size_t n)
{
	const unsigned char *p = a, *q = b;

	__CPROVER_assert(n <= 2, "keys of at most 2 bytes");
	if (n >= 1 && p[0] != q[0])
		return p[0] < q[0] ? -1 : 1;
	if (n >= 2 && p[1] != q[1])
		return p[1] < q[1] ? -1 : 1;
	return 0;
}

struct slotdesc { bool occ; size_t len; unsigned char b0, b1; unsigned long hash; };
static struct slotdesc t_pre[CAP];
static unsigned char t_kb[CAP + 1][2];
static struct mapkey t_keys[CAP];
static void *t_vals[CAP];
static struct map t_map;

size_t g_kl; unsigned char g_ka, g_kc; unsigned long g_kh;   /* the probe key                     */
size_t g_j;                                                    /* an arbitrary slot                 */

#define BEQ(l1, a1, c1, l2, a2, c2) ((l1) == (l2) && ((l1) < 1 || (a1) == (a2)) && ((l1) < 2 || (c1) == (c2)))
/* slot j holds a key equal to k */
#define EQK(j) (t_pre[j].occ && t_pre[j].hash == g_kh && BEQ(t_pre[j].len, t_pre[j].b0, t_pre[j].b1, g_kl, g_ka, g_kc))
#define HOME   (g_kh & (CAP - 1))
/* g_j lies in the cyclic interval [home, RET) */
#define BEFORE(r) (((g_j - HOME) & (CAP - 1)) < (((r) - HOME) & (CAP - 1)))

static void
build(void)
{
	size_t j;

	for (j = 0; j < CAP; ++j) {
		t_kb[j][0] = t_pre[j].b0; t_kb[j][1] = t_pre[j].b1;
		t_keys[j].str = t_pre[j].occ ? (const void *)&t_kb[j][0] : (const void *)0;
		t_keys[j].len = t_pre[j].len;
		t_keys[j].hash = t_pre[j].hash;
	}
	t_map.cap = CAP;
	t_map.keys = t_keys;
	t_map.vals = t_vals;
}

static bool
has_empty(void)
{
	size_t j;
	bool e = false;

	for (j = 0; j < CAP; ++j)
		e = e || !t_pre[j].occ;
	return e;
}

#define PRE(X) \
	X(h == &t_map && h->cap == CAP && (h->cap & (h->cap - 1)) == 0) \
	X(has_empty()) \
	X(k != 0 && k->len == g_kl && k->hash == g_kh && g_kl <= 2) \
	X(g_j < CAP)

#define POST(X) \
	X(HRET < CAP) \
	X(!t_pre[HRET].occ || EQK(HRET)) \
	X(IMP(BEFORE(HRET), t_pre[g_j].occ && !EQK(g_j))) \
	/* nothing is modified */ \
	X(h->cap == CAP && h->keys == t_keys && h->vals == t_vals) \
	X((t_keys[g_j].str != 0) == t_pre[g_j].occ && t_keys[g_j].len == t_pre[g_j].len && t_keys[g_j].hash == t_pre[g_j].hash) \
	CANARY(X, !(HRET < HOME && EQK(HRET)))

#define SLOT(j) do { \
	IN(bool, in_o##j); IN(size_t, in_l##j); IN(unsigned char, in_a##j); IN(unsigned char, in_c##j); IN(unsigned long, in_h##j); \
	t_pre[j].occ = in_o##j; t_pre[j].len = in_l##j; t_pre[j].b0 = in_a##j; t_pre[j].b1 = in_c##j; t_pre[j].hash = in_h##j; \
	if (in_o##j) __CPROVER_assume(in_l##j <= 2); \
} while (0)

void
harness(void)
{
	struct map *h = &t_map;
	struct mapkey key, *k = &key;

	SLOT(0); SLOT(1); SLOT(2); SLOT(3);
#if CAP >= 8
	SLOT(4); SLOT(5); SLOT(6); SLOT(7);
#endif
#if CAP >= 16
	SLOT(8); SLOT(9); SLOT(10); SLOT(11); SLOT(12); SLOT(13); SLOT(14); SLOT(15);
#endif
	ING(size_t, g_kl); ING(unsigned char, g_ka); ING(unsigned char, g_kc); ING(unsigned long, g_kh);
	ING(size_t, g_j);

	build();
	t_kb[CAP][0] = g_ka; t_kb[CAP][1] = g_kc;
	key.str = t_kb[CAP]; key.len = g_kl; key.hash = g_kh;
	HCALLR(size_t, PRE, POST, keyindex(h, k));
}
