/* UNIT
{
 "id": "MAP.hash",
 "file": "map.c", "function": "hash",
 "properties": {"C16": "contract", "C19": "safety"},
 "mode": "dfcc", "enforce": "hash/hash_contract",
 "loop_contracts": {"hash": [{"loop_id": "0",
     "assigns": "pos, h",
     "invariants": "__CPROVER_same_object(pos, ptr) && ((unsigned long)pos - (unsigned long)ptr) <= len && end == (const unsigned char *)ptr + len && (pos == (const unsigned char *)ptr ==> h == 0x811c9dc5ul)",
     "decreases": "len - ((unsigned long)pos - (unsigned long)ptr)",
     "symbol_map": "pos,hash::1::pos;end,hash::1::end;h,hash::1::h;ptr,hash::ptr;len,hash::len"}]},
 "loops_expected": {"hash": 1},
 "kind": "proof",
 "timeout": 120,
 "expects": ["postcondition", "loop_invariant_step", "loop_decreases", "pointer_dereference"],
 "assumes": ["key length <= 2^20 (size of the buffer object in the harness)"]
}
*/
/*
 * C16/C19: hash(ptr, len) reads exactly the bytes ptr[0 .. len-1] - never beyond the key, for every length (the loop
 * contract carries `pos` through the object) -, terminates after len steps, and writes nothing.  With "assigns
 * nothing" it is a function of (len, those bytes) only, which is what MAP.putget.bnd uses of it.  Its value is not
 * specified by the property (any deterministic hash will do) beyond the empty key giving the FNV offset basis.
 */
#include "map.c"
#include "verif.h"

const void *g_buf;
size_t g_size;

#define PRE(X) \
	X(ptr != 0 && ptr == g_buf) \
	X(len <= g_size && g_size <= (1u << 20))

#define POST(X) \
	X(IMP(len == 0, RET == 0x811c9dc5ul)) \
	CANARY(X, !(len == 3))

static unsigned long hash_contract(const void *ptr, size_t len)
REQUIRES(PRE)
__CPROVER_assigns()
ENSURES(POST);

void
harness(void)
{
	IN(size_t, in_size);
	IN(size_t, len);
	unsigned char *buf;
	const void *ptr;

	__CPROVER_assume(in_size >= 1 && in_size <= (1u << 20));
	buf = malloc(in_size);
	__CPROVER_assume(buf != 0);
	ptr = buf;
	g_buf = buf;
	g_size = in_size;
	CALLR(unsigned long, PRE, POST, hash(ptr, len));
}
