/* UNIT
{
 "id": "MAP.key",
 "file": "map.c", "function": "mapkey",
 "properties": {"C16": "contract", "C19": "safety"},
 "mode": "dfcc", "enforce": "mapkey/mapkey_contract",
 "replace_contracts": {"hash": "hash_contract"},
 "kind": "proof",
 "timeout": 60,
 "expects": ["postcondition", "precondition", "assigns"],
 "assumes": ["hash() taken by its contract (MAP.hash): it is called on exactly (s, n) and its result is the ghost g_hv"]
}
*/
/*
 * C16: a key is the triple (bytes, length, hash of exactly those bytes).  mapkey must store the caller's pointer and
 * length unchanged and the hash of (s, n) - not of a prefix, not of another buffer: keyequal() rejects on a hash
 * mismatch before comparing bytes, so a key hashed over the wrong range would never be found again.
 */
#include "map.c"
#include "verif.h"

const void *g_s;
size_t g_n;
unsigned long g_hv;      /* whatever hash(s, n) returns */
struct mapkey *g_k;

#pragma CPROVER check push
#pragma CPROVER check disable "signed-overflow"
/* contract of hash as used here; its precondition is asserted at the real call inside mapkey */
#define PRE_HASH(X) \
	X(ptr == g_s) \
	X(len == g_n)
#define POST_HASH(X) \
	X(__CPROVER_return_value == g_hv)
static unsigned long hash_contract(const void *ptr, size_t len)
REQUIRES(PRE_HASH)
__CPROVER_assigns()
__CPROVER_ensures(__CPROVER_return_value == g_hv);
#pragma CPROVER check pop

#define PRE(X) \
	X(k != 0 && k == g_k) \
	X(s == g_s && n == g_n)

#define POST(X) \
	X(g_k->str == g_s) \
	X(g_k->len == g_n) \
	X(g_k->hash == g_hv) \
	CANARY(X, !(g_n == 5 && g_hv == 77))

void mapkey_contract(struct mapkey *k, const void *s, size_t n)
REQUIRES(PRE)
__CPROVER_assigns(k->str, k->len, k->hash)
ENSURES(POST);

void
harness(void)
{
	static struct mapkey key;
	static char buf[8];
	struct mapkey *k = &key;
	const void *s = buf;
	IN(size_t, n);
	ING(unsigned long, g_hv);

	g_k = k; g_s = s; g_n = n;
#ifdef VERIF_REPLAY
	/* natively the real hash runs: bind the ghost to what it returns for (s, n) */
	__CPROVER_assume(n <= sizeof buf);
	g_hv = hash(s, n);
#endif
	CALL(PRE, POST, mapkey(k, s, n));
}
