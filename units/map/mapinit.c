/* UNIT
{
 "id": "MAP.init",
 "file": "map.c", "function": "mapinit",
 "properties": {"C16": "contract", "C19": "safety"},
 "mode": "dfcc", "enforce": "mapinit/mapinit_contract",
 "loop_contracts": {"mapinit": [{"loop_id": "0",
     "assigns": "i, __CPROVER_object_whole(h->keys)",
     "invariants": "i <= cap && h->cap == cap && h->len == 0 && (g_i < i ==> h->keys[g_i].str == 0)",
     "decreases": "cap - i",
     "symbol_map": "i,mapinit::1::i;h,mapinit::h;cap,mapinit::cap;g_i,g_i"}]},
 "loops_expected": {"mapinit": 1},
 "kind": "proof",
 "timeout": 120,
 "expects": ["postcondition", "loop_invariant_step", "loop_decreases"],
 "assumes": ["cap <= 2^20 (cap * sizeof(struct mapkey) does not wrap; xreallocarray's own guard is UTIL.reallocarray's business)"]
}
*/
#include "map.c"
#include "verif.h"

size_t g_i;   /* ghost index: an arbitrary slot, i.e. "for all slots" without a quantifier */

#define PRE(X) \
	X(h != 0) \
	X(cap >= 1 && cap <= (1u << 20) && (cap & (cap - 1)) == 0) \
	X(g_i < cap)

#define POST(X) \
	X(h->len == 0) \
	X(h->cap == cap) \
	X(h->keys != 0 && h->vals != 0) \
	X(h->keys[g_i].str == 0) \
	CANARY(X, !(cap == 8 && g_i == 7))

void mapinit_contract(struct map *h, size_t cap)
REQUIRES(PRE)
__CPROVER_assigns(h->len, h->cap, h->keys, h->vals)
ENSURES(POST);

void
harness(void)
{
	static struct map m;
	struct map *h = &m;
	IN(size_t, cap);
	ING(size_t, g_i);

	CALL(PRE, POST, mapinit(h, cap));
}
