/* UNIT
{
 "id": "MAP.putget.bnd",
 "file": "map.c", "function": "mapput", "also_functions": ["mapget", "mapinit", "keyindex", "keyequal", "hash", "mapkey"],
 "properties": {"C16": "contract", "C19": "safety"},
 "mode": "harness",
 "replace_calls": {"hash": "uf_hash", "memcmp": "verif_memcmp2"},
 "kind": "bounded",
 "bound": "initial capacity in {4,8}; 4 put/overwrite operations, each followed by a get of an arbitrary key; keys of 0..2 arbitrary bytes; hash() replaced by an arbitrary (uninterpreted) function of the key bytes",
 "cflags": ["-DNOPS=4", "-DVERIF_OWN_XMALLOC"],
 "variants": {"cap4": ["-DV_CAP=4"], "cap8": ["-DV_CAP=8"]},
 "canary_variant": "cap4",
 "unwindset": ["keyindex.0:9", "mapinit.0:9", "mapput.0:9", "mapput.1:5", "model_get.0:5", "model_distinct.0:5", "model_distinct.1:5"],
 "timeout": 300, "mem_gb": 8,
 "tiers": {"thorough": {"cflags": ["-DNOPS=6", "-DVERIF_OWN_XMALLOC"], "timeout": 3000,
            "unwindset": ["keyindex.0:17", "mapinit.0:9", "mapput.0:17", "mapput.1:9", "model_get.0:7", "model_distinct.0:7", "model_distinct.1:7"],
            "bound": "initial capacity in {4,8}; 6 put/overwrite operations (table grows up to 16 slots), each followed by a get of an arbitrary key; keys of 0..2 arbitrary bytes; hash() replaced by an arbitrary (uninterpreted) function of the key bytes"}},
 "expects": ["assertion_verif", "assertion_repo", "pointer_dereference"],
 "assumes": ["xreallocarray does not fail (stubs/base.c)",
             "initial capacity >= 4 (call sites use 8, 32, 64): with capacity 1 or 2 the table can become full (growth happens only when len > cap/2 BEFORE an insertion) and a lookup of an absent key then probes forever",
             "hash() is a deterministic function of (len, the len key bytes): it is replaced by an uninterpreted function of them, which covers the real FNV-1a loop and every other hash",
             "values are opaque non-null pointers; key bytes stay alive and unmodified while the key is in the table (all clients pass interned strings / literal data)"]
}
*/
/*
 * C16: the name table behaves like a dictionary.  Reference model: the list of all put operations so far; the value
 * bound to a key is the one of the LAST put with a byte-equal key, NULL if there is none; the number of entries is
 * the number of distinct keys put.  Every key is 0..2 arbitrary bytes, so the SAT solver - not the harness - chooses
 * which keys are equal, which collide in the low hash bits at every table size, and which probe sequences wrap around
 * the end of the table.  Starting from capacity 4 the table doubles (once at 4 operations, twice at 6) within the bound, so every
 * rehash has to preserve the bindings.
 */
#include "map.c"
#include "verif.h"

#ifndef NOPS
#define NOPS 4
#endif
#ifndef V_CAP
#define V_CAP 4
#endif

static struct map t_map;

#ifndef VERIF_REPLAY
/*
 * Allocation: the requested capacity depends on how many of the symbolic keys are distinct; a heap object of symbolic
 * size sends CBMC into its unbounded-array theory (19 M variables at 3 operations).  Case-split on the element count
 * instead: every object then has a constant size and the bounds checks stay exact.
 */
void *
xmalloc(size_t n)
{
	void *p = malloc(n);
	__CPROVER_assume(p != 0);
	return p;
}

void *
xreallocarray(void *buf, size_t n, size_t m)
{
	void *p = 0;

	__CPROVER_assert(buf == 0, "map.c only allocates fresh arrays");
	if (n == 4)
		p = malloc(4 * m);
	else if (n == 8)
		p = malloc(8 * m);
	else if (n == 16)
		p = malloc(16 * m);
	else
		__CPROVER_assert(0, "capacity within the bound of this unit");
	__CPROVER_assume(p != 0);
	return p;
}
#endif

/*
 * hash() is replaced by an UNINTERPRETED function of (len, bytes): a fresh arbitrary value per call, except that  Byte-equal keys get the
 * the same hash as before; everything else is left to the solver, so the dictionary property is shown for EVERY deterministic hash
 * function - the real FNV-1a loop being one of them (its two 64-bit multiplications per key made 2 operations
 * undecidable in 170 s).  What is used about the real hash(): it is a function of the len bytes only (MAP.hash: it
 * assigns nothing and reads exactly those bytes).
 */
/* memcmp for n <= 2 without CBMC's byte loop (replaces the library model; the native replay uses libc) */
int
verif_memcmp2(const void *a, const void *b, size_t n)
{
	const unsigned char *p = a, *q = b;

	__CPROVER_assert(n <= 2, "keys of at most 2 bytes");
	if (n >= 1 && p[0] != q[0])
		return p[0] < q[0] ? -1 : 1;
	if (n >= 2 && p[1] != q[1])
		return p[1] < q[1] ? -1 : 1;
	return 0;
}

#define UFMAX (2 * NOPS)
static struct { size_t len; unsigned char b[2]; unsigned long val; } g_uf[UFMAX];
static unsigned g_ufn;
unsigned long nondet_hashval(void);
unsigned long
uf_hash(const void *ptr, size_t len)
{
	const unsigned char *p = ptr;
	unsigned char b0, b1;
	unsigned long v = nondet_hashval();
	unsigned i;

	__CPROVER_assert(len <= 2, "keys of at most 2 bytes");
	__CPROVER_assert(g_ufn < UFMAX, "hash is called once per operation");
	b0 = len >= 1 ? p[0] : 0;
	b1 = len >= 2 ? p[1] : 0;
	/* same bytes as an earlier call => same value (Ackermann expansion of the uninterpreted function) */
	for (i = 0; i < g_ufn; ++i) {
		if (g_uf[i].len == len && g_uf[i].b[0] == b0 && g_uf[i].b[1] == b1) {
			v = g_uf[i].val;
			break;
		}
	}
	g_uf[g_ufn].len = len; g_uf[g_ufn].b[0] = b0; g_uf[g_ufn].b[1] = b1; g_uf[g_ufn].val = v;
	++g_ufn;
	return v;
}

/* reference model */
static unsigned char m_kb[NOPS][2];
static size_t m_kl[NOPS];
static void *m_kv[NOPS];
static unsigned m_n;
/* ghost observations for the canary */
bool g_wrapped, g_grew;

#define KEQ(l, b0, b1, s) (m_kl[s] == (l) && ((l) < 1 || m_kb[s][0] == (b0)) && ((l) < 2 || m_kb[s][1] == (b1)))

static void *
model_get(size_t l, unsigned char b0, unsigned char b1)
{
	unsigned s;
	void *v = 0;

	for (s = 0; s < m_n; ++s) {
		if (KEQ(l, b0, b1, s))
			v = m_kv[s];
	}
	return v;
}

static size_t
model_distinct(void)
{
	unsigned s, t;
	size_t n = 0;

	for (s = 0; s < m_n; ++s) {
		bool first = true;
		for (t = 0; t < s; ++t) {
			if (KEQ(m_kl[s], m_kb[s][0], m_kb[s][1], t))
				first = false;
		}
		n += first;
	}
	return n;
}

static void
step_put(unsigned s, size_t l, unsigned char b0, unsigned char b1, unsigned char v)
{
	struct map *h = &t_map;
	struct mapkey k;
	void **slot, *old;
	size_t cap0 = h->cap, home;

	__CPROVER_assume(l <= 2 && v != 0);
	m_kb[s][0] = b0; m_kb[s][1] = b1; m_kl[s] = l;
	old = model_get(l, b0, b1);
	mapkey(&k, m_kb[s], l);
	__CPROVER_assert(k.str == (void *)m_kb[s] && k.len == l, "mapkey sets str and len");
	slot = mapput(h, &k);
	__CPROVER_assert(slot != 0 && slot >= h->vals && slot < h->vals + h->cap, "mapput returns a slot of the value array");
	__CPROVER_assert(*slot == old, "mapput: the slot holds the value bound so far (NULL for a new key)");
	*slot = (void *)(uintptr_t)v;
	m_kv[s] = (void *)(uintptr_t)v;
	m_n = s + 1;
	__CPROVER_assert(h->len == model_distinct(), "len == number of distinct keys");
	__CPROVER_assert(h->cap >= 1 && (h->cap & (h->cap - 1)) == 0, "capacity stays a power of two");
	__CPROVER_assert(h->len <= h->cap / 2 + 1 && h->len < h->cap, "load: at most cap/2+1 entries, so at least one empty slot (every probe sequence ends)");
	home = k.hash & (h->cap - 1);
	if ((size_t)(slot - h->vals) < home)
		g_wrapped = true;
	if (h->cap != cap0)
		g_grew = true;
}

static void
step_get(size_t l, unsigned char b0, unsigned char b1)
{
	static unsigned char qb[2];
	struct mapkey k;
	void *r;

	__CPROVER_assume(l <= 2);
	qb[0] = b0; qb[1] = b1;
	mapkey(&k, qb, l);
	r = mapget(&t_map, &k);
	__CPROVER_assert(r == model_get(l, b0, b1), "mapget returns the last value put under a byte-equal key, else NULL");
}

#define STEP(s) do { \
	IN(size_t, in_pl##s); IN(unsigned char, in_pa##s); IN(unsigned char, in_pb##s); IN(unsigned char, in_pv##s); \
	IN(size_t, in_ql##s); IN(unsigned char, in_qa##s); IN(unsigned char, in_qb##s); \
	step_put(s, in_pl##s, in_pa##s, in_pb##s, in_pv##s); \
	step_get(in_ql##s, in_qa##s, in_qb##s); \
} while (0)

void
harness(void)
{
	mapinit(&t_map, V_CAP);
	__CPROVER_assert(t_map.len == 0 && t_map.cap == V_CAP, "mapinit");
	STEP(0);
	STEP(1);
#if NOPS >= 3
	STEP(2);
#endif
#if NOPS >= 4
	STEP(3);
#endif
#if NOPS >= 5
	STEP(4);
#endif
#if NOPS >= 6
	STEP(5);
#endif
#ifdef VERIF_CANARY
	__CPROVER_assert(!(g_wrapped && g_grew), "CANARY: no run both grows the table and wraps a probe sequence around its end");
#endif
}
