/* UNIT
{
 "id": "MAP.putget.bnd",
 "file": "map.c",
 "function": "mapput",
 "also_functions": [
  "mapget",
  "keyindex",
  "keyequal",
  "mapkey"
 ],
 "properties": {
  "C16": "contract",
  "C19": "safety"
 },
 "mode": "harness",
 "replace_calls": {
  "hash": "uf_hash",
  "memcmp": "verif_memcmp2"
 },
 "kind": "bounded",
 "bound": "ONE mapput (+ store) or ONE mapget on EVERY well-formed table of capacity 4 (any occupancy up to cap/2+1, any keys of 0..2 bytes, any 64-bit hash values, hence any collision / probe / wrap-around layout); growth 4->8 with rehash included. Inductive: the post-state is again well-formed, so operation sequences of any length are covered as long as the capacity is 4 before the operation",
 "cflags": [
  "-DVERIF_OWN_XMALLOC"
 ],
 "variants": {
  "get4": [
   "-DV_CAP=4",
   "-DV_PUT=0"
  ],
  "put4s1": [
   "-DV_CAP=4",
   "-DV_PUT=1",
   "-DV_GROW=0",
   "-DV_POSTSET=1"
  ],
  "put4s2": [
   "-DV_CAP=4",
   "-DV_PUT=1",
   "-DV_GROW=0",
   "-DV_POSTSET=2"
  ],
  "put4s3": [
   "-DV_CAP=4",
   "-DV_PUT=1",
   "-DV_GROW=0",
   "-DV_POSTSET=3"
  ],
  "put4s4": [
   "-DV_CAP=4",
   "-DV_PUT=1",
   "-DV_GROW=0",
   "-DV_POSTSET=4"
  ],
  "put4g1": [
   "-DV_CAP=4",
   "-DV_PUT=1",
   "-DV_GROW=1",
   "-DV_POSTSET=1"
  ],
  "put4g2": [
   "-DV_CAP=4",
   "-DV_PUT=1",
   "-DV_GROW=1",
   "-DV_POSTSET=2"
  ],
  "put4g3": [
   "-DV_CAP=4",
   "-DV_PUT=1",
   "-DV_GROW=1",
   "-DV_POSTSET=3"
  ],
  "put4g4": [
   "-DV_CAP=4",
   "-DV_PUT=1",
   "-DV_GROW=1",
   "-DV_POSTSET=4"
  ]
 },
 "canary_variant": "put4g1",
 "unwindset": [
  "uf_hash.0:7",
  "uf_peek.0:7",
  "keyindex.0:5",
  "mapput.0:9",
  "mapput.1:5",
  "build.0:5",
  "inv_pre.0:5",
  "inv_pre.1:5",
  "inv_pre.2:5",
  "lookup_pre.0:5",
  "lookup_now.0:9",
  "count_now.0:9"
 ],
 "timeout": 300,
 "mem_gb": 8,
 "expects": [
  "assertion_verif",
  "pointer_dereference"
 ],
 "assumes": [
  "hash() is a deterministic function of (len, the len key bytes): it is replaced by an uninterpreted function of them (fresh value per call unless the same bytes were hashed before), which covers the real FNV-1a loop and every other hash; with the real 64-bit multiplications two operations were undecided after 170 s",
  "memcmp for n <= 2 modelled by two byte comparisons (CBMC's library loop replaced)",
  "xreallocarray does not fail",
  "capacity >= 4 (call sites use 8, 32, 64): with capacity 1 or 2 the table can become FULL (growth is decided before the insertion, when len > cap/2) and a lookup of an absent key then probes forever",
  "key bytes stay alive and unmodified while the key is in the table (clients pass interned identifiers / literal data)"
 ],
 "tiers": {
  "thorough": {
   "variants": {
    "get4": [
     "-DV_CAP=4",
     "-DV_PUT=0"
    ],
    "put4s1": [
     "-DV_CAP=4",
     "-DV_PUT=1",
     "-DV_GROW=0",
     "-DV_POSTSET=1"
    ],
    "put4s2": [
     "-DV_CAP=4",
     "-DV_PUT=1",
     "-DV_GROW=0",
     "-DV_POSTSET=2"
    ],
    "put4s3": [
     "-DV_CAP=4",
     "-DV_PUT=1",
     "-DV_GROW=0",
     "-DV_POSTSET=3"
    ],
    "put4s4": [
     "-DV_CAP=4",
     "-DV_PUT=1",
     "-DV_GROW=0",
     "-DV_POSTSET=4"
    ],
    "put4g1": [
     "-DV_CAP=4",
     "-DV_PUT=1",
     "-DV_GROW=1",
     "-DV_POSTSET=1"
    ],
    "put4g2": [
     "-DV_CAP=4",
     "-DV_PUT=1",
     "-DV_GROW=1",
     "-DV_POSTSET=2"
    ],
    "put4g3": [
     "-DV_CAP=4",
     "-DV_PUT=1",
     "-DV_GROW=1",
     "-DV_POSTSET=3"
    ],
    "put4g4": [
     "-DV_CAP=4",
     "-DV_PUT=1",
     "-DV_GROW=1",
     "-DV_POSTSET=4"
    ],
    "get8": [
     "-DV_CAP=8",
     "-DV_PUT=0"
    ],
    "put8s1": [
     "-DV_CAP=8",
     "-DV_PUT=1",
     "-DV_GROW=0",
     "-DV_POSTSET=1"
    ],
    "put8s2": [
     "-DV_CAP=8",
     "-DV_PUT=1",
     "-DV_GROW=0",
     "-DV_POSTSET=2"
    ],
    "put8s3": [
     "-DV_CAP=8",
     "-DV_PUT=1",
     "-DV_GROW=0",
     "-DV_POSTSET=3"
    ],
    "put8s4": [
     "-DV_CAP=8",
     "-DV_PUT=1",
     "-DV_GROW=0",
     "-DV_POSTSET=4"
    ],
    "put8g1": [
     "-DV_CAP=8",
     "-DV_PUT=1",
     "-DV_GROW=1",
     "-DV_POSTSET=1"
    ],
    "put8g2": [
     "-DV_CAP=8",
     "-DV_PUT=1",
     "-DV_GROW=1",
     "-DV_POSTSET=2"
    ],
    "put8g3": [
     "-DV_CAP=8",
     "-DV_PUT=1",
     "-DV_GROW=1",
     "-DV_POSTSET=3"
    ],
    "put8g4": [
     "-DV_CAP=8",
     "-DV_PUT=1",
     "-DV_GROW=1",
     "-DV_POSTSET=4"
    ]
   },
   "timeout": 1500,
   "unwindset": [
    "uf_hash.0:11",
    "uf_peek.0:11",
    "keyindex.0:7",
    "mapput.0:17",
    "mapput.1:9",
    "build.0:9",
    "inv_pre.0:9",
    "inv_pre.1:9",
    "inv_pre.2:9",
    "lookup_pre.0:9",
    "lookup_now.0:17",
    "count_now.0:17"
   ],
   "bound": "as quick, for capacity 4 and 8 (growth 4->8 and 8->16)"
  }
 }
}
*/
/*
 * C16: the name table behaves like a dictionary, however the hashes collide.
 *
 * Well-formed table (INV), the representation invariant of open addressing with linear probing and no deletion:
 *   I1  cap is a power of two, len == number of occupied slots, len <= cap/2 + 1   (so an empty slot exists)
 *   I2  every occupied slot holds a key of <= 2 bytes whose stored hash is the hash of its bytes
 *   I3  for an occupied slot j with home = hash & (cap-1): every slot in the cyclic interval [home, j) is occupied
 *   I4  no two occupied slots hold byte-equal keys
 * The pre-state is EVERY table satisfying INV (built from scalar inputs: per slot occupied/len/bytes/hash/value), which
 * is a superset of the reachable ones.  Reference semantics: lookup(q) = value of the slot holding a key byte-equal
 * to q, NULL if there is none (a scan, independent of probing).
 *   put:  slot = mapput(h, k); *slot = v   ==>  lookup'(q) == (q == k ? v : lookup(q)) for an arbitrary key q,
 *         *slot before the store == lookup(k), len' == len + (k absent), INV' (so the next operation starts from a
 *         well-formed table again), bindings survive the rehash when the table doubles.
 *   get:  mapget(h, q) == lookup(q), table unchanged.
 */
/* V_POSTSET 1..3: one third of the POST list, built-in safety checks off; 4: safety checks only; 0: everything */
#ifndef V_POSTSET
#define V_POSTSET 0
#endif
#if V_POSTSET >= 1 && V_POSTSET <= 3
#pragma CPROVER check push
#pragma CPROVER check disable "pointer"
#pragma CPROVER check disable "bounds"
#pragma CPROVER check disable "pointer-overflow"
#pragma CPROVER check disable "signed-overflow"
#pragma CPROVER check disable "undefined-shift"
#pragma CPROVER check disable "div-by-zero"
#pragma CPROVER check disable "pointer-primitive"
#endif
#include "map.c"
#include "verif.h"

#ifndef V_CAP
#define V_CAP 4
#endif
#ifndef V_PUT
#define V_PUT 1
#endif
#define CAP V_CAP
#define MAXCAP (2 * CAP)

#ifndef VERIF_REPLAY
/* constant-size allocations by case split on the element count (a heap object of symbolic size sends CBMC into its
   unbounded-array theory); bounds checks stay exact */
void *
xmalloc(size_t n)
{
	void *p = malloc(n);
	__CPROVER_assume(p != 0);
	return p;
}

void *
xreallocarray(void *buf, size_t n, size_t m)
{
	void *p = 0;

	__CPROVER_assert(buf == 0, "map.c only allocates fresh arrays");
	if (n == CAP)
		p = malloc(CAP * m);
	else if (n == MAXCAP)
		p = malloc(MAXCAP * m);
	else
		__CPROVER_assert(0, "capacity stays or doubles");
	__CPROVER_assume(p != 0);
	return p;
}
#endif

/* memcmp for n <= 2 without CBMC's byte loop */
int
verif_memcmp2(const void *a, const void *b, size_t n)
{
	const unsigned char *p = a, *q = b;

	__CPROVER_assert(n <= 2, "keys of at most 2 bytes");
	if (n >= 1 && p[0] != q[0])
		return p[0] < q[0] ? -1 : 1;
	if (n >= 2 && p[1] != q[1])
		return p[1] < q[1] ? -1 : 1;
	return 0;
}

/* ---- the uninterpreted hash: a log of (bytes -> value); a new byte string gets a fresh arbitrary value */
#define UFMAX (CAP + 2)
static struct { size_t len; unsigned char b0, b1; unsigned long val; } g_uf[UFMAX];
static unsigned g_ufn;
unsigned long nondet_hashval(void);

unsigned long
uf_hash(const void *ptr, size_t len)
{
	const unsigned char *p = ptr;
	unsigned char b0, b1;
	unsigned long v = nondet_hashval();
	unsigned i;

	__CPROVER_assert(len <= 2, "keys of at most 2 bytes");
	__CPROVER_assert(g_ufn < UFMAX, "hash log large enough");
	b0 = len >= 1 ? p[0] : 0;
	b1 = len >= 2 ? p[1] : 0;
	for (i = 0; i < g_ufn; ++i) {
		if (g_uf[i].len == len && g_uf[i].b0 == b0 && g_uf[i].b1 == b1) {
			v = g_uf[i].val;
			break;
		}
	}
	g_uf[g_ufn].len = len; g_uf[g_ufn].b0 = b0; g_uf[g_ufn].b1 = b1; g_uf[g_ufn].val = v;
	++g_ufn;
	return v;
}

/* is `val` the logged hash of these bytes? */
static bool
uf_peek(size_t len, unsigned char b0, unsigned char b1, unsigned long val)
{
	unsigned i;

	for (i = 0; i < g_ufn; ++i) {
		if (g_uf[i].len == len && g_uf[i].b0 == (len >= 1 ? b0 : 0) && g_uf[i].b1 == (len >= 2 ? b1 : 0))
			return g_uf[i].val == val;
	}
	return false;
}

/* ---- pre-state, from scalar inputs */
struct slotdesc { bool occ; size_t len; unsigned char b0, b1; unsigned long hash; void *val; };
static struct slotdesc t_pre[CAP];
static unsigned char t_kb[CAP + 1][2];      /* key bytes of the slots; [CAP]: the key of the operation */
static struct map t_map;
static struct mapkey *t_keys0;
static void **t_vals0;

#define BEQ(l1, a1, c1, l2, a2, c2) ((l1) == (l2) && ((l1) < 1 || (a1) == (a2)) && ((l1) < 2 || (c1) == (c2)))
#define KB(k, i) (((const unsigned char *)(k).str)[i])

static void
build(void)
{
	struct map *h = &t_map;
	size_t j, n = 0;

	h->cap = CAP;
	h->keys = malloc(CAP * sizeof(h->keys[0]));
	h->vals = malloc(CAP * sizeof(h->vals[0]));
	__CPROVER_assume(h->keys != 0 && h->vals != 0);
	for (j = 0; j < CAP; ++j) {
		t_kb[j][0] = t_pre[j].b0; t_kb[j][1] = t_pre[j].b1;
		h->keys[j].str = t_pre[j].occ ? (const void *)&t_kb[j][0] : (const void *)0;
		h->keys[j].len = t_pre[j].len;
		h->keys[j].hash = t_pre[j].hash;
		h->vals[j] = t_pre[j].val;
		n += t_pre[j].occ;
	}
	h->len = n;
	t_keys0 = h->keys;
	t_vals0 = h->vals;
}

static bool
inv_pre(void)
{
	size_t j, i, d;
	bool ok = true;

	ok = ok && t_map.len <= CAP / 2 + 1;                                                     /* I1 */
	for (j = 0; j < CAP; ++j) {
		if (!t_pre[j].occ)
			continue;
		if (t_pre[j].len > 2)                                                                /* I2 */
			ok = false;
		for (d = 0; d < CAP; ++d) {                                                          /* I3 */
			i = (t_pre[j].hash + d) & (CAP - 1);
			if (i == j)
				break;
			if (!t_pre[i].occ)
				ok = false;
		}
		for (i = 0; i < j; ++i) {                                                            /* I4 */
			if (t_pre[i].occ && BEQ(t_pre[i].len, t_pre[i].b0, t_pre[i].b1, t_pre[j].len, t_pre[j].b0, t_pre[j].b1))
				ok = false;
		}
	}
	return ok;
}

/* reference semantics on the pre-state description */
static bool g_found_pre;
static void *
lookup_pre(size_t l, unsigned char a, unsigned char c)
{
	size_t j;
	void *v = 0;

	g_found_pre = false;
	for (j = 0; j < CAP; ++j) {
		if (t_pre[j].occ && BEQ(t_pre[j].len, t_pre[j].b0, t_pre[j].b1, l, a, c)) {
			v = t_pre[j].val;
			g_found_pre = true;
		}
	}
	return v;
}

/* reference semantics on the table as it is in memory now */
static void *
lookup_now(size_t l, unsigned char a, unsigned char c)
{
	struct map *h = &t_map;
	size_t j;
	void *v = 0;

	for (j = 0; j < h->cap; ++j) {
		if (h->keys[j].str && BEQ(h->keys[j].len, h->keys[j].len >= 1 ? KB(h->keys[j], 0) : 0, h->keys[j].len >= 2 ? KB(h->keys[j], 1) : 0, l, a, c))
			v = h->vals[j];
	}
	return v;
}

static size_t
count_now(void)
{
	size_t j, n = 0;

	for (j = 0; j < t_map.cap; ++j)
		n += t_map.keys[j].str != 0;
	return n;
}

/* ---- ghosts */
size_t g_kl, g_ql; unsigned char g_ka, g_kc, g_qa, g_qc;    /* the key of the operation, an arbitrary other key q */
void *g_v;                                                    /* value stored by put                                 */
size_t g_i, g_j;                                              /* arbitrary slot indices of the post-state            */
size_t g_len0;
bool g_present; void *g_old, *g_qold;                         /* lookup(k), lookup(q) before                         */
void *g_slotval;                                              /* *slot as returned by mapput, before the store       */
size_t g_slotidx; bool g_slotok;
void *g_qnew;                                                 /* lookup(q) after                                     */
size_t g_count1;
unsigned long g_khash;
bool g_wrapped;

#define H (&t_map)
#define OCC(j)    (H->keys[j].str != 0)
#define KLEN(j)   (H->keys[j].len)
#define KA(j)     (KLEN(j) >= 1 ? KB(H->keys[j], 0) : 0)
#define KC(j)     (KLEN(j) >= 2 ? KB(H->keys[j], 1) : 0)
#define MASK      (H->cap - 1)
/* g_i lies in the cyclic interval [home(g_j), g_j) */
#define BETWEEN   (((g_i - H->keys[g_j].hash) & MASK) < ((g_j - H->keys[g_j].hash) & MASK))

#define PRE(X) \
	X(g_kl <= 2 && g_ql <= 2) \
	X(g_len0 == H->len && H->cap == CAP) \
	X(g_i < MAXCAP && g_j < MAXCAP)

#if V_PUT
static void **
op(struct map *h, struct mapkey *k)
{
	void **slot = mapput(h, k);

	g_slotok = slot >= h->vals && slot < h->vals + h->cap;
	g_slotidx = g_slotok ? (size_t)(slot - h->vals) : 0;
	g_slotval = g_slotok ? *slot : 0;
	if (g_slotok)
		*slot = g_v;                                   /* what every client does with the result */
	g_qnew = lookup_now(g_ql, g_qa, g_qc);
	g_count1 = count_now();
	g_wrapped = g_slotok && g_slotidx < (k->hash & (h->cap - 1));
	return slot;
}

#define GROWN (CAP / 2 < g_len0)
/* the POST list can be checked in three separate runs (V_POSTSET 1,2,3; default: all): one CBMC run over all
   clauses of the growth case took 3x the sum of the separate runs */
#define PS(n, c) ((V_POSTSET != 0 && V_POSTSET != (n)) || (c))
#define POST(X) \
	/* result: a slot of the value array whose key is byte-equal to k */ \
	X(PS(1, g_slotok)) \
	X(PS(1, OCC(g_slotidx) && BEQ(KLEN(g_slotidx), KA(g_slotidx), KC(g_slotidx), g_kl, g_ka, g_kc))) \
	/* it holds the value bound so far; NULL for a new key */ \
	X(PS(1, g_slotval == (g_present ? g_old : (void *)0))) \
	/* dictionary semantics for an arbitrary key q, also across the rehash */ \
	X(PS(1, g_qnew == (BEQ(g_ql, g_qa, g_qc, g_kl, g_ka, g_kc) ? g_v : g_qold))) \
	/* INV is re-established.  I1 */ \
	X(PS(2, H->len == g_len0 + !g_present)) \
	X(PS(2, H->len == g_count1)) \
	X(PS(2, H->cap == (GROWN ? MAXCAP : CAP))) \
	X(PS(2, H->len <= H->cap / 2 + 1 && H->len < H->cap)) \
	/* I2 for an arbitrary slot g_j */ \
	X(PS(2, IMP(g_j < H->cap && OCC(g_j), KLEN(g_j) <= 2 && uf_peek(KLEN(g_j), KA(g_j), KC(g_j), H->keys[g_j].hash)))) \
	/* I3 for arbitrary slots g_j, g_i */ \
	X(PS(3, IMP(g_j < H->cap && g_i < H->cap && OCC(g_j) && BETWEEN, OCC(g_i)))) \
	/* I4 */ \
	X(PS(3, IMP(g_j < H->cap && g_i < H->cap && g_i != g_j && OCC(g_i) && OCC(g_j), !BEQ(KLEN(g_i), KA(g_i), KC(g_i), KLEN(g_j), KA(g_j), KC(g_j))))) \
	/* no reallocation unless the table was more than half full */ \
	X(PS(3, IMP(!GROWN, H->keys == t_keys0 && H->vals == t_vals0))) \
	CANARY(X, !(GROWN && g_wrapped && !g_present))
#else
static void *
op(struct map *h, struct mapkey *k)
{
	void *r = mapget(h, k);

	g_qnew = lookup_now(g_ql, g_qa, g_qc);
	g_count1 = count_now();
	return r;
}

#define POST(X) \
	X(HRET == (g_present ? g_old : (void *)0)) \
	/* the table is unchanged */ \
	X(H->len == g_len0 && H->cap == CAP && H->keys == t_keys0 && H->vals == t_vals0) \
	X(g_qnew == g_qold && g_count1 == g_len0) \
	X(IMP(g_j < CAP, OCC(g_j) == t_pre[g_j].occ && H->keys[g_j].hash == t_pre[g_j].hash && KLEN(g_j) == t_pre[g_j].len && H->vals[g_j] == t_pre[g_j].val)) \
	CANARY(X, !(g_present && g_len0 == 3 && (g_khash & (CAP - 1)) == CAP - 1))
#endif

#define SLOT(j) do { \
	IN(bool, in_o##j); IN(size_t, in_l##j); IN(unsigned char, in_a##j); IN(unsigned char, in_c##j); \
	IN(unsigned long, in_h##j); IN(unsigned long, in_v##j); \
	t_pre[j].occ = in_o##j; t_pre[j].len = in_l##j; t_pre[j].b0 = in_a##j; t_pre[j].b1 = in_c##j; \
	t_pre[j].hash = in_h##j; t_pre[j].val = (void *)(uintptr_t)in_v##j; \
	if (in_o##j) { \
		__CPROVER_assume(in_l##j <= 2); \
		g_uf[g_ufn].len = in_l##j; g_uf[g_ufn].b0 = in_l##j >= 1 ? in_a##j : 0; g_uf[g_ufn].b1 = in_l##j >= 2 ? in_c##j : 0; \
		g_uf[g_ufn].val = in_h##j; ++g_ufn; \
	} \
} while (0)

void
harness(void)
{
	struct map *h = &t_map;
	struct mapkey key, *k = &key;

	SLOT(0); SLOT(1); SLOT(2); SLOT(3);
#if CAP >= 8
	SLOT(4); SLOT(5); SLOT(6); SLOT(7);
#endif
	ING(size_t, g_kl); ING(unsigned char, g_ka); ING(unsigned char, g_kc);
	ING(size_t, g_ql); ING(unsigned char, g_qa); ING(unsigned char, g_qc);
	IN(unsigned long, in_v);
	ING(size_t, g_i); ING(size_t, g_j);

	build();
	__CPROVER_assume(inv_pre());
	__CPROVER_assume(g_kl <= 2);
#ifdef V_GROW
	/* case split: table at most half full (insert in place) / more than half full (doubles, rehash) */
	__CPROVER_assume((CAP / 2 < h->len) == V_GROW);
#endif
	g_v = (void *)(uintptr_t)in_v;
	g_len0 = h->len;
	g_old = lookup_pre(g_kl, g_ka, g_kc);
	g_present = g_found_pre;
	g_qold = lookup_pre(g_ql, g_qa, g_qc);
	t_kb[CAP][0] = g_ka; t_kb[CAP][1] = g_kc;
	mapkey(k, t_kb[CAP], g_kl);
	__CPROVER_assert(k->str == (void *)t_kb[CAP] && k->len == g_kl, "mapkey sets str and len");
	g_khash = k->hash;
#if V_PUT
	HCALLR(void **, PRE, POST, op(h, k));
#else
	HCALLR(void *, PRE, POST, op(h, k));
#endif
}
