/*
 * out_rec.h -- TOKEN RECORDER standing in for stdout in the QBE.emit.* units.  Include BEFORE "qbe.c".
 *
 * Every stdio output call of qbe.c's emitters (printf / fputs / puts / putchar / fputc; all go to stdout) is routed,
 * by macro (/repo untouched), to a recorder that appends EVENTS to a small buffer:
 *     OE_CH   one character of literal text (format-string text, string literals of qbe.c, putchar arguments)
 *     OE_STR  a NAME: a C string handed over as data (an expression of type char *: v->u.name, f->name, "%s"); kept as the POINTER, the units state
 *             what the name must look like in their "assumes" (the names are identifiers / asm labels made elsewhere)
 *     OE_U64  "%llu": the decimal digits of an unsigned 64-bit number      OE_U32  "%u"      OE_D  "%d"
 *     OE_O3   "\\%03o" prints a backslash (recorded as OE_CH) and exactly three octal digits of the value (C11 7.21.6.1:
 *             0 flag + width 3; more digits if the value is > 0777)
 *     OE_G17  "%.17g": a double printed with 17 significant digits (enough to read back the same binary64, and hence
 *             the same binary32 when the value is a float: IEEE 754-2008 5.12.2; inf/nan are printed as such)
 * ASSUMED: the C library prints these conversions as C11 7.21.6.1 says.  The units compare the recorded event list with
 * the event list that the QBE IL grammar prescribes for the emitted entity (built by the x_* expectation functions of
 * the unit from the IL reference, never from qbe.c).
 */
#ifndef OUT_REC_H
#define OUT_REC_H

#include <stdio.h>
#include <stdarg.h>
#include <stdbool.h>

enum { OE_CH = 1, OE_STR, OE_U64, OE_U32, OE_D, OE_O3, OE_G17,
       OE_VAL, OE_NAME, OE_CLS /* one whole VAL / name / class printed by a callee that has its own unit (emit_stubs.h) */ };
struct oev { int k; unsigned long long v; const void *p; };
#ifndef OE_MAX
#define OE_MAX 40
#endif
static struct oev oe[OE_MAX];      /* what the real code printed */
static unsigned oe_n;
static struct oev xe[OE_MAX];      /* what the grammar prescribes */
static unsigned xe_n;
static bool oe_tox;                /* recorder primitives append to xe instead of oe (expectation side) */
static bool oe_badfmt;             /* a conversion outside the model was used */

/* literal text and names are told apart at COMPILE time (a string literal has array type, a name is a char *), so the
   loop over a literal always runs over a constant string */
#define OE_ISPTR(s) (__builtin_types_compatible_p(__typeof__(s), char *) || __builtin_types_compatible_p(__typeof__(s), const char *))

static void
oe_ev(int k, unsigned long long v, const void *p)
{
	if (oe_tox) {
		if (xe_n < OE_MAX) { xe[xe_n].k = k; xe[xe_n].v = v; xe[xe_n].p = p; }
		xe_n++;
	} else {
		if (oe_n < OE_MAX) { oe[oe_n].k = k; oe[oe_n].v = v; oe[oe_n].p = p; }
		oe_n++;
	}
}

static void oe_ch(int c) { oe_ev(OE_CH, (unsigned char)c, 0); }

static void
oe_text(const char *s, int isname)
{
	unsigned i;

	if (isname) {
		oe_ev(OE_STR, 0, s);
		return;
	}
	for (i = 0; s[i]; i++)          /* literal text of qbe.c: a constant string */
		oe_ch(s[i]);
}

static unsigned long long
oe_dbits(double d)
{
	union { double d; unsigned long long u; } x;
	x.d = d;
	return x.u;
}

int
rec_printf(const char *f, ...)
{
	va_list ap;

	va_start(ap, f);
	for (; *f; f++) {
		if (*f != '%') {
			oe_ch(*f);
			continue;
		}
		f++;
		if (f[0] == 'l' && f[1] == 'l' && f[2] == 'u') {
			oe_ev(OE_U64, va_arg(ap, unsigned long long), 0);
			f += 2;
		} else if (f[0] == 'u') {
			oe_ev(OE_U32, va_arg(ap, unsigned), 0);
		} else if (f[0] == 'd') {
			oe_ev(OE_D, (unsigned long long)(long long)va_arg(ap, int), 0);
		} else if (f[0] == 'c') {
			oe_ch(va_arg(ap, int));
		} else if (f[0] == 's') {
			oe_text(va_arg(ap, const char *), 1);
		} else if (f[0] == '.' && f[1] == '1' && f[2] == '7' && f[3] == 'g') {
			oe_ev(OE_G17, oe_dbits(va_arg(ap, double)), 0);
			f += 3;
		} else if (f[0] == '0' && f[1] == '3' && f[2] == 'o') {
			oe_ev(OE_O3, va_arg(ap, unsigned), 0);
			f += 2;
		} else {
			oe_badfmt = 1;
			break;
		}
	}
	va_end(ap);
	return 0;
}

int rec_fputs(const char *s, int isname) { oe_text(s, isname); return 0; }
int rec_puts(const char *s, int isname) { oe_text(s, isname); oe_ch('\n'); return 0; }
int rec_putchar(int c) { oe_ch(c); return c; }
int rec_fputc(int c, FILE *fp) { (void)fp; oe_ch(c); return c; }

static void
oe_reset(void)
{
	oe_n = xe_n = 0;
	oe_tox = 0;
	oe_badfmt = 0;
}

/* expectation-side primitives */
static void x_ch(int c) { oe_tox = 1; oe_ch(c); oe_tox = 0; }
static void x_lit(const char *s) { unsigned i; oe_tox = 1; for (i = 0; s[i]; i++) oe_ch(s[i]); oe_tox = 0; }
static void x_ev(int k, unsigned long long v, const void *p) { oe_tox = 1; oe_ev(k, v, p); oe_tox = 0; }

/* the two event lists are identical */
static bool
oe_same(void)
{
	unsigned i;
	bool same = oe_n == xe_n && oe_n <= OE_MAX && !oe_badfmt;

	for (i = 0; i < OE_MAX; i++)
		if (i < oe_n && i < xe_n && (oe[i].k != xe[i].k || oe[i].v != xe[i].v || oe[i].p != xe[i].p))
			same = 0;
	return same;
}

#define printf  rec_printf
#define fputs(s, f)  rec_fputs(s, OE_ISPTR(s))
#define puts(s)      rec_puts(s, OE_ISPTR(s))
#define fputc   rec_fputc
#undef putchar
#define putchar rec_putchar

#endif
