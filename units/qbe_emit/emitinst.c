/* UNIT
{
 "id": "QBE.emit.inst",
 "file": "qbe.c", "function": "emitinst",
 "properties": {"C03": "contract", "C19": "safety"},
 "mode": "harness",
 "replace_calls": {"emitvalue": "rec_emitvalue", "emitclass": "rec_emitclass"},
 "unwind": 26, "unwindset": ["harness.0:100"], "cflags": ["-DOE_MAX=24"],
 "kind": "proof-const-unwind",
 "timeout": 200, "replay": false,
 "expects": ["assertion_verif"],
 "assumes": ["stdout is the token recorder of out_rec.h; emitvalue/emitclass are replaced by one-event stand-ins with the contract unit QBE.emit.value proves (emit_stubs.h)",
             "the instruction is one the builder makes (QBE.mkinst): opcode of ops.h other than call, first operand present, a result temporary iff it has a class; the second operand of a non-call instruction is never a :type",
             "loops only over qbe.c's literals and, in the harness, over the opcodes of ops.h (name table check) and the class/operand-count cases, each with these a constant (unwinding assertions on)"]
}
*/
/*
 * C03 "its complete output ... parses".  QBE IL reference, "Instructions":  one instruction per line,
 *         [ %res '=' CLASS ] OPNAME VAL [ ',' VAL ] NL
 * - an instruction that defines nothing (stores, vastart; class 0) has NO `%res =class` part;
 * - OPNAME is the reference's name of the operation the opcode stands for (qbe_mnemonic.h vs. ops.h);
 * - operands in order, the second one only if present, separated by a comma;
 * - exactly one instruction is consumed: the returned position is the next one.
 */
#include "out_rec.h"
#include "qbe.c"
#include "verif.h"
#include "emit_stubs.h"
#include "qbe_mnemonic.h"

struct token tok;
extern int g_no_error;

static void
check(int op, int in_class, bool in_hasa1, int in_nextop)
{
	static struct inst in0, in1;
	static struct inst *seq[2];
	static struct value a0, a1;
	struct inst **ret;

	oe_reset();
	a0.kind = VALUE_TEMP; a1.kind = VALUE_INTCONST;
	in0.kind = op; in0.class = in_class;
	in0.arg[0] = &a0; in0.arg[1] = in_hasa1 ? &a1 : 0;
	in0.res.kind = in_class ? VALUE_TEMP : VALUE_NONE;      /* mkinst(): a result temporary iff the instruction has a class */
	in0.res.id = 7;
	in1.kind = in_nextop; in1.arg[0] = &a1;                 /* whatever follows is left alone, even an arg (no call before it) */
	seq[0] = &in0; seq[1] = &in1;
	g_no_error = 1;

	ret = emitinst(&seq[0], &seq[2]);

	x_ch('\t');
	if (in_class) {
		x_val(&in0.res);
		x_lit(" =");
		x_cls(in_class, 0);
		x_ch(' ');
	}
	x_ev(OE_STR, 0, instname[op]);       /* the opcode's entry of the name table (checked against the reference below) */
	x_ch(' ');
	x_val(&a0);
	if (in_hasa1) {
		x_lit(", ");
		x_val(&a1);
	}
	x_ch('\n');
	__CPROVER_assert(oe_n <= OE_MAX && xe_n <= OE_MAX, "recorder large enough");
	__CPROVER_assert(oe_same(), "the line is exactly `\\t[%res =class ]opname arg0[, arg1]\\n`");
	__CPROVER_assert(oe[0].k == OE_CH && oe[0].v == '\t' && oe[oe_n - 1].k == OE_CH && oe[oe_n - 1].v == '\n', "one line, indented by a tab");
	__CPROVER_assert(IMP(!in_class, oe[1].k == OE_STR), "an instruction without result has no `%res =` part: the opname follows the tab");
	__CPROVER_assert(IMP(in_class, oe[1].k == OE_VAL && oe[1].p == &in0.res && oe[2].v == ' ' && oe[3].v == '=' && oe[4].k == OE_CLS && oe[4].v == (unsigned)in_class && oe[5].v == ' '), "a defining instruction starts `%res =class `");
	__CPROVER_assert(ret == &seq[1], "exactly this instruction is consumed");
#ifdef VERIF_CANARY
	__CPROVER_assert(!(op == ISTOREW && in_class == 0 && in_hasa1), "CANARY");
#endif
}

void
harness(void)
{
	static const int cls[5] = {0, 'w', 'l', 's', 'd'};
	IN(int, in_op); IN(int, in_class); IN(bool, in_hasa1); IN(int, in_nextop);
	int k, c, h;

	/* the name table: every opcode carries the reference's name of the operation it stands for */
	for (k = INONE + 1; k < IARG; k++)
		__CPROVER_assert(instname[k] != 0 && x_samename(instname[k], x_mnemonic(k)), "instname[op] is the QBE reference's mnemonic of op");
	__CPROVER_assert(LEN(instname) == IARG, "the table covers exactly the opcodes");

	__CPROVER_assume(in_op > INONE && in_op < IARG && in_op != ICALL);
	/* class x operand count CONSTANT per case (the recorder's positions stay concrete), any opcode */
	for (c = 0; c < 5; c++)
		for (h = 0; h < 2; h++)
			if (in_class == cls[c] && in_hasa1 == h)
				check(in_op, cls[c], h, in_nextop);
}
