/* UNIT
{
 "id": "QBE.emit.call.vararg0",
 "file": "qbe.c", "function": "emitinst",
 "properties": {"C03": "contract", "C19": "safety"},
 "mode": "harness",
 "replace_calls": {"emitvalue": "rec_emitvalue", "emitclass": "rec_emitclass"},
 "unwind": 34, "cflags": ["-DOE_MAX=32"],
 "kind": "bounded", "bound": "calls of a function WITHOUT named parameters (C23 `int f(...)`): the variadic marker is the first item; 0..2 variadic arguments",
 "timeout": 200, "replay": false,
 "expects": ["assertion_verif"],
 "assumes": ["as QBE.emit.call; this unit holds the shapes on which the pinned tree FAILS (finding): emitinst prints `, ...` unconditionally and does not clear `first`, so `f(1, 2.0)` with `int f(...)` is emitted as `call $f(, ...w 1, d d_2)`, which QBE cannot parse; expected `call $f(..., w 1, d d_2)`"]
}
*/
#include "out_rec.h"
#include "qbe.c"
#include "verif.h"
#include "emit_stubs.h"

struct token tok;
extern int g_no_error;
#include "emitcall_body.h"

void
harness(void)
{
	static const struct { const char *s; unsigned n; } shapes[] = {
		{"VXX", 1}, {"VAX", 2}, {"VAA", 3},
	};
	IN(unsigned, in_shape); IN(bool, in_hasres); IN(int, in_class); IN(bool, in_aggret); IN(int, in_acls);
	unsigned i, r;

	__CPROVER_assume(in_class == 'w' || in_class == 'l' || in_class == 's' || in_class == 'd');
	__CPROVER_assume(in_acls == 'w' || in_acls == 'l' || in_acls == 's' || in_acls == 'd');
	for (i = 0; i < sizeof shapes / sizeof shapes[0]; i++)
		for (r = 0; r < 2; r++)
			if (in_shape == i && in_hasres == r) {
				check_call(shapes[i].s, shapes[i].n, r, in_class, in_aggret, in_acls);
#ifdef VERIF_CANARY
				__CPROVER_assert(!(i == 1 && r), "CANARY");
#endif
			}
}
