/*
 * casesearch_redirect.h -- include BEFORE "qbe.c" (and `#undef casesearch` after it): every CALL casesearch(f, ...)
 * inside qbe.c goes to hyp_casesearch(...), the DEFINITION stays (same preprocessor trick as
 * units/qbe_lower/funcexpr_redirect.h: in the definition the first macro argument starts with the keyword `struct`).
 */
#ifndef CASESEARCH_REDIRECT_H
#define CASESEARCH_REDIRECT_H
struct func; struct value; struct switchcase; struct block;
void hyp_casesearch(struct func *, int, struct value *, struct switchcase *, struct block *);
#define CSR_CAT_(a, b) a##b
#define CSR_CAT(a, b) CSR_CAT_(a, b)
#define CSR_PROBE_struct ~, 1,
#define CSR_SECOND_(a, b, ...) b
#define CSR_SECOND(...) CSR_SECOND_(__VA_ARGS__)
#define CSR_ISDECL(a) CSR_SECOND(CSR_CAT_(CSR_PROBE_, a), 0, ~)
#define CSR_SEL_1(a, b, c, d, e) casesearch(a, b, c, d, e)
#define CSR_SEL_0(a, b, c, d, e) hyp_casesearch(a, b, c, d, e)
#define casesearch(a, b, c, d, e) CSR_CAT(CSR_SEL_, CSR_ISDECL(a))(a, b, c, d, e)
#endif
