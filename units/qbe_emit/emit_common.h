/*
 * emit_common.h -- what the QBE IL reference prescribes for the TEXT of names, values and classes, written as
 * expectation builders over the event recorder of out_rec.h.  Included after "qbe.c" and "verif.h".
 *
 * QBE IL reference, "Sigils": `:` user-defined aggregate types, `$` globals, `%` function-scope temporaries, `@` block
 * labels; the sigil is followed by an identifier ([A-Za-z._][A-Za-z0-9._$]*) or, for globals, a "quoted" string.
 * "Constants and Vals":  CONST := ['-'] NUMBER | 's_' FP | 'd_' FP | $IDENT;  DYNCONST := CONST | 'thread' $IDENT;
 * VAL := DYNCONST | %IDENT.  NUMBER is decimal; QBE reads it modulo 2^64, so the unsigned decimal spelling of the 64-bit
 * carrier denotes the constant for every class.
 *
 * How cproc forms the identifier after the sigil (the facts the units demand):
 *   - the C name, if the entity has one (a C identifier, or the asm label spelling handed over by decl.c);
 *   - `.`<id> appended iff id != 0: ids keep entities with equal C names apart (block-scope statics, temporaries,
 *     tags, labels); a C identifier contains no '.', so name.id is injective;
 *   - globals WITHOUT linkage (id != 0) additionally start with `.L`, the assembler-local prefix: a block-scope static
 *     `x` (`$.Lx.1`) must never resolve to / clash with the external symbol `x` (C16/C09);
 *   - the identifier is never empty.
 */
#ifndef EMIT_COMMON_H
#define EMIT_COMMON_H

static int
x_sigil(int kind)
{
	switch (kind) {
	case VALUE_TEMP:   return '%';
	case VALUE_GLOBAL: return '$';
	case VALUE_TYPE:   return ':';
	case VALUE_LABEL:  return '@';
	}
	return 0;
}

/* a value that can be printed as a name */
#define NAMEKIND(k)  ((k) == VALUE_TEMP || (k) == VALUE_GLOBAL || (k) == VALUE_TYPE || (k) == VALUE_LABEL)

static void
x_name(int kind, const char *name, unsigned id)
{
	x_ch(x_sigil(kind));
	if (kind == VALUE_GLOBAL && id)
		x_lit(".L");
	if (name)
		x_ev(OE_STR, 0, name);
	if (id) {
		x_ch('.');
		x_ev(OE_U32, id, 0);
	}
}

/* VAL / DYNCONST */
static void
x_value(struct value *v)
{
	int kind = v->kind & 0xf;

	switch (kind) {
	case VALUE_INTCONST:
		x_ev(OE_U64, v->u.i, 0);
		break;
	case VALUE_FLTCONST:
		x_lit("s_");
		x_ev(OE_G17, oe_dbits(v->u.f), 0);
		break;
	case VALUE_DBLCONST:
		x_lit("d_");
		x_ev(OE_G17, oe_dbits(v->u.f), 0);
		break;
	default:
		if (kind == VALUE_GLOBAL && (v->kind & VALUE_THREAD))
			x_lit("thread ");
		x_name(kind, v->u.name, v->id);
	}
}

/* ABITY := BASETY | :IDENT  (class of a result, parameter, argument, return) */
static void
x_class(int class, struct value *tv)
{
	if (tv && tv->kind == VALUE_TYPE)
		x_name(VALUE_TYPE, tv->u.name, tv->id);
	else
		x_ch(class);
}

#endif
