/*
 * emitcall_body.h -- shared by QBE.emit.call and QBE.emit.call.vararg0: emitinst() on a call instruction followed by
 * its argument pseudo-instructions, for one CONSTANT shape.
 *
 * QBE IL reference, "Call":   CALL := [ %IDENT '=' ABITY ] 'call' VAL '(' (ARG), ')'     ARG := ABITY VAL | '...'
 * i.e. the items between the parentheses -- arguments and the variadic marker alike -- are separated by commas, nothing
 * precedes the first one: `call $f(w 1, ..., d d_2)`, `call $f(..., w 1)` (C23 `int f(...)`), `call $f()`.
 * The builder (funcexpr, unit QBE.call) puts, after the call, one IARG per argument in order and an IVARARG right before
 * the first variadic argument; emitinst() must consume exactly those and print them inside the parentheses.
 */
static struct inst c_in[4];
static struct inst *c_seq[4];
static struct value c_fn, c_a[3], c_ty;

/* shape: one character per instruction after the call: A = arg, V = variadic marker, X = some other instruction */
static void
check_call(const char *shape, unsigned n, bool hasres, int in_class, bool in_aggret, int in_acls)
{
	struct inst **ret;
	unsigned j, consumed;
	bool first = 1;

	oe_reset();
	c_fn.kind = VALUE_GLOBAL; c_ty.kind = VALUE_TYPE; c_ty.id = 3;
	c_in[0].kind = ICALL;
	c_in[0].class = hasres ? in_class : 0;
	c_in[0].arg[0] = &c_fn;
	c_in[0].arg[1] = hasres && in_aggret ? &c_ty : 0;       /* a struct/union result is described by its :type */
	c_in[0].res.kind = hasres ? VALUE_TEMP : VALUE_NONE;
	c_in[0].res.id = 9;
	c_seq[0] = &c_in[0];
	for (j = 0; j < 3; j++) {
		c_a[j].kind = VALUE_TEMP; c_a[j].id = 20 + j;
		c_in[1 + j].kind = shape[j] == 'A' ? IARG : shape[j] == 'V' ? IVARARG : ISTOREW;
		c_in[1 + j].class = shape[j] == 'A' ? in_acls : 0;
		c_in[1 + j].arg[0] = shape[j] == 'V' ? 0 : &c_a[j];   /* funcinst(f, IVARARG, 0, NULL, NULL) */
		c_in[1 + j].arg[1] = 0;
		c_in[1 + j].res.kind = VALUE_NONE;                      /* mkinst(): an arg never has a result */
		c_seq[1 + j] = &c_in[1 + j];
	}
	g_no_error = 1;

	ret = emitinst(&c_seq[0], &c_seq[1 + n]);

	x_ch('\t');
	if (hasres) {
		x_val(&c_in[0].res);
		x_lit(" =");
		x_cls(in_class, in_aggret ? &c_ty : 0);
		x_ch(' ');
	}
	x_ev(OE_STR, 0, instname[ICALL]);   /* "call": the name table is checked by QBE.emit.inst */
	x_ch(' ');
	x_val(&c_fn);
	x_ch('(');
	for (consumed = 0; consumed < n && shape[consumed] != 'X'; consumed++) {
		if (!first)
			x_lit(", ");
		first = 0;
		if (shape[consumed] == 'V') {
			x_lit("...");
		} else {
			x_cls(in_acls, 0);
			x_ch(' ');
			x_val(&c_a[consumed]);
		}
	}
	x_ch(')');
	x_ch('\n');
	__CPROVER_assert(oe_n <= OE_MAX && xe_n <= OE_MAX, "recorder large enough");
	__CPROVER_assert(ret == &c_seq[1 + consumed], "the call consumes exactly its arg/marker pseudo-instructions, never past the end of the block");
	__CPROVER_assert(oe_n >= 4 && oe[oe_n - 1].v == '\n' && oe[oe_n - 2].v == ')', "the argument list is closed and the line ends");
	__CPROVER_assert(IMP(!hasres, oe[1].k == OE_STR && oe[1].p == instname[ICALL]), "a call whose value is not used/void has no `%res =` part");
	__CPROVER_assert(oe_same(), "the line is exactly `\\t[%res =abity ]call VAL(item, item, ...)\\n`, items separated by commas only BETWEEN them");
}
