/* UNIT
{
 "id": "QBE.emit.value",
 "file": "qbe.c", "function": "emitvalue", "also_functions": ["emitname", "emitclass"],
 "properties": {"C03": "contract", "C01": "contract", "C19": "safety"},
 "mode": "harness",
 "unwind": 20, "cflags": ["-DOE_MAX=16"],
 "kind": "proof-const-unwind",
 "timeout": 120, "replay": false,
 "expects": ["assertion_verif"],
 "assumes": ["stdout is the token recorder of out_rec.h: literal characters, names (by pointer), and one event per numeric conversion; the C library prints %llu/%u as decimal and %.17g with 17 significant digits (C11 7.21.6.1), which reads back to the same binary64/binary32 (IEEE 754-2008 5.12.2)",
             "names handed to the emitter (decl->name, asm label spelling, tag, block name) are QBE identifiers resp. quoted strings: that is decl.c's / the scanner's business (see report: decl.c accepts a PREFIXED string literal as asm label, `int x __asm__(L\"ab\")` prints $L\"ab\")",
             "error()/fatal() do not return; all loops are over the constant format strings / literals of qbe.c (unwinding assertions on)"]
}
*/
/*
 * C03 "its complete output is a valid QBE IL module: it parses"; C01/C04: a constant reaches the backend with exactly
 * its value.  emitvalue(v) prints one VAL of the IL grammar (see emit_common.h):
 *   integer constant   the decimal digits of the 64-bit carrier, nothing else (no sign, no suffix);
 *   float constant     s_ followed by the value with 17 significant digits; double: d_ likewise;
 *   global             $name, `thread $name` for a thread-local object (IL reference: DYNCONST);
 *   temporary/label/type  %name  @name  :name;
 *   a value that is none of these (VALUE_NONE, garbage kinds) must end in the internal-error path, never print.
 * emitclass(class, tv): the aggregate's :type if the entity has one, else the one-letter base/extended class; class 0
 * without a type (void where a value is needed) is an internal error.
 */
#include "out_rec.h"
#include "qbe.c"
#include "verif.h"
#include "emit_common.h"

struct token tok;
extern int g_no_error;

void
harness(void)
{
	static struct value val, tv;
	static char nm[4] = "ab";
	IN(int, in_kind); IN(unsigned, in_id); IN(bool, in_hasname); IN(u64, in_bits);
	IN(int, in_which); IN(int, in_class); IN(int, in_tvkind); IN(bool, in_hastv);
	bool printable;
	int kind;

	oe_reset();
	__CPROVER_assume((in_kind & ~0x1f) == 0);          /* any kind, with or without the thread flag */
	kind = in_kind & 0xf;
	val.kind = in_kind;
	val.id = in_id;
	if (kind == VALUE_INTCONST || kind == VALUE_FLTCONST || kind == VALUE_DBLCONST)
		val.u.i = in_bits;                         /* every 64-bit pattern: all integers, all doubles incl. inf/nan */
	else
		val.u.name = in_hasname ? (char *)nm : (char *)0;
	/* is_valid(name value): the identifier after the sigil is not empty (temporaries have id >= 1, globals a name, ...) */
	__CPROVER_assume(!NAMEKIND(kind) || in_hasname || in_id != 0);

	if (in_which == 0) {
		printable = kind == VALUE_INTCONST || kind == VALUE_FLTCONST || kind == VALUE_DBLCONST || NAMEKIND(kind);
		g_no_error = printable;
		emitvalue(&val);
		__CPROVER_assert(printable, "a value that is neither a constant nor a name is never printed (internal error instead)");
		__CPROVER_assume(printable);
		x_value(&val);
		__CPROVER_assert(oe_n >= 1 && oe_n <= OE_MAX, "something was printed and the recorder did not overflow");
		__CPROVER_assert(oe_same(), "the text is exactly the VAL the IL grammar prescribes for this value");
		/* the facts one by one (the clause above implies them; separate so that a failure names the fact) */
		__CPROVER_assert(IMP(kind == VALUE_INTCONST, oe_n == 1 && oe[0].k == OE_U64 && oe[0].v == in_bits), "integer constant: decimal digits of exactly the 64-bit value");
		__CPROVER_assert(IMP(kind == VALUE_FLTCONST, oe_n == 3 && oe[0].v == 's' && oe[1].v == '_' && oe[2].k == OE_G17 && oe[2].v == in_bits), "single constant: s_ prefix, 17 significant digits of exactly the value");
		__CPROVER_assert(IMP(kind == VALUE_DBLCONST, oe_n == 3 && oe[0].v == 'd' && oe[1].v == '_' && oe[2].k == OE_G17 && oe[2].v == in_bits), "double constant: d_ prefix, 17 significant digits of exactly the value");
		__CPROVER_assert(IMP(kind == VALUE_TEMP, oe[0].k == OE_CH && oe[0].v == '%'), "temporary: % sigil");
		__CPROVER_assert(IMP(kind == VALUE_LABEL, oe[0].k == OE_CH && oe[0].v == '@'), "label: @ sigil");
		__CPROVER_assert(IMP(kind == VALUE_TYPE, oe[0].k == OE_CH && oe[0].v == ':'), "type: : sigil");
		__CPROVER_assert(IMP(kind == VALUE_GLOBAL && !(in_kind & VALUE_THREAD), oe[0].k == OE_CH && oe[0].v == '$'), "global: $ sigil");
		__CPROVER_assert(IMP(kind == VALUE_GLOBAL && (in_kind & VALUE_THREAD), oe_n > 7 && oe[0].v == 't' && oe[5].v == 'd' && oe[6].v == ' ' && oe[7].v == '$'), "thread-local global: `thread $name`");
		__CPROVER_assert(IMP(NAMEKIND(kind) && in_id, oe[oe_n - 1].k == OE_U32 && oe[oe_n - 1].v == in_id && oe[oe_n - 2].k == OE_CH && oe[oe_n - 2].v == '.'), "a non-zero id is the last component, separated by a dot");
#ifdef VERIF_CANARY
		__CPROVER_assert(!(kind == VALUE_GLOBAL && (in_kind & VALUE_THREAD) && in_id == 7), "CANARY");
#endif
	} else {
		/* emitclass */
		__CPROVER_assume(in_which == 1);
		tv.kind = in_tvkind; tv.id = in_id; tv.u.name = in_hasname ? (char *)nm : (char *)0;
		__CPROVER_assume((in_tvkind & ~0x1f) == 0);
		__CPROVER_assume(in_tvkind != VALUE_TYPE || in_hasname || in_id != 0);
		__CPROVER_assume(in_class == 0 || in_class == 'w' || in_class == 'l' || in_class == 's' || in_class == 'd' || in_class == 'b' || in_class == 'h');
		printable = in_class != 0 || (in_hastv && in_tvkind == VALUE_TYPE);
		g_no_error = printable;
		emitclass(in_class, in_hastv ? &tv : 0);
		__CPROVER_assert(printable, "no class letter and no aggregate type: internal error, nothing printed");
		__CPROVER_assume(printable);
		x_class(in_class, in_hastv ? &tv : 0);
		__CPROVER_assert(oe_same(), "the text is the :type of an aggregate, else exactly the class letter");
		__CPROVER_assert(IMP(!(in_hastv && in_tvkind == VALUE_TYPE), oe_n == 1 && oe[0].k == OE_CH && oe[0].v == (unsigned)in_class), "scalar: one class letter");
#ifdef VERIF_CANARY
		__CPROVER_assert(!(in_hastv && in_tvkind == VALUE_TYPE && in_class == 'l'), "CANARY");
#endif
	}
}
