/*
 * emit_stubs.h -- stand-ins for emitvalue()/emitname()/emitclass() in the units on the emitters that CALL them
 * (attach with "replace_calls": {"emitvalue": "rec_emitvalue", "emitname": "rec_emitname", "emitclass": "rec_emitclass"}).
 * ASSUMED CONTRACT (= what unit QBE.emit.value proves of the real functions): each prints exactly the VAL / the
 * sigil+identifier / the class letter or :type of its argument and nothing else.  The stand-in records ONE event carrying
 * the argument, so the caller's unit states WHICH entity is printed WHERE in the line.
 * A NULL argument is recorded as such (the real emitvalue/emitname would dereference it: the units assert non-NULL).
 */
#ifndef EMIT_STUBS_H
#define EMIT_STUBS_H

void rec_emitvalue(struct value *v) { oe_ev(OE_VAL, 0, v); }
void rec_emitname(struct value *v) { oe_ev(OE_NAME, 0, v); }
void rec_emitclass(int class, struct value *v) { oe_ev(OE_CLS, (unsigned)class, v && v->kind == VALUE_TYPE ? v : 0); }

static void x_val(struct value *v) { x_ev(OE_VAL, 0, v); }
static void x_nam(struct value *v) { x_ev(OE_NAME, 0, v); }
static void x_cls(int class, struct value *tv) { x_ev(OE_CLS, (unsigned)class, tv && tv->kind == VALUE_TYPE ? tv : 0); }

#endif
