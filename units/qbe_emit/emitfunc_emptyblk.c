/* UNIT
{
 "id": "QBE.emit.func.emptyblock",
 "file": "qbe.c", "function": "emitfunc",
 "properties": {"C19": "safety", "C03": "contract"},
 "mode": "harness",
 "replace_calls": {"emitvalue": "rec_emitvalue", "emitname": "rec_emitname", "emitclass": "rec_emitclass", "emitinst": "rec_emitinst", "emitjump": "rec_emitjump"},
 "unwind": 12, "unwindset": ["oe_same.0:66", "emitfunc.0:4"], "cflags": ["-DOE_MAX=64", "-DV_NULLBLK", "-DV_NP=0","-DV_VA=0","-DV_GL=1","-DV_RK=1","-DV_PH=0"],
 "kind": "bounded", "bound": "one function shape: exported int f(void), second block WITHOUT any instruction and without instruction storage (insts.val == NULL, as mkblock() leaves it)",
 "timeout": 200, "replay": false,
 "expects": ["assertion_verif", "pointer_arithmetic"],
 "assumes": ["as QBE.emit.funchdr; FINDING: emitfunc computes `(char *)b->insts.val + b->insts.len` (qbe.c:1333) for every block; for a block that never received an instruction that is NULL + 0, undefined in C11 6.5.6p8 (same class as the repaired pp.c:expandfunc NULL + 0). Every function has such a block when `@start` holds no alloc (`int f(void){return 0;}`)"]
}
*/
#include "emitfunc_text.c"
