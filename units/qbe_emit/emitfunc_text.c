/* UNIT
{
 "id": "QBE.emit.funchdr",
 "file": "qbe.c", "function": "emitfunc", "also_functions": ["qbetype", "funcret"],
 "properties": {"C03": "contract", "C19": "safety"},
 "mode": "harness",
 "replace_calls": {"emitvalue": "rec_emitvalue", "emitname": "rec_emitname", "emitclass": "rec_emitclass", "emitinst": "rec_emitinst", "emitjump": "rec_emitjump"},
 "unwind": 12, "unwindset": ["oe_same.0:66", "emitfunc.0:4"], "cflags": ["-DOE_MAX=64"],
 "variants": {"v0": ["-DV_NP=0","-DV_VA=1","-DV_GL=1","-DV_RK=0","-DV_PH=0"], "s1": ["-DV_NP=1","-DV_VA=0","-DV_GL=0","-DV_RK=1","-DV_PH=1"], "a1v": ["-DV_NP=1","-DV_VA=1","-DV_GL=1","-DV_RK=2","-DV_PH=1"], "a2": ["-DV_NP=2","-DV_VA=1","-DV_GL=0","-DV_RK=2","-DV_PH=0"]}, "canary_variant": "a1v",
 "kind": "bounded", "bound": "FOUR constant function shapes (one CBMC run each; a symbolic shape costs 17 s per shape): f(...) exported void; static int f(double) with a phi; exported struct f(double, ...) with a phi; static struct f(struct, long, ...); 2 blocks (start: 2 instructions, falls through; body: optional phi, no instruction, any terminator)",
 "timeout": 300, "replay": false,
 "expects": ["assertion_verif"],
 "assumes": ["stdout is the token recorder of out_rec.h; emitvalue/emitname/emitclass/emitinst/emitjump are one-event stand-ins with the contracts of QBE.emit.value / QBE.emit.inst / QBE.emit.jump (emit_stubs.h and this file)",
             "the function is one mkfunc()/the builder make: paramtemps[i] belongs to the i-th parameter, aggregate types carry their :type value, phi blocks have two sources; f->name is not `main` here (implicit return: QBE.emitfunc.term)",
             "each shape is run with the shape a constant"]
}
*/
/*
 * QBE IL reference, "Functions":
 *     FUNCDEF := LINKAGE* 'function' [ABITY] $IDENT '(' (PARAM), ')' [NL] '{' NL BLOCK+ '}'
 *     PARAM   := ABITY %IDENT | '...'              (the marker last, after the named parameters)
 *     BLOCK   := @IDENT NL ( PHI NL )* ( INST NL )* [ JUMP NL ]
 *     PHI     := %IDENT '=' BASETY 'phi' ( @IDENT VAL ),
 * C03: "call arguments, returns and parameters agree in class with their signatures": the header gives every parameter
 * the class of ITS C type (aggregates: their :type) and names the temporary mkfunc() bound to it; the result class is
 * that of the return type, absent for void.  C09: `export` iff the definition has external linkage.
 * Every block: label line, phi first, then each instruction exactly once in order, then its (one) jump.
 */
#include "out_rec.h"
#include "qbe.c"
#include "verif.h"
#include "emit_stubs.h"

struct token tok;
struct type typeint, typevoid;
extern int g_no_error;

enum { OE_INST = 20, OE_JUMP };
struct inst **rec_emitinst(struct inst **instp, struct inst **instend) { oe_ev(OE_INST, 0, *instp); return instp + 1; }
void rec_emitjump(struct jump *j) { oe_ev(OE_JUMP, 0, j); }

#define INTPROP_ (PROPSCALAR|PROPARITH|PROPREAL|PROPINT)

static void
check(unsigned np, bool vararg, bool global, int rk, bool phi, int in_jk)
{
	static struct func fn;
	static struct type ft, t_long, t_dbl, t_agg;
	static struct decl fd, pd[2];
	static struct value fv, pv[2], aggv, c0, c1;
	static struct inst i0, i1;
	static struct inst *ia[2];
	static struct block b0, b1;
	static char name[2] = "f";
	unsigned i;

	oe_reset();
	typeint.kind = TYPEINT; typeint.prop = INTPROP_; typeint.size = 4; typeint.u.basic.issigned = 1; typeint.value = 0;
	typevoid.kind = TYPEVOID; typevoid.prop = PROPNONE; typevoid.value = 0;
	t_long.kind = TYPELONG; t_long.prop = INTPROP_; t_long.size = 8; t_long.u.basic.issigned = 1; t_long.value = 0;
	t_dbl.kind = TYPEDOUBLE; t_dbl.prop = PROPSCALAR|PROPARITH|PROPREAL|PROPFLOAT; t_dbl.size = 8; t_dbl.value = 0;
	aggv.kind = VALUE_TYPE; aggv.id = 4;
	t_agg.kind = TYPESTRUCT; t_agg.prop = PROPNONE; t_agg.size = 24; t_agg.value = &aggv;
	/* parameters: (double), (struct, long) */
	pd[0].type = np == 1 ? &t_dbl : &t_agg; pd[0].next = np == 2 ? &pd[1] : 0;
	pd[1].type = &t_long; pd[1].next = 0;
	pv[0].kind = pv[1].kind = VALUE_TEMP; pv[0].id = 1; pv[1].id = 2;
	ft.kind = TYPEFUNC;
	ft.base = rk == 0 ? &typevoid : rk == 1 ? &typeint : &t_agg;
	{
		/* one whole-member assignment: CBMC does not propagate pointers written member-wise into a union */
		__typeof__(ft.u.func) fu = {vararg, np ? &pd[0] : 0, np};
		ft.u.func = fu;
	}
	fv.kind = VALUE_GLOBAL;
	fd.value = &fv;
	ia[0] = &i0; ia[1] = &i1;
	b0.label.kind = b1.label.kind = VALUE_LABEL;
	b0.insts.val = ia; b0.insts.len = sizeof ia; b0.insts.cap = sizeof ia;
#ifdef V_NULLBLK
	b1.insts.val = 0; b1.insts.len = 0; b1.insts.cap = 0;        /* a block that never got an instruction: mkblock()'s (struct array){0} */
#else
	b1.insts.val = &ia[2]; b1.insts.len = 0; b1.insts.cap = 0;   /* empty, but with storage (see QBE.emit.func.emptyblock for val == NULL) */
#endif
	b0.phi.res.kind = VALUE_NONE;
	b0.jump.kind = JUMP_NONE;            /* falls through */
	b1.jump.kind = in_jk;
	b1.phi.res.kind = phi ? VALUE_TEMP : VALUE_NONE;
	b1.phi.class = 'l';
	b1.phi.blk[0] = &b0; b1.phi.blk[1] = &b1; b1.phi.val[0] = &c0; b1.phi.val[1] = &c1;
	b0.next = &b1; b1.next = 0;
	fn.decl = &fd; fn.name = name; fn.type = &ft; fn.paramtemps = pv; fn.start = &b0; fn.end = &b1;
	g_no_error = 1;

	emitfunc(&fn, global);

	if (global)
		x_lit("export\n");
	x_lit("function ");
	if (rk != 0) {
		x_cls(rk == 1 ? 'w' : 'l', rk == 2 ? &aggv : 0);
		x_ch(' ');
	}
	x_nam(&fv);
	x_ch('(');
	for (i = 0; i < np; i++) {
		if (i)
			x_lit(", ");
		if (np == 1)
			x_cls('d', 0);
		else if (i == 0)
			x_cls('l', &aggv);
		else
			x_cls('l', 0);
		x_ch(' ');
		x_nam(&pv[i]);
	}
	if (vararg) {
		if (np)
			x_lit(", ");
		x_lit("...");
	}
	x_lit(") {\n");
	x_nam(&b0.label); x_ch('\n');
	x_ev(OE_INST, 0, &i0);
	x_ev(OE_INST, 0, &i1);
	x_ev(OE_JUMP, 0, &b0.jump);
	x_nam(&b1.label); x_ch('\n');
	if (phi) {
		x_ch('\t'); x_val(&b1.phi.res); x_lit(" =l phi "); x_nam(&b0.label); x_ch(' '); x_val(&c0); x_lit(", ");
		x_nam(&b1.label); x_ch(' '); x_val(&c1); x_ch('\n');
	}
	x_ev(OE_JUMP, 0, &b1.jump);
	x_lit("}\n");
	__CPROVER_assert(oe_n <= OE_MAX && xe_n <= OE_MAX, "recorder large enough");
	__CPROVER_assert(oe_same(), "header, blocks and closing brace are exactly the FUNCDEF of the IL reference for this function");
	__CPROVER_assert(b1.jump.kind != JUMP_NONE, "the last block is terminated when it is printed");
}

void
harness(void)
{
	IN(int, in_jk);

	__CPROVER_assume(in_jk > JUMP_NONE && in_jk <= JUMP_HLT);   /* an open last block: QBE.emitfunc.term */
	check(V_NP, V_VA, V_GL, V_RK, V_PH, in_jk);
#ifdef VERIF_CANARY
	__CPROVER_assert(in_jk != JUMP_HLT, "CANARY");
#endif
}
