/* UNIT
{
 "id": "QBE.emit.call",
 "file": "qbe.c", "function": "emitinst",
 "properties": {"C03": "contract", "C19": "safety"},
 "mode": "harness",
 "replace_calls": {"emitvalue": "rec_emitvalue", "emitclass": "rec_emitclass"},
 "unwind": 34, "cflags": ["-DOE_MAX=32"],
 "kind": "bounded", "bound": "calls with up to 3 arguments; every arrangement of arguments, at most one variadic marker (not in first position: see QBE.emit.call.vararg0), end of block or another instruction after them",
 "timeout": 200, "replay": false,
 "expects": ["assertion_verif"],
 "assumes": ["stdout is the token recorder of out_rec.h; emitvalue/emitclass are replaced by one-event stand-ins with the contract unit QBE.emit.value proves (emit_stubs.h)",
             "the call sequence is one the builder makes (QBE.call): call, then IARG (class of the argument, no result) / at most one IVARARG (no operands)",
             "each shape is run with the shape a constant (the recorder's positions stay concrete)"]
}
*/
#include "out_rec.h"
#include "qbe.c"
#include "verif.h"
#include "emit_stubs.h"

struct token tok;
extern int g_no_error;
#include "emitcall_body.h"

void
harness(void)
{
	static const struct { const char *s; unsigned n; } shapes[] = {
		{"XXX", 0}, {"AXX", 1}, {"AAX", 2}, {"AVX", 2}, {"AAA", 3}, {"AAV", 3}, {"AVA", 3},
		{"XAA", 3}, {"AXA", 3}, {"AAX", 3},
	};
	IN(unsigned, in_shape); IN(bool, in_hasres); IN(int, in_class); IN(bool, in_aggret); IN(int, in_acls);
	unsigned i, r;

	__CPROVER_assume(in_class == 'w' || in_class == 'l' || in_class == 's' || in_class == 'd');
	__CPROVER_assume(in_acls == 'w' || in_acls == 'l' || in_acls == 's' || in_acls == 'd');
	for (i = 0; i < sizeof shapes / sizeof shapes[0]; i++)
		for (r = 0; r < 2; r++)
			if (in_shape == i && in_hasres == r) {
				check_call(shapes[i].s, shapes[i].n, r, in_class, in_aggret, in_acls);
#ifdef VERIF_CANARY
				__CPROVER_assert(!(i == 6 && r), "CANARY");
#endif
			}
}
