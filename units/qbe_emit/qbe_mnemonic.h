/*
 * qbe_mnemonic.h -- the instruction names of the QBE IL reference ("Index of instructions"), keyed by cproc's opcode
 * enumerators.  Written from the reference, not from ops.h: the unit on emitinst() checks ops.h's table against it.
 * (`loadw` is the reference's sugar for loadsw.)
 */
#ifndef QBE_MNEMONIC_H
#define QBE_MNEMONIC_H

static void
x_mnemonic(int op)
{
	switch (op) {
	case IADD: x_lit("add"); break;       case ISUB: x_lit("sub"); break;       case INEG: x_lit("neg"); break;
	case IDIV: x_lit("div"); break;       case IMUL: x_lit("mul"); break;       case IUDIV: x_lit("udiv"); break;
	case IREM: x_lit("rem"); break;       case IUREM: x_lit("urem"); break;     case IOR: x_lit("or"); break;
	case IXOR: x_lit("xor"); break;       case IAND: x_lit("and"); break;       case ISAR: x_lit("sar"); break;
	case ISHR: x_lit("shr"); break;       case ISHL: x_lit("shl"); break;
	case ISTORED: x_lit("stored"); break; case ISTORES: x_lit("stores"); break; case ISTOREL: x_lit("storel"); break;
	case ISTOREW: x_lit("storew"); break; case ISTOREH: x_lit("storeh"); break; case ISTOREB: x_lit("storeb"); break;
	case ILOADD: x_lit("loadd"); break;   case ILOADS: x_lit("loads"); break;   case ILOADL: x_lit("loadl"); break;
	case ILOADW: x_lit("loadw"); break;   case ILOADSH: x_lit("loadsh"); break; case ILOADUH: x_lit("loaduh"); break;
	case ILOADSB: x_lit("loadsb"); break; case ILOADUB: x_lit("loadub"); break;
	case IALLOC4: x_lit("alloc4"); break; case IALLOC8: x_lit("alloc8"); break; case IALLOC16: x_lit("alloc16"); break;
	case ICEQW: x_lit("ceqw"); break;     case ICNEW: x_lit("cnew"); break;     case ICSLEW: x_lit("cslew"); break;
	case ICSLTW: x_lit("csltw"); break;   case ICSGEW: x_lit("csgew"); break;   case ICSGTW: x_lit("csgtw"); break;
	case ICULEW: x_lit("culew"); break;   case ICULTW: x_lit("cultw"); break;   case ICUGEW: x_lit("cugew"); break;
	case ICUGTW: x_lit("cugtw"); break;
	case ICEQL: x_lit("ceql"); break;     case ICNEL: x_lit("cnel"); break;     case ICSLEL: x_lit("cslel"); break;
	case ICSLTL: x_lit("csltl"); break;   case ICSGEL: x_lit("csgel"); break;   case ICSGTL: x_lit("csgtl"); break;
	case ICULEL: x_lit("culel"); break;   case ICULTL: x_lit("cultl"); break;   case ICUGEL: x_lit("cugel"); break;
	case ICUGTL: x_lit("cugtl"); break;
	case ICEQS: x_lit("ceqs"); break;     case ICNES: x_lit("cnes"); break;     case ICLES: x_lit("cles"); break;
	case ICLTS: x_lit("clts"); break;     case ICGES: x_lit("cges"); break;     case ICGTS: x_lit("cgts"); break;
	case ICOS: x_lit("cos"); break;       case ICUOS: x_lit("cuos"); break;
	case ICEQD: x_lit("ceqd"); break;     case ICNED: x_lit("cned"); break;     case ICLED: x_lit("cled"); break;
	case ICLTD: x_lit("cltd"); break;     case ICGED: x_lit("cged"); break;     case ICGTD: x_lit("cgtd"); break;
	case ICOD: x_lit("cod"); break;       case ICUOD: x_lit("cuod"); break;
	case IEXTSW: x_lit("extsw"); break;   case IEXTUW: x_lit("extuw"); break;   case IEXTSH: x_lit("extsh"); break;
	case IEXTUH: x_lit("extuh"); break;   case IEXTSB: x_lit("extsb"); break;   case IEXTUB: x_lit("extub"); break;
	case IEXTS: x_lit("exts"); break;     case ITRUNCD: x_lit("truncd"); break;
	case ISTOSI: x_lit("stosi"); break;   case ISTOUI: x_lit("stoui"); break;   case IDTOSI: x_lit("dtosi"); break;
	case IDTOUI: x_lit("dtoui"); break;   case ISWTOF: x_lit("swtof"); break;   case IUWTOF: x_lit("uwtof"); break;
	case ISLTOF: x_lit("sltof"); break;   case IULTOF: x_lit("ultof"); break;
	case ICAST: x_lit("cast"); break;     case ICOPY: x_lit("copy"); break;     case ICALL: x_lit("call"); break;
	case IVASTART: x_lit("vastart"); break; case IVAARG: x_lit("vaarg"); break;
	default: x_lit("?"); break;
	}
}

#endif
