/*
 * qbe_mnemonic.h -- the instruction names of the QBE IL reference ("Index of instructions"), keyed by cproc's opcode
 * enumerators.  Written from the reference, not from ops.h: the unit on emitinst() checks ops.h's table against it.
 * (`loadw` is the reference's sugar for loadsw.)
 */
#ifndef QBE_MNEMONIC_H
#define QBE_MNEMONIC_H

static const char *
x_mnemonic(int op)
{
	switch (op) {
	case IADD: return "add";       case ISUB: return "sub";       case INEG: return "neg";
	case IDIV: return "div";       case IMUL: return "mul";       case IUDIV: return "udiv";
	case IREM: return "rem";       case IUREM: return "urem";     case IOR: return "or";
	case IXOR: return "xor";       case IAND: return "and";       case ISAR: return "sar";
	case ISHR: return "shr";       case ISHL: return "shl";
	case ISTORED: return "stored"; case ISTORES: return "stores"; case ISTOREL: return "storel";
	case ISTOREW: return "storew"; case ISTOREH: return "storeh"; case ISTOREB: return "storeb";
	case ILOADD: return "loadd";   case ILOADS: return "loads";   case ILOADL: return "loadl";
	case ILOADW: return "loadw";   case ILOADSH: return "loadsh"; case ILOADUH: return "loaduh";
	case ILOADSB: return "loadsb"; case ILOADUB: return "loadub";
	case IALLOC4: return "alloc4"; case IALLOC8: return "alloc8"; case IALLOC16: return "alloc16";
	case ICEQW: return "ceqw";     case ICNEW: return "cnew";     case ICSLEW: return "cslew";
	case ICSLTW: return "csltw";   case ICSGEW: return "csgew";   case ICSGTW: return "csgtw";
	case ICULEW: return "culew";   case ICULTW: return "cultw";   case ICUGEW: return "cugew";
	case ICUGTW: return "cugtw";
	case ICEQL: return "ceql";     case ICNEL: return "cnel";     case ICSLEL: return "cslel";
	case ICSLTL: return "csltl";   case ICSGEL: return "csgel";   case ICSGTL: return "csgtl";
	case ICULEL: return "culel";   case ICULTL: return "cultl";   case ICUGEL: return "cugel";
	case ICUGTL: return "cugtl";
	case ICEQS: return "ceqs";     case ICNES: return "cnes";     case ICLES: return "cles";
	case ICLTS: return "clts";     case ICGES: return "cges";     case ICGTS: return "cgts";
	case ICOS: return "cos";       case ICUOS: return "cuos";
	case ICEQD: return "ceqd";     case ICNED: return "cned";     case ICLED: return "cled";
	case ICLTD: return "cltd";     case ICGED: return "cged";     case ICGTD: return "cgtd";
	case ICOD: return "cod";       case ICUOD: return "cuod";
	case IEXTSW: return "extsw";   case IEXTUW: return "extuw";   case IEXTSH: return "extsh";
	case IEXTUH: return "extuh";   case IEXTSB: return "extsb";   case IEXTUB: return "extub";
	case IEXTS: return "exts";     case ITRUNCD: return "truncd";
	case ISTOSI: return "stosi";   case ISTOUI: return "stoui";   case IDTOSI: return "dtosi";
	case IDTOUI: return "dtoui";   case ISWTOF: return "swtof";   case IUWTOF: return "uwtof";
	case ISLTOF: return "sltof";   case IULTOF: return "ultof";
	case ICAST: return "cast";     case ICOPY: return "copy";     case ICALL: return "call";
	case IVASTART: return "vastart"; case IVAARG: return "vaarg";
	default: return "?";
	}
}

/* two NUL-terminated names of at most 8 characters are the same text */
static bool
x_samename(const char *a, const char *b)
{
	unsigned i;

	for (i = 0; i < 9; i++) {
		if (a[i] != b[i])
			return 0;
		if (!a[i])
			return 1;
	}
	return 0;
}

#endif
