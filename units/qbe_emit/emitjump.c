/* UNIT
{
 "id": "QBE.emit.jump",
 "file": "qbe.c", "function": "emitjump",
 "properties": {"C03": "contract", "C19": "safety"},
 "mode": "harness",
 "replace_calls": {"emitvalue": "rec_emitvalue", "emitname": "rec_emitname"},
 "unwind": 18, "cflags": ["-DOE_MAX=16"],
 "kind": "proof-const-unwind",
 "timeout": 120, "replay": false,
 "expects": ["assertion_verif"],
 "assumes": ["stdout is the token recorder of out_rec.h; emitvalue/emitname are one-event stand-ins with the contract of QBE.emit.value (emit_stubs.h)",
             "the jump is one the builder makes (QBE.jump.*): kind JUMP_NONE..JUMP_HLT, jmp/jnz targets non-NULL, jnz argument non-NULL; an out-of-range kind is a failed internal assertion (obligation of class assertion_repo under C19)"]
}
*/
/*
 * QBE IL reference, "Jumps":  JUMP := 'jmp' @IDENT | 'jnz' VAL, @IDENT, @IDENT | 'ret' [VAL] | 'hlt', one per block, last
 * line of the block; a block without a jump falls through to the next one (so JUMP_NONE prints nothing).
 * jnz: first label taken when the value is non-zero - the order blk[0], blk[1] of the builder (QBE.jump.jnz) is kept.
 */
#include "out_rec.h"
#include "qbe.c"
#include "verif.h"
#include "emit_stubs.h"

struct token tok;
extern int g_no_error;

static void
check(int kind, bool hasarg)
{
	static struct jump j;
	static struct block b0, b1;
	static struct value arg;

	oe_reset();
	j.kind = kind;
	j.arg = hasarg ? &arg : 0;
	j.blk[0] = &b0; j.blk[1] = &b1;
	g_no_error = 1;
	emitjump(&j);
	switch (kind) {
	case JUMP_NONE:
		break;
	case JUMP_JMP:
		x_lit("\tjmp "); x_nam(&b0.label); x_ch('\n');
		break;
	case JUMP_JNZ:
		x_lit("\tjnz "); x_val(&arg); x_lit(", "); x_nam(&b0.label); x_lit(", "); x_nam(&b1.label); x_ch('\n');
		break;
	case JUMP_RET:
		x_lit("\tret");
		if (hasarg) { x_ch(' '); x_val(&arg); }
		x_ch('\n');
		break;
	case JUMP_HLT:
		x_lit("\thlt\n");
		break;
	}
	__CPROVER_assert(oe_same(), "the jump line is exactly the IL reference's jmp/jnz/ret/hlt form (nothing for a fall-through block)");
	__CPROVER_assert(IMP(kind == JUMP_JNZ, oe_n == 13 && oe[5].k == OE_VAL && oe[8].p == &b0.label && oe[11].p == &b1.label), "jnz names the non-zero target first, the zero target second");
	__CPROVER_assert(IMP(kind == JUMP_RET && !hasarg, oe_n == 5), "ret without a value prints no operand");
	__CPROVER_assert(IMP(kind != JUMP_NONE, oe[oe_n - 1].k == OE_CH && oe[oe_n - 1].v == '\n' && oe[0].v == '\t'), "one tab-indented line");
}

void
harness(void)
{
	IN(int, in_kind); IN(bool, in_hasarg);
	int k, h;

	__CPROVER_assume(in_kind >= JUMP_NONE && in_kind <= JUMP_HLT);
	__CPROVER_assume(in_kind != JUMP_JNZ || in_hasarg);
	for (k = JUMP_NONE; k <= JUMP_HLT; k++)
		for (h = 0; h < 2; h++)
			if (k == in_kind && h == in_hasarg) {
				check(k, h);
#ifdef VERIF_CANARY
				__CPROVER_assert(!(k == JUMP_RET && h), "CANARY");
#endif
			}
}
