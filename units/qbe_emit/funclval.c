/* UNIT
{
 "id": "QBE.funclval",
 "file": "qbe.c", "function": "funclval",
 "properties": {"C01": "contract", "C10": "contract", "C03": "contract", "C19": "safety"},
 "mode": "harness",
 "replace_calls": {"funcexpr": "hyp_funcexpr", "funcinit": "rec_funcinit", "stringdecl": "rec_stringdecl", "emitname": "rec_emitname"},
 "variants": {"ident": ["-DV_ARM=1"], "string": ["-DV_ARM=2"], "compound": ["-DV_ARM=3"], "unary": ["-DV_ARM=4"], "other": ["-DV_ARM=5"]},
 "canary_variant": "ident",
 "unwind": 26, "cflags": ["-DOE_MAX=24"],
 "kind": "proof-const-unwind",
 "timeout": 200, "replay": false,
 "expects": ["assertion_verif"],
 "assumes": ["inductive step: the value of a sub-expression is whatever funcexpr returns for it (hyp_funcexpr logs the call and hands back a fresh temporary); funcinit/stringdecl are recorders: funcinit(f, d, init, true) allocates the object and sets d->value (QBE.funcalloc), stringdecl(e) returns the pooled object of the literal (DECL.stringdecl.*)",
             "member access reaches funclval already lowered by expr.c to *(T *)((char *)&s + offset) (EXPRUNARY/TMUL), bit-field members as EXPRBITFIELD over that with the storage-unit geometry of decl.c:addmember (DECL.addmember.bf)",
             "stdout is the token recorder of out_rec.h (only the __func__ definition is printed here); error()/fatal() do not return",
             "one variant per arm of the switch, the expression kind a constant inside it"]
}
*/
/*
 * C11 6.3.2.1p1 (lvalue: designates an object), 6.5.1p2 (identifier designating an object/function), 6.5.3.2p4 (*E
 * designates the object E points to: its address is the VALUE of E), 6.5.2.5p4 (a compound literal provides an unnamed
 * object initialised by the list: each evaluation initialises it anew), 6.4.5p6 (string literal: static array),
 * 6.4.2.2 (__func__: `static const char __func__[] = "function-name";` behaves as if declared in the function),
 * 6.7.2.1 (bit-field: addressed through its storage unit + position).
 * funclval(f, e) = (address, bit-field descriptor) of the object e designates:
 *   identifier     the object's/function's value d->value, no code; anything else an identifier can name
 *                  (typedef, enum constant, builtin) is not an object: diagnosed, never an address;
 *   __func__       on its FIRST use the data definition `data $name = { b "fname", b 0 }` is emitted, never twice;
 *   *E             E is evaluated exactly once, its value is the address; & - ! ~ results are not objects: diagnosed;
 *   "..."          the literal's pooled static object;
 *   (T){...}       its size expressions are evaluated first, then the object is allocated AND initialised exactly once
 *                  (funcinit ... hasinit = true), the address is the one that allocation produced;
 *   other kinds    only a struct/union VALUE (call result, ?:, assignment, comma) has an address - the temporary object
 *                  funcexpr yields (6.2.4p8); any scalar rvalue is diagnosed, never an address;
 *   bit-field      the descriptor is the member's {before, after}, the address that of the underlying expression;
 *                  for everything else the descriptor is {0, 0}.
 */
#include "out_rec.h"
#include "qbe.c"
#include "verif.h"
#include "emit_stubs.h"

struct token tok;
extern int g_no_error;

/* event log */
enum { EV_EVAL = 1, EV_INIT, EV_STR };
static struct { int k; void *a, *b, *c; int x; } ev[6];
static unsigned nev;
static void lg(int k, void *a, void *b, void *c, int x) { if (nev < 6) { ev[nev].k = k; ev[nev].a = a; ev[nev].b = b; ev[nev].c = c; ev[nev].x = x; } nev++; }

static struct value v_sub, v_toeval, v_alloc, v_stale, v_str, v_obj;
static struct expr e_top, e_base, e_toeval, e_bf;
static struct decl d_obj, d_str;
static struct init i_lit;
static struct type t_e;

struct value *hyp_funcexpr(struct func *f, struct expr *e) { lg(EV_EVAL, e, 0, 0, 0); return e == &e_toeval ? &v_toeval : &v_sub; }
void rec_funcinit(struct func *f, struct decl *d, struct init *init, bool hasinit) { lg(EV_INIT, d, init, 0, hasinit); d->value = &v_alloc; }
struct decl *rec_stringdecl(struct expr *e) { lg(EV_STR, e, 0, 0, 0); return &d_str; }

static struct decl *identdecl(struct expr *e) { return e->u.ident.decl; }

void
harness(void)
{
	static struct func fn;
	static char fname[2] = "g";
	struct lvalue lv;
	struct expr *e;
	bool ok;
	IN(bool, in_bf); IN(int, in_before); IN(int, in_after);
	IN(int, in_dkind); IN(bool, in_isfunc__); IN(bool, in_othernamedecl);
	IN(int, in_op); IN(bool, in_toeval); IN(int, in_tkind); IN(int, in_ekind);

	oe_reset(); nev = 0;
	__CPROVER_assume(in_before >= 0 && in_before < 64 && in_after >= 0 && in_after < 64);
	fn.name = fname;
	fn.namedecl = in_isfunc__ ? &d_obj : in_othernamedecl ? &d_str : 0;
	d_obj.value = &v_obj; d_str.value = &v_str;
	t_e.kind = in_tkind;
	e_base.type = &t_e; e_base.base = &e_top; e_base.toeval = 0;
	e_top.type = &t_e;
#if V_ARM == 1
	e_base.kind = EXPRIDENT;
	{ __typeof__(e_base.u.ident) u = {&d_obj}; e_base.u.ident = u; }
	__CPROVER_assume(in_dkind >= DECLTYPE && in_dkind <= DECLBUILTIN);
	d_obj.kind = in_dkind;
	ok = in_dkind == DECLOBJECT || in_dkind == DECLFUNC;
	__CPROVER_assume(!in_isfunc__ || in_dkind == DECLOBJECT);
#elif V_ARM == 2
	e_base.kind = EXPRSTRING;
	ok = 1;
#elif V_ARM == 3
	e_base.kind = EXPRCOMPOUND;
	e_base.toeval = in_toeval ? &e_toeval : 0;
	{ __typeof__(e_base.u.compound) u = {&d_obj, &i_lit}; e_base.u.compound = u; }
	d_obj.value = &v_stale;            /* whatever an earlier evaluation of the same literal left there */
	ok = 1;
#elif V_ARM == 4
	e_base.kind = EXPRUNARY;
	__CPROVER_assume(in_op == TMUL || in_op == TBAND || in_op == TSUB || in_op == TBNOT || in_op == TLNOT || in_op == TADD);
	e_base.op = in_op;
	ok = in_op == TMUL;
#else
	__CPROVER_assume(in_ekind == EXPRCALL || in_ekind == EXPRCOND || in_ekind == EXPRASSIGN || in_ekind == EXPRCOMMA ||
	                 in_ekind == EXPRCAST || in_ekind == EXPRCONST || in_ekind == EXPRBINARY || in_ekind == EXPRINCDEC ||
	                 in_ekind == EXPRTEMP || in_ekind == EXPRBUILTIN || in_ekind == EXPRSIZEOF);
	__CPROVER_assume(in_tkind >= TYPEVOID && in_tkind <= TYPEFUNC);
	e_base.kind = in_ekind;
	ok = in_tkind == TYPESTRUCT || in_tkind == TYPEUNION;
#endif
	/* a bit-field member designator sits on top of the expression for its storage unit */
	if (in_bf) {
		e_bf.kind = EXPRBITFIELD; e_bf.base = &e_base; e_bf.type = &t_e;
		{ __typeof__(e_bf.u.bitfield) u = {{in_before, in_after}}; e_bf.u.bitfield = u; }
		e = &e_bf;
	} else {
		e = &e_base;
	}
	g_no_error = ok;

	lv = funclval(&fn, e);

	__CPROVER_assert(ok, "an expression that designates no object is diagnosed, it never yields an address");
	__CPROVER_assume(ok);
	__CPROVER_assert(lv.bits.before == (in_bf ? in_before : 0) && lv.bits.after == (in_bf ? in_after : 0), "the descriptor is the bit-field member's geometry, {0,0} for anything that is not a bit-field");
	__CPROVER_assert(lv.addr != 0, "an address is produced");
#if V_ARM == 1
	__CPROVER_assert(lv.addr == &v_obj && nev == 0, "identifier: the declared object's/function's own value, no code");
	if (in_isfunc__) {
		x_lit("data "); x_nam(&v_obj); x_lit(" = { b \""); x_ev(OE_STR, 0, fname); x_lit("\", b 0 }\n");
		__CPROVER_assert(oe_same(), "first use of __func__: `data $name = { b \"<function name>\", b 0 }` is emitted (a NUL-terminated array of the name)");
		__CPROVER_assert(fn.namedecl == 0, "... and never again");
	} else {
		__CPROVER_assert(oe_n == 0, "nothing is printed for any other identifier");
		__CPROVER_assert(fn.namedecl == (in_othernamedecl ? &d_str : 0), "the pending __func__ definition is left alone");
	}
#elif V_ARM == 2
	__CPROVER_assert(nev == 1 && ev[0].k == EV_STR && ev[0].a == &e_base && lv.addr == &v_str && oe_n == 0, "string literal: the pooled object of THIS literal, looked up once");
#elif V_ARM == 3
	{
		unsigned i = 0;
		if (in_toeval) { __CPROVER_assert(ev[0].k == EV_EVAL && ev[0].a == &e_toeval, "size expressions of the literal's type are evaluated first"); i = 1; }
		__CPROVER_assert(nev == i + 1 && ev[i].k == EV_INIT && ev[i].a == &d_obj && ev[i].b == &i_lit && ev[i].x == 1, "the unnamed object is allocated and initialised from the literal's list exactly once per evaluation");
		__CPROVER_assert(lv.addr == &v_alloc, "the address is the one THIS evaluation's allocation produced");
	}
#elif V_ARM == 4
	__CPROVER_assert(nev == 1 && ev[0].k == EV_EVAL && ev[0].a == &e_top && lv.addr == &v_sub && oe_n == 0, "*E: E is evaluated exactly once and its value is the address");
#else
	__CPROVER_assert(nev == 1 && ev[0].k == EV_EVAL && ev[0].a == &e_base && lv.addr == &v_sub && oe_n == 0, "struct/union value: the temporary object funcexpr yields, evaluated exactly once");
#endif
#ifdef VERIF_CANARY
	__CPROVER_assert(!(in_bf && in_before == 3), "CANARY");
#endif
}
