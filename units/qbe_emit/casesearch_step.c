/* UNIT
{
 "id": "QBE.funcswitch.step",
 "file": "qbe.c", "function": "casesearch", "also_functions": ["funcswitch", "qbetype"],
 "properties": {"C15": "contract", "C01": "contract", "C03": "contract", "C19": "safety"},
 "mode": "harness",
 "replace_calls": {"funcinst": "rec_funcinst", "funcjnz": "rec_funcjnz", "funcjmp": "rec_funcjmp", "funclabel": "rec_funclabel", "mkblock": "rec_mkblock", "mkintconst": "rec_mkintconst"},
 "variants": {"node": ["-DV_WHAT=0"], "leaf": ["-DV_WHAT=1"], "entry": ["-DV_WHAT=2"]},
 "canary_variant": "node",
 "unwind": 3,
 "kind": "proof",
 "timeout": 120, "replay": false,
 "expects": ["assertion_verif"],
 "assumes": ["INDUCTIVE STEP for a case tree of ANY height (complements the bounded QBE.casesearch.bnd): the two recursive calls of casesearch go to hyp_casesearch, which records (subtree, class, value, default target, block the sub-ladder starts in); the induction hypothesis is the statement proved here, for the subtree and the narrowed key range",
             "the IL builder is replaced by stand-ins that EXECUTE the emitted compare/branch for one arbitrary run-time value (ghost probe) per the QBE IL reference: ceq/cult of class w look at the low 32 bits only, jnz takes its first target iff the word is non-zero",
             "case keys are canonical 64-bit carriers of the promoted controlling type (sign- resp. zero-extended 32-bit values for class w): STMT.label.case; the tree is ordered by UNSIGNED 64-bit comparison of the keys: tree.c (TREE.insert.bnd)"]
}
*/
/*
 * C15: "a switch statement jumps to the case whose constant equals the value, else to default ..., independent of the
 * number of cases, ... their sign or magnitude (negative values, values above 2^31 or 2^63)".
 * Let V be the run-time value of the controlling expression as a canonical 64-bit carrier of the promoted type (for a
 * 32-bit type the register's upper half is garbage; canonical = sign-/zero-extended low half), K the node's key.
 * Statement S(c, lo, hi) for lo <= V <= hi (unsigned 64-bit order, the order of tree.c):
 *     control leaves the ladder of subtree c at the body of the node whose key == V, or at the default target if none.
 * Step (this unit), for a node c with key K, children L (keys < K) and R (keys > K):
 *     V == K  -> control goes to c->body;
 *     V <  K  -> control enters the sub-ladder of L, which was started in a fresh block right where the branch goes;
 *     V >  K  -> likewise R;     c == NULL -> jmp default.
 * Both sub-ladders get the same class, value operand and default target.  The comparisons have the class of the
 * promoted controlling type ('w': ceqw/cultw, 'l': ceql/cultl), their result is a word.
 */
#include "casesearch_redirect.h"
#include "qbe.c"
#undef casesearch
#include "verif.h"
#include "c_arith.h"

static u64 g_probe;
static struct block *g_emit, *g_pc;
static int g_cmpclass_bad, g_ncmp;
#define NV 8
static struct value vpool[NV]; static unsigned nv;
#define NB 8
static struct block bpool[NB]; static unsigned nb;
static struct value v_ctl;

static u64 gv(struct value *v) { return v == &v_ctl ? g_probe : v->u.i; }
static struct value *newv(u64 g) { __CPROVER_assert(nv < NV, "value pool"); vpool[nv].kind = VALUE_INTCONST; vpool[nv].u.i = g; return &vpool[nv++]; }
struct block *rec_mkblock(char *name) { __CPROVER_assert(nb < NB, "block pool"); return &bpool[nb++]; }
struct value *rec_mkintconst(unsigned long long n) { return newv(n); }
static int g_class;
struct value *
rec_funcinst(struct func *f, int op, int class, struct value *a, struct value *b)
{
	u64 x = gv(a), y = gv(b), r = 0;
	++g_ncmp;
	switch (op) {
	case ICEQW: r = (u32)x == (u32)y; if (g_class != 'w') g_cmpclass_bad = 1; break;
	case ICEQL: r = x == y; if (g_class != 'l') g_cmpclass_bad = 1; break;
	case ICULTW: r = (u32)x < (u32)y; if (g_class != 'w') g_cmpclass_bad = 1; break;
	case ICULTL: r = x < y; if (g_class != 'l') g_cmpclass_bad = 1; break;
	default: __CPROVER_assert(0, "only equality and unsigned-less-than compares are emitted");
	}
	__CPROVER_assert(class == 'w', "a comparison yields a word");
	__CPROVER_assert(a == &v_ctl, "the controlling value is the first operand");
	return newv(r);
}
void rec_funcjnz(struct func *f, struct value *v, struct type *t, struct block *b1, struct block *b2)
{
	__CPROVER_assert(t == 0, "the tested value is already a word");
	__CPROVER_assert(g_emit != 0, "a jump is placed in an open block");
	if (g_pc == g_emit) g_pc = (u32)gv(v) ? b1 : b2;
	g_emit = 0;
}
void rec_funcjmp(struct func *f, struct block *b) { __CPROVER_assert(g_emit != 0, "a jump is placed in an open block"); if (g_pc == g_emit) g_pc = b; g_emit = 0; }
void rec_funclabel(struct func *f, struct block *b) { __CPROVER_assert(g_emit == 0, "the previous block was terminated before a label is placed"); g_emit = b; }

/* induction hypothesis: the sub-ladder is emitted from the current block on and terminates every block it opens */
static struct { struct switchcase *c; int class; struct value *v; struct block *dflt, *at; } hyp[2];
static unsigned nhyp;
static struct block *g_entered;      /* block of the sub-ladder control is in */
void
hyp_casesearch(struct func *f, int class, struct value *v, struct switchcase *c, struct block *defaultlabel)
{
	__CPROVER_assert(g_emit != 0, "a sub-ladder starts in an open block");
	if (nhyp < 2) { hyp[nhyp].c = c; hyp[nhyp].class = class; hyp[nhyp].v = v; hyp[nhyp].dflt = defaultlabel; hyp[nhyp].at = g_emit; }
	nhyp++;
	g_emit = 0;
}

static struct switchcase node, kidL, kidR;
static struct block body, dflt, entry;

void
harness(void)
{
	IN(u64, in_probe); IN(u64, in_key); IN(bool, in_signed); IN(bool, in_hasL); IN(bool, in_hasR); IN(bool, in_l);
	int class = in_l ? 'l' : 'w';
	u64 V;

	nv = nb = nhyp = 0; g_cmpclass_bad = 0; g_ncmp = 0;
	g_class = class;
	/* canonical carrier of the run-time value; the register itself holds in_probe (upper half garbage for class w) */
	V = class == 'w' ? (in_signed ? (u64)(i64)(int32_t)(u32)in_probe : (u64)(u32)in_probe) : in_probe;
	if (class == 'w')
		__CPROVER_assume(spec_canon(in_key, 4, in_signed));
	node.node.key = in_key;
	node.node.child[0] = in_hasL ? &kidL.node : 0;
	node.node.child[1] = in_hasR ? &kidR.node : 0;
	node.node.height = 1;
	node.body = &body;
	g_probe = in_probe;
	g_emit = &entry; g_pc = &entry;
#if V_WHAT == 0
	casesearch(0, class, &v_ctl, &node, &dflt);
	__CPROVER_assert(g_emit == 0, "every block of the ladder is terminated");
	__CPROVER_assert(!g_cmpclass_bad && g_ncmp == 2, "two comparisons, both of the class of the promoted controlling type");
	__CPROVER_assert(nhyp == 2 && hyp[0].c == (struct switchcase *)node.node.child[0] && hyp[1].c == (struct switchcase *)node.node.child[1], "one sub-ladder per child: smaller keys, then larger keys");
	__CPROVER_assert(hyp[0].class == class && hyp[1].class == class && hyp[0].v == &v_ctl && hyp[1].v == &v_ctl && hyp[0].dflt == &dflt && hyp[1].dflt == &dflt, "class, value and default target are handed down unchanged");
	__CPROVER_assert(hyp[0].at != hyp[1].at && hyp[0].at != &entry && hyp[1].at != &entry && hyp[0].at != &body && hyp[1].at != &body, "each sub-ladder starts in its own fresh block");
	__CPROVER_assert(IMP(V == in_key, g_pc == &body), "value == case constant: control reaches that case's body");
	__CPROVER_assert(IMP(V < in_key, g_pc == hyp[0].at), "value below the key (in the tree's unsigned 64-bit order): control enters the ladder of the smaller keys");
	__CPROVER_assert(IMP(V > in_key, g_pc == hyp[1].at), "value above the key: control enters the ladder of the larger keys");
#ifdef VERIF_CANARY
	__CPROVER_assert(!(in_signed && !in_l && V > in_key && (i64)V < 0), "CANARY");
#endif
#elif V_WHAT == 1
	casesearch(0, class, &v_ctl, 0, &dflt);
	__CPROVER_assert(g_emit == 0 && g_pc == &dflt && g_ncmp == 0 && nhyp == 0, "empty subtree: no case matches, control goes to the default target (or past the switch)");
#else
	{
		/* funcswitch: the class is that of the promoted controlling type, the search starts at the root */
		static struct type t; static struct switchcases sw;
		t.kind = class == 'w' ? TYPEINT : TYPELONG; t.prop = PROPSCALAR|PROPARITH|PROPREAL|PROPINT;
		t.size = t.align = class == 'w' ? 4 : 8; t.u.basic.issigned = in_signed;
		sw.root = in_hasL ? &node : 0; sw.type = &t; sw.defaultlabel = 0;
		funcswitch(0, &v_ctl, &sw, &dflt);
		__CPROVER_assert(nhyp == 1 && hyp[0].c == (struct switchcase *)sw.root && hyp[0].class == class && hyp[0].v == &v_ctl && hyp[0].dflt == &dflt && hyp[0].at == &entry,
		                 "funcswitch starts the ladder of the whole tree in the current block, with the class of the promoted controlling type (4-byte: w, 8-byte: l)");
	}
#endif
}
