/* UNIT
{
 "id": "QBE.emit.dataitem",
 "file": "qbe.c", "function": "dataitem",
 "properties": {"C03": "contract", "C07": "contract", "C19": "safety"},
 "mode": "harness",
 "replace_calls": {"emitname": "rec_emitname"},
 "variants": {"str1": ["-DV_WHAT=0", "-DV_N=1"], "str2": ["-DV_WHAT=0", "-DV_N=2"], "const": ["-DV_WHAT=1"], "addr": ["-DV_WHAT=2"]},
 "canary_variant": "str2",
 "unwind": 18, "cflags": ["-DOE_MAX=16"],
 "kind": "bounded", "bound": "char strings of 1..2 bytes (every byte value) initialising arrays of 1..3 bytes; scalar constants of every value; &object / &function (NOT &object + constant: CBMC union-dereference defect)",
 "timeout": 200, "replay": false,
 "expects": ["assertion_verif"],
 "assumes": ["stdout is the token recorder of out_rec.h; emitname is a one-event stand-in (QBE.emit.value); isprint() is the C-locale one (cproc never calls setlocale): 0x20..0x7e",
             "QBE copies a string item verbatim into a `.ascii \"...\"` directive: inside the quotes a byte stands for itself unless it is `\"` or `\\\\`, and `\\\\ooo` (three octal digits) denotes the byte with that value (GNU as manual, Strings)",
             "initialiser expressions are what eval() leaves: constants, string literals, &ident, &ident + const"]
}
*/
/*
 * C07 "string initialisers are ... zero-extended to the array"; C03 "it parses".  QBE IL reference, "Data":
 *     DATAITEM := $IDENT ['+' NUMBER] | '"' ... '"' | CONST
 * String item for `char a[size] = "..."` (string.size bytes incl. the terminator, possibly more than fit):
 *   - starts and ends with a double quote; between them exactly the first min(string.size, size) bytes, in order;
 *   - a byte is written as itself only if that is unambiguous (printable ASCII other than `"` and `\`), otherwise as a
 *     backslash and THREE octal digits (fewer digits would swallow a following digit character);
 *   - when the string is shorter than the array the rest is zero-filled: `, z <size - string.size>`; never when it fits.
 * Scalar: the 64-bit carrier in decimal / s_ resp. d_ with 17 significant digits by the TYPE's size.
 * Address constant: $name [ + offset ].
 */
#include "out_rec.h"
#include "qbe.c"
#include "verif.h"
#include "emit_stubs.h"

struct token tok;
extern int g_no_error;

static bool plain(unsigned c) { return c >= 0x20 && c <= 0x7e && c != '"' && c != '\\'; }

void
harness(void)
{
	static struct expr e, el, er, id;
	static struct type t_char, t_arr, t_num;
	static struct decl d;
	static struct value dv;
	static unsigned char data[4];
	IN(unsigned, in_n); IN(unsigned, in_size); IN(u8, in_c0); IN(u8, in_c1);
	IN(u64, in_val); IN(bool, in_flt); IN(unsigned, in_tsize); IN(bool, in_plus); IN(int, in_dkind); IN(int, in_storage);
	unsigned i, k;

	oe_reset();
	g_no_error = 1;
#if V_WHAT == 0
	__CPROVER_assume(in_n >= 1 && in_n <= 2 && in_size >= 1 && in_size <= 3);
	data[0] = in_c0; data[1] = in_c1;
	t_char.kind = TYPECHAR; t_char.size = 1; t_char.prop = PROPSCALAR|PROPARITH|PROPREAL|PROPINT|PROPCHAR;
	t_arr.kind = TYPEARRAY; t_arr.base = &t_char; t_arr.size = in_size;
	e.kind = EXPRSTRING; e.type = &t_arr;
	{ __typeof__(e.u.string) s = {0}; s.data = data; s.size = in_n; e.u.string = s; }
	for (k = V_N; k <= V_N; k++)
		if (in_n == k)
			for (i = 1; i <= 3; i++)
				if (in_size == i) {
					unsigned m = k < i ? k : i, j;
					dataitem(&e, i);
					x_ch('"');
					for (j = 0; j < m; j++) {
						if (plain(data[j])) {
							x_ch(data[j]);
						} else {
							x_ch('\\');
							x_ev(OE_O3, data[j], 0);
						}
					}
					x_ch('"');
					if (k < i) {
						x_lit(", z ");
						x_ev(OE_U64, i - k, 0);
					}
					__CPROVER_assert(oe_same(), "string item: quote, the first min(len, size) bytes each as itself or as \\ooo, quote, and `, z N` exactly when the array is longer");
				}
#ifdef VERIF_CANARY
	__CPROVER_assert(!(in_n == 2 && in_size == 3 && in_c0 == '"'), "CANARY");
#endif
#elif V_WHAT == 1
	__CPROVER_assume(in_tsize == 1 || in_tsize == 2 || in_tsize == 4 || in_tsize == 8);
	__CPROVER_assume(!in_flt || in_tsize >= 4);
	t_num.size = in_tsize;
	t_num.prop = in_flt ? PROPSCALAR|PROPARITH|PROPREAL|PROPFLOAT : PROPSCALAR|PROPARITH|PROPREAL|PROPINT;
	e.kind = EXPRCONST; e.type = &t_num; e.u.constant.u = in_val;
	dataitem(&e, in_tsize);
	if (in_flt) {
		x_ch(in_tsize == 4 ? 's' : 'd'); x_ch('_'); x_ev(OE_G17, in_val, 0);
	} else {
		x_ev(OE_U64, in_val, 0);
	}
	__CPROVER_assert(oe_same(), "scalar item: decimal digits of the carrier, or s_/d_ by the type's size with 17 significant digits");
#ifdef VERIF_CANARY
	__CPROVER_assert(!(in_flt && in_tsize == 4), "CANARY");
#endif
#else
	{
		bool ok;
		__CPROVER_assume(in_dkind == DECLOBJECT || in_dkind == DECLFUNC);
		__CPROVER_assume(in_storage == SDSTATIC || in_storage == SDAUTO || in_storage == SDTHREAD);
		d.kind = in_dkind; d.value = &dv;
		{ __typeof__(d.u.obj) o = {0}; o.storage = in_storage; if (in_dkind == DECLOBJECT) d.u.obj = o; }
		id.kind = EXPRIDENT;
		{ __typeof__(id.u.ident) u = {&d}; id.u.ident = u; }
		el.kind = EXPRUNARY; el.op = TBAND; el.base = &id;
		t_num.size = 8; t_num.prop = PROPSCALAR|PROPARITH|PROPREAL|PROPINT;
		er.kind = EXPRCONST; er.type = &t_num; er.u.constant.u = in_val;
		e.kind = EXPRBINARY; e.op = TADD;
		{ __typeof__(e.u.binary) b = {&el, &er}; e.u.binary = b; }
		/* C11 6.6p9: an address constant is the address of an object of STATIC storage duration or of a function */
		/* `&object + constant` (EXPRBINARY arm: expr->u.binary.l->kind) is NOT run: CBMC 6.11 mis-resolves a pointer read from
		   the union through a pointer (CONVENTIONS 6), --no-simplify does not finish */
		__CPROVER_assume(!in_plus);
		ok = in_dkind == DECLFUNC || in_storage == SDSTATIC;
		g_no_error = ok;
		dataitem(in_plus ? &e : &el, 8);
		__CPROVER_assert(ok, "the address of an automatic/register/thread-local object is not an address constant: diagnosed");
		__CPROVER_assume(ok);
		x_nam(&dv);
		if (in_plus) { x_lit(" + "); x_ev(OE_U64, in_val, 0); }
		__CPROVER_assert(oe_same(), "address item: $name [ + offset ]");
	}
#ifdef VERIF_CANARY
	__CPROVER_assert(!(in_dkind == DECLFUNC), "CANARY");
#endif
#endif
}
